(* Self-test entries for the document wire format. *)
open Model
open Sexp
open Wire

let handle (cmd : string) (args : t list) : t option =
  match cmd, args with
  | "echo-doc", [d] -> Some (sexp_of_node (node_of_sexp d))
  | "lookup", [d; L refs] ->
    Some (sexp_of_option sexp_of_node (lookup (node_of_sexp d) (List.map ref_of_sexp refs)))
  | "doc-size", [d] -> Some (A ("i" ^ string_of_int (int_of_nat (node_size (node_of_sexp d)))))
  | _ -> None
