(* Entries for the merge models (Merge.v, MergeConfig.v, MultiDoc.v, Anchors.v).
   cfg   = (cfg <has_config> (<rule>...) (<key>...) (<cli h a o s k>) (<ini h a o s k>))
   rule  = (<node oid> <parent oid|none> <parentref pyval|none> s<text>)
   option text = none | s<hex>
   Documents are printed in the canonical OUTPUT form: object identities and
   the hasattr flag are erased (i0 / false) -- the merge properties observe
   data, order, anchors and tags. *)
open Model
open Sexp
open Wire

let opt_n_of = function A "none" -> None | x -> Some (n_of_int (int_atom x))
let opt_pyval_of = function A "none" -> None | x -> Some (pyval_of_sexp x)

let coord_of n p r = { mc_node = n_of_int (int_atom n); mc_parent = opt_n_of p; mc_ref = opt_pyval_of r }

let rule_of = function
  | L [n; p; r; v] -> { r_at = coord_of n p r; r_val = str_atom v }
  | x -> failwith ("bad rule " ^ to_string x)

let opts5 = function
  | L [a; b; c; d; e] -> (opt_str_of_sexp a, opt_str_of_sexp b, opt_str_of_sexp c, opt_str_of_sexp d, opt_str_of_sexp e)
  | x -> failwith ("bad option block " ^ to_string x)

let cfg_of = function
  | L [A "cfg"; hc; L rs; L ks; cli; ini] ->
    let (ch, ca, co, cs, ck) = opts5 cli in
    let (ih, ia, io, is, ik) = opts5 ini in
    { has_config = bool_of_sym hc; m_rules = List.map rule_of rs; m_keys = List.map rule_of ks;
      cli_hashes = ch; cli_arrays = ca; cli_aoh = co; cli_sets = cs; cli_anchors = ck;
      ini_hashes = ih; ini_arrays = ia; ini_aoh = io; ini_sets = is; ini_anchors = ik }
  | x -> failwith ("bad cfg " ^ to_string x)

let zero_info (i : info) : info = { oid = N0; anchor = i.anchor; has_anchor_attr = false; tag = i.tag }
let rec canon (n : node) : node =
  match n with
  | NLeaf (i, v) -> NLeaf (zero_info i, v)
  | NMap (i, kvs) -> NMap (zero_info i, List.map (fun (k, v) -> (canon k, canon v)) kvs)
  | NSeq (i, els) -> NSeq (zero_info i, List.map canon els)
  | NSet (i, els) -> NSet (zero_info i, List.map canon els)
let doc_out n = sexp_of_node (canon n)

(* C10: the output form keeps object identity where the property observes it --
   nodes carrying an anchor are numbered by first occurrence (key before value,
   across all documents of one answer); every other node is i0 *)
let canon_an_list (ns : node list) : node list =
  let tbl = Hashtbl.create 16 in
  let next = ref 0 in
  let inf (i : info) : info =
    match i.anchor with
    | None -> zero_info i
    | Some _ ->
      let k = int_of_n i.oid in
      let m = (match Hashtbl.find_opt tbl k with
               | Some m -> m
               | None -> incr next; Hashtbl.add tbl k !next; !next) in
      { oid = n_of_int m; anchor = i.anchor; has_anchor_attr = false; tag = i.tag } in
  let rec go (n : node) : node =
    match n with
    | NLeaf (i, v) -> NLeaf (inf i, v)
    | NMap (i, kvs) ->
      let i' = inf i in
      NMap (i', List.map (fun (k, v) -> let k' = go k in let v' = go v in (k', v')) kvs)
    | NSeq (i, els) -> let i' = inf i in NSeq (i', List.map go els)
    | NSet (i, els) -> let i' = inf i in NSet (i', List.map go els) in
  List.map go ns

(* NameError is carried as PyCrash NotImplemented (MergeConfig.name_error) *)
let m_exn_sexp (e : exn) : t =
  match e with
  | PyCrash NotImplemented -> L [A "crash"; A "NameError"]
  | _ -> exn_sexp e
let m_outcome (f : 'a -> t) (o : 'a outcome) : t =
  match o with
  | Ok a -> L [A "ok"; f a]
  | Raise e -> L [A "raise"; m_exn_sexp e]
  | OutOfFuel -> L [A "outoffuel"]

(* lit table = ((s<text> <litres>) ...), as in drv_search.ml (kept local: the
   driver modules are compiled in alphabetical order) *)
let crash_of_name = function
  | "IndexError" -> IndexError | "TypeError" -> TypeError | "KeyError" -> KeyError
  | "ValueError" -> ValueError | "AttributeError" -> AttributeError | "ReError" -> ReError
  | "RecursionError" -> RecursionError | _ -> NotImplemented
let litres_of_sexp = function
  | L [A "val"; v] -> LVal (pyval_of_sexp v)
  | A "fail" -> LFail
  | L [A "crash"; A n] -> LCrash (crash_of_name n)
  | x -> failwith ("bad litres " ^ to_string x)
let lit_of = function
  | L items ->
    lit_of_table (List.map (function L [k; r] -> (str_atom k, litres_of_sexp r)
                                   | y -> failwith ("bad lit entry " ^ to_string y)) items)
  | x -> failwith ("bad lit table " ^ to_string x)

let handle (cmd : string) (args : t list) : t option =
  match cmd, args with
  | "merge", [c; lt; l; r] ->
    Some (m_outcome doc_out (merge_root (lit_of lt) (cfg_of c) (node_of_sexp l) (node_of_sexp r)))
  | "multidoc", [A mode; c; lt; L ls; L rs] ->
    let m = (match mode with "condense" -> MCondense | "across" -> MAcross | "matrix" -> MMatrix
                            | _ -> failwith "bad multidoc mode") in
    (match multidoc_run (lit_of lt) (cfg_of c) m (List.map node_of_sexp ls) (List.map node_of_sexp rs) with
     | Ok (docs, st) ->
       let st = int_of_nat st in
       if st = 0 then Some (L [A "ok"; L (List.map doc_out docs)])
       else if m = MCondense then Some (L [A "failed"; A "condense"])
       else Some (L [A "failed"; A ("i" ^ string_of_int st)])
     | Raise e -> Some (L [A "raise"; m_exn_sexp e])
     | OutOfFuel -> Some (L [A "outoffuel"]))
  | "mergedocs", [mode; c; lt; L ls; rs] ->
    (* rs = none (stream not loadable) | (docs <node>...) *)
    let rs' = (match rs with A "none" -> None | L (A "docs" :: ds) -> Some (List.map node_of_sexp ds)
                             | x -> failwith ("bad stream " ^ to_string x)) in
    (match merge_docs_run (lit_of lt) (cfg_of c) (opt_str_of_sexp mode) (List.map node_of_sexp ls) rs' with
     | Ok (docs, st) ->
       let st = int_of_nat st in
       if st = 0 then Some (L [A "ok"; L (List.map doc_out docs)])
       else if st >= 11 && st <= 14 then Some (L [A "failed"; A "condense"])
       else Some (L [A "failed"; A ("i" ^ string_of_int st)])
     | Raise e -> Some (L [A "raise"; m_exn_sexp e])
     | OutOfFuel -> Some (L [A "outoffuel"]))
  | "mergeat", [c; lt; root; L targets; d; r] ->
    let locs = List.map (function L refs -> List.map ref_of_sexp refs | x -> failwith ("bad loc " ^ to_string x)) targets in
    Some (m_outcome doc_out (merge_at (lit_of lt) (cfg_of c) (bool_of_sym root) locs (node_of_sexp d) (node_of_sexp r)))
  | "anchors", [c; lt; l; r] ->
    Some (m_outcome (fun n -> List.hd (List.map sexp_of_node (canon_an_list [n])))
            (merge_with_anchors (cfg_of c) (lit_of lt) (node_of_sexp l) (node_of_sexp r)))
  | "resolve", [c; l; r] ->
    Some (m_outcome (fun (a, b) -> L (List.map sexp_of_node (canon_an_list [a; b])))
            (resolve_conflicts (cfg_of c) (node_of_sexp l) (node_of_sexp r)))
  | "scan-anchors", [d] ->
    Some (L (List.map (fun (k, _) -> s k) (an_scan_anchors (node_of_sexp d) [])))
  | "unique-anchor", [a; L known] ->
    Some (m_outcome s (calc_unique_anchor (str_atom a) (List.map str_atom known)))
  | "c10-guard", [l; r] ->
    (* the computable guards of the C10 theorems (Spec/SpecC10.v), evaluated on the case *)
    let l = node_of_sexp l and r = node_of_sexp r in
    Some (L [A "guard"; bs (an_doc_tidy l); bs (an_doc_tidy r); bs (one_node_per_name_b l);
             bs (one_node_per_name_b r); bs (an_heap_ok_b r); bs (keys_plain l); bs (keys_plain r)])
  | "node-eq", [a; b] -> Some (bs (node_eq (node_of_sexp a) (node_of_sexp b)))
  | _ -> None
