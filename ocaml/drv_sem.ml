(* Entry for Spec/SpecC01.v: the documented meaning of a path, evaluated by the
   EXTRACTED SPECIFICATION (a third opinion next to the model of the code and
   the Python reference of harness/c01.py).
   (sem s<path> DOC LIT RE NSTR)
   Output: (sem ok (RES ...)) | (sem unspecified)
     RES = i<oid> | (v i<oid> ...)            a node / a virtual slice result
   unspecified: the path is outside the C01 fragment or the specification says
   SOut somewhere in the result (documentation silent or "error"). *)
open Model
open Sexp
open Wire

let crash_of_name = function
  | "IndexError" -> IndexError | "TypeError" -> TypeError | "KeyError" -> KeyError
  | "ValueError" -> ValueError | "AttributeError" -> AttributeError | "ReError" -> ReError
  | "RecursionError" -> RecursionError | _ -> NotImplemented
let litres_of_sexp = function
  | L [A "val"; v] -> LVal (pyval_of_sexp v)
  | A "fail" -> LFail
  | L [A "crash"; A n] -> LCrash (crash_of_name n)
  | x -> failwith ("bad litres " ^ to_string x)
let lit_table_of_sexp = function
  | L items -> List.map (function L [k; r] -> (str_atom k, litres_of_sexp r) | y -> failwith ("bad lit entry " ^ to_string y)) items
  | x -> failwith ("bad lit table " ^ to_string x)
let reres_of_sexp = function
  | L [A "m"; b] -> RMatch (bool_of_sym b)
  | A "error" -> RError
  | x -> failwith ("bad reres " ^ to_string x)
let re_table_of_sexp = function
  | L items -> List.map (function L [p; t; r] -> ((str_atom p, str_atom t), reres_of_sexp r) | y -> failwith ("bad re entry " ^ to_string y)) items
  | x -> failwith ("bad re table " ^ to_string x)

let oid_atom (n : node) = A ("i" ^ string_of_int (int_of_n (node_oid n)))

let nstr_of_table (tbl : t) : node -> char list =
  let h = Hashtbl.create 16 in
  (match tbl with
   | L items -> List.iter (function L [o; v] -> Hashtbl.replace h (int_atom o) (str_atom v)
                                  | y -> failwith ("bad nstr entry " ^ to_string y)) items
   | x -> failwith ("bad nstr table " ^ to_string x));
  fun n -> match Hashtbl.find_opt h (int_of_n (node_oid n)) with
    | Some v -> v
    | None -> failwith "nstr-miss"

let handle (cmd : string) (args : t list) : t option =
  match cmd, args with
  | "sem", [path; doc; lt; rt; nt] ->
    let lit = lit_of_table (lit_table_of_sexp lt) in
    let re = re_of_table (re_table_of_sexp rt) in
    let nstr = nstr_of_table nt in
    let d = node_of_sexp doc in
    let txt = str_atom path in
    (match prepare (nat_of_int (List.length txt + 2)) txt with
     | Ok p when c01_frag p ->
       let l = sem_doc lit re nstr false p d in
       if List.exists (function SOut -> true | _ -> false) l then Some (L [A "sem"; A "unspecified"])
       else Some (L [A "sem"; A "ok";
                     L (List.map (function
                         | SNode n -> oid_atom n
                         | SVirt ns -> L (A "v" :: List.map oid_atom ns)
                         | SOut -> A "out") l)])
     | _ -> Some (L [A "sem"; A "unspecified"]))
  | _ -> None
