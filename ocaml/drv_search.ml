(* Entries for Searches.v.  Oracle tables travel with the request:
   lit table  = ((s<text> <litres>) ...)   litres = (val <pyval>) | fail | (crash <Name>)
   re table   = ((s<pattern> s<text> <reres>) ...)  reres = (m true|false) | error *)
open Model
open Sexp
open Wire

let crash_of_name = function
  | "IndexError" -> IndexError | "TypeError" -> TypeError | "KeyError" -> KeyError
  | "ValueError" -> ValueError | "AttributeError" -> AttributeError | "ReError" -> ReError
  | "RecursionError" -> RecursionError | _ -> NotImplemented

let litres_of_sexp = function
  | L [A "val"; v] -> LVal (pyval_of_sexp v)
  | A "fail" -> LFail
  | L [A "crash"; A n] -> LCrash (crash_of_name n)
  | x -> failwith ("bad litres " ^ to_string x)

let lit_table_of_sexp = function
  | L items -> List.map (function L [k; r] -> (str_atom k, litres_of_sexp r) | y -> failwith ("bad lit entry " ^ to_string y)) items
  | x -> failwith ("bad lit table " ^ to_string x)

let reres_of_sexp = function
  | L [A "m"; b] -> RMatch (bool_of_sym b)
  | A "error" -> RError
  | x -> failwith ("bad reres " ^ to_string x)

let re_table_of_sexp = function
  | L items -> List.map (function L [p; t; r] -> ((str_atom p, str_atom t), reres_of_sexp r) | y -> failwith ("bad re entry " ^ to_string y)) items
  | x -> failwith ("bad re table " ^ to_string x)

let method_of_name n =
  match List.find_opt (fun m -> implode (method_name m) = n) all_methods with
  | Some m -> m
  | None -> failwith ("bad method " ^ n)

let hay_of_sexp = function
  | L [A "sb"; b] -> HSBool (bool_of_sym b)
  | x -> HVal (pyval_of_sexp x)

let lcand_of_sexp = function
  | L [A "key"; A "none"; v] -> LKey (None, hay_of_sexp v)
  | L [A "key"; b; v] -> LKey (Some (bool_of_sym b), hay_of_sexp v)
  | L [A "attr"; v] -> LAttr (hay_of_sexp v)
  | L [A "desc"; L ds] -> LDesc (List.map hay_of_sexp ds)
  | x -> failwith ("bad list candidate " ^ to_string x)

let nat_list_sexp (l : nat list) : t = L (List.map (fun n -> A ("i" ^ string_of_int (int_of_nat n))) l)

let handle (cmd : string) (args : t list) : t option =
  match cmd, args with
  | "typed-value", [v; lt] ->
    Some (outcome_sexp sexp_of_pyval (typed_value (lit_of_table (lit_table_of_sexp lt)) (hay_pyval (hay_of_sexp v))))
  | "search-matches", [A m; needle; hay; lt; rt] ->
    Some (outcome_sexp bs
            (search_matches_h (lit_of_table (lit_table_of_sexp lt)) (re_of_table (re_table_of_sexp rt))
               (method_of_name m) (str_atom needle) (hay_of_sexp hay)))
  | "search-loop", [A kind; inv; A m; term; L cands; lt; rt] ->
    let lit = lit_of_table (lit_table_of_sexp lt) and re = re_of_table (re_table_of_sexp rt) in
    let inv = bool_of_sym inv and m = method_of_name m and term = str_atom term in
    let one () = match cands with [v] -> hay_of_sexp v | _ -> failwith "expected one candidate" in
    let r = match kind with
      | "list" -> list_loop lit re inv m term (List.map lcand_of_sexp cands)
      | "list-before-fix" -> list_loop_before_fix lit re inv m term (List.map lcand_of_sexp cands)
      | "keys" -> keys_loop lit re inv m term (List.map hay_of_sexp cands)
      | "set" -> set_loop lit re inv m term (List.map hay_of_sexp cands)
      | "attr" -> attr_site lit re inv m term (one ())
      | "self" -> self_site lit re inv m term (one ())
      | "desc" -> desc_site lit re inv m term (List.map hay_of_sexp cands)
      | _ -> failwith ("bad loop kind " ^ kind) in
    Some (outcome_sexp nat_list_sexp r)
  | _ -> None
