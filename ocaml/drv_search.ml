(* Entries for Searches.v.  Oracle tables travel with the request:
   lit table  = ((s<text> <litres>) ...)   litres = (val <pyval>) | fail | (crash <Name>)
   re table   = ((s<pattern> s<text> <reres>) ...)  reres = (m true|false) | error *)
open Model
open Sexp
open Wire

let crash_of_name = function
  | "IndexError" -> IndexError | "TypeError" -> TypeError | "KeyError" -> KeyError
  | "ValueError" -> ValueError | "AttributeError" -> AttributeError | "ReError" -> ReError
  | "RecursionError" -> RecursionError | _ -> NotImplemented

let litres_of_sexp = function
  | L [A "val"; v] -> LVal (pyval_of_sexp v)
  | A "fail" -> LFail
  | L [A "crash"; A n] -> LCrash (crash_of_name n)
  | x -> failwith ("bad litres " ^ to_string x)

let lit_table_of_sexp = function
  | L items -> List.map (function L [k; r] -> (str_atom k, litres_of_sexp r) | y -> failwith ("bad lit entry " ^ to_string y)) items
  | x -> failwith ("bad lit table " ^ to_string x)

let reres_of_sexp = function
  | L [A "m"; b] -> RMatch (bool_of_sym b)
  | A "error" -> RError
  | x -> failwith ("bad reres " ^ to_string x)

let re_table_of_sexp = function
  | L items -> List.map (function L [p; t; r] -> ((str_atom p, str_atom t), reres_of_sexp r) | y -> failwith ("bad re entry " ^ to_string y)) items
  | x -> failwith ("bad re table " ^ to_string x)

let method_of_name n =
  match List.find_opt (fun m -> implode (method_name m) = n) all_methods with
  | Some m -> m
  | None -> failwith ("bad method " ^ n)

let handle (cmd : string) (args : t list) : t option =
  match cmd, args with
  | "typed-value", [v; lt] ->
    Some (outcome_sexp sexp_of_pyval (typed_value (lit_of_table (lit_table_of_sexp lt)) (pyval_of_sexp v)))
  | "search-matches", [A m; needle; hay; lt; rt] ->
    Some (outcome_sexp bs
            (search_matches (lit_of_table (lit_table_of_sexp lt)) (re_of_table (re_table_of_sexp rt))
               (method_of_name m) (str_atom needle) (pyval_of_sexp hay)))
  | _ -> None
