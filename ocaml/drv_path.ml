(* Entries for the path parser / printer models. *)
open Model
open Sexp
open Wire

let segtype_name = function
  | TAnchor -> "ANCHOR" | TCollector -> "COLLECTOR" | TIndex -> "INDEX" | TKey -> "KEY"
  | TSearch -> "SEARCH" | TTraverse -> "TRAVERSE" | TKeywordSearch -> "KEYWORD_SEARCH"
  | TMatchAll -> "MATCH_ALL"

let attrs_sexp = function
  | AStr s0 -> s s0
  | AInt z -> zs z
  | ANone -> A "none"
  | ASearch (inv, m, attr, term) -> L [A "search"; bs inv; A (implode (method_name m)); s attr; s term]
  | AKeyword (inv, k, p) -> L [A "kw"; bs inv; A (implode (kw_name k)); s p]
  | ACollector (op, e) -> L [A "coll"; A (implode (cop_name op)); s e]

let seg_sexp ((t, a) : seg) : t =
  L [A (match t with Some t -> segtype_name t | None -> "NONE"); attrs_sexp a]

let sepmode_of = function
  | A "auto" -> Auto | A "dot" -> Forced Dot | A "slash" -> Forced Slash
  | x -> failwith ("bad sepmode " ^ to_string x)

let sepopt_of = function
  | A "auto" -> None | A "dot" -> Some Dot | A "slash" -> Some Slash
  | x -> failwith ("bad sep " ^ to_string x)

let handle (cmd : string) (args : t list) : t option =
  match cmd, args with
  | "parse", [m; strip; txt] ->
    Some (outcome_sexp (fun l -> L (List.map seg_sexp l)) (parse (sepmode_of m) (bool_of_sym strip) (str_atom txt)))
  | "pathstr", [m; txt] ->
    Some (outcome_sexp s (path_str (sepmode_of m) (str_atom txt)))
  | "kwparams", [txt] ->
    Some (outcome_sexp (fun l -> L (List.map s l)) (keyword_parameters (str_atom txt)))
  | "escape", [sp; txt] ->
    Some (s (escape_path_section (str_atom txt) (sepc_of (sepopt_of sp))))
  | "rules", [m; strip; txt] ->
    (* histogram support: indexes of the rule chosen at every character *)
    let orig = normalize_original (str_atom txt) in
    let es = effective_sep (sepmode_of m) orig in
    let sc = sepc_of es in
    let st = bool_of_sym strip in
    let rec go stt l acc =
      match l with
      | [] -> List.rev acc
      | c :: r ->
        let w = int_of_nat (which_rule st sc stt c) in
        (match step st sc stt c with
         | Ok s' -> go s' r (w :: acc)
         | _ -> List.rev (w :: acc))
    in
    Some (L (List.map (fun i -> A (string_of_int i)) (go (init_pst false) orig [])))
  | _ -> None
