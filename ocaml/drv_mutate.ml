(* Entries for Mutate.v / Create.v (write side of processor.py).
   coord  = (N <pc> <name_kw>) | (C (<coord> ...) <pc> <name_kw>) | (W <coord> <pc> <name_kw>)
   pc     = (<parent> <ref>)     parent = none | i<oid>     ref = pyval
   final  = (done <doc>) | (failed <family> <doc>)   family = ype | (crash <Name>) | ... *)
open Model
open Sexp
open Wire

let pc_of_sexp = function
  | L [A "none"; r] -> { pc_parent = None; pc_ref = pyval_of_sexp r }
  | L [o; r] -> { pc_parent = Some (n_of_int (int_atom o)); pc_ref = pyval_of_sexp r }
  | x -> failwith ("bad pcoord " ^ to_string x)

let rec coord_of_sexp = function
  | L [A "N"; p; nk] -> CNode (pc_of_sexp p, bool_of_sym nk)
  | L [A "C"; L cs; p; nk] -> CList (List.map coord_of_sexp cs, pc_of_sexp p, bool_of_sym nk)
  | L [A "W"; c; p; nk] -> CWrap (coord_of_sexp c, pc_of_sexp p, bool_of_sym nk)
  | x -> failwith ("bad coord " ^ to_string x)

let coords_of_sexp = function
  | L cs -> List.map coord_of_sexp cs
  | x -> failwith ("bad coords " ^ to_string x)

(* exceptions at family granularity (Appendix A, granularity rule) *)
let family (e : exn) : t =
  match exn_sexp e with
  | L (A "ype" :: _) -> A "ype"
  | x -> x

(* canonical document: oids renumbered by first occurrence (preorder, key
   before value), exactly harness/docenc.py renumber *)
let canon_doc (n : node) : t =
  let tbl = Hashtbl.create 64 in
  let ren o =
    match Hashtbl.find_opt tbl o with
    | Some k -> k
    | None -> let k = A ("i" ^ string_of_int (Hashtbl.length tbl)) in Hashtbl.add tbl o k; k in
  let rec go = function
    | L (A kind :: o :: a :: h :: tg :: rest) ->
      let o' = ren o in
      (match kind, rest with
       | "L", [v] -> L [A kind; o'; a; h; tg; v]
       | "M", [L kvs] ->
         L [A kind; o'; a; h; tg;
            L (List.map (function L [k; v] -> let k' = go k in let v' = go v in L [k'; v'] | y -> y) kvs)]
       | _, [L els] -> L [A kind; o'; a; h; tg; L (List.map go els)]
       | _ -> failwith "canon_doc: bad node")
    | x -> x in
  go (sexp_of_node n)

let final_sexp = function
  | MDone d -> L [A "done"; canon_doc d]
  | Failed (d, e) -> L [A "failed"; family e; canon_doc d]

let fmt_of_sym = function
  | A "BARE" -> FBare | A "BOOLEAN" -> FBoolean | A "DEFAULT" -> FDefault | A "DQUOTE" -> FDquote
  | A "FLOAT" -> FFloat | A "FOLDED" -> FFolded | A "INT" -> FInt | A "LITERAL" -> FLiteral
  | A "SQUOTE" -> FSquote
  | x -> failwith ("bad value format " ^ to_string x)

(* float() oracle table: ((s<text> (val <pyval>) | fail) ...) *)
let fl_of_table (tb : t) : char list -> flres outcome =
  let items = match tb with L items -> items | x -> failwith ("bad fl table " ^ to_string x) in
  let tbl = List.map (function
      | L [k; L [A "val"; v]] -> (str_atom k, FVal (pyval_of_sexp v))
      | L [k; A "fail"] -> (str_atom k, FFail)
      | y -> failwith ("bad fl entry " ^ to_string y)) items in
  fun s0 -> match List.assoc_opt s0 tbl with Some r -> Ok r | None -> Raise OracleMiss

(* literal_eval oracle table, as in drv_search.ml (which is compiled after this file) *)
let crash_of_name = function
  | "IndexError" -> IndexError | "TypeError" -> TypeError | "KeyError" -> KeyError
  | "ValueError" -> ValueError | "AttributeError" -> AttributeError | "ReError" -> ReError
  | "RecursionError" -> RecursionError | _ -> NotImplemented
let litres_of_sexp = function
  | L [A "val"; v] -> LVal (pyval_of_sexp v)
  | A "fail" -> LFail
  | L [A "crash"; A n] -> LCrash (crash_of_name n)
  | x -> failwith ("bad litres " ^ to_string x)
let lit_table_of_sexp = function
  | L items -> List.map (function L [k; r] -> (str_atom k, litres_of_sexp r) | y -> failwith ("bad lit entry " ^ to_string y)) items
  | x -> failwith ("bad lit table " ^ to_string x)

let opt_n = function A "none" -> None | x -> Some (n_of_int (int_atom x))

let segs_of_sexp = function
  | L items -> List.map (function
      | L [A "K"; k; o] -> SKey (str_atom k, opt_n o)
      | L [A "I"; z] -> SIdx (z_atom z)
      | y -> failwith ("bad seg " ^ to_string y)) items
  | x -> failwith ("bad segs " ^ to_string x)

let sfinal_sexp = function
  | SDone (d, _) -> L [A "done"; canon_doc d]
  | SFailed ((d, _), e) -> L [A "failed"; family e; canon_doc d]

let handle (cmd : string) (args : t list) : t option =
  match cmd, args with
  | "mut-skip", _ -> Some (L [A "skip"])
  | "delete", [d; cs] -> Some (final_sexp (delete_nodes (coords_of_sexp cs) (node_of_sexp d)))
  | "delete", [d; cs; L mg] ->
    Some (final_sexp (delete_nodes_mg (List.map (fun o -> n_of_int (int_atom o)) mg) (coords_of_sexp cs) (node_of_sexp d)))
  | "delete-spec", [d; cs] ->
    let d = node_of_sexp d in
    let ps = List.map (fun p -> (p.pc_parent, p.pc_ref)) (leaf_coords (coords_of_sexp cs)) in
    Some (L [bs (wf_docb d); bs (del_all_located d ps); canon_doc (delete_spec d ps)])
  | "set", [d; cs; v; f; vo; lt; ft] ->
    let d = node_of_sexp d in
    Some (sfinal_sexp (set_value (lit_of_table (lit_table_of_sexp lt)) (fl_of_table ft)
                         (coords_of_sexp cs) (pyval_of_sexp v) (fmt_of_sym f) (opt_n vo) (init_state d)))
  | "create-set", [d; sg; v; f; vo; lt; ft] ->
    Some (sfinal_sexp (create_set (lit_of_table (lit_table_of_sexp lt)) (fl_of_table ft)
                         (segs_of_sexp sg) (pyval_of_sexp v) (fmt_of_sym f) (opt_n vo) (node_of_sexp d)))
  | "create-query", [d; sg; v; vo; lt] ->
    let d = node_of_sexp d in
    Some (match create_query (lit_of_table (lit_table_of_sexp lt)) (segs_of_sexp sg) (pyval_of_sexp v) (opt_n vo) d with
        | ROk ((d', _), _) -> L [A "done"; canon_doc d']
        | RErr e -> L [A "failed"; family e; canon_doc d])
  | "create-guard", [d; sg] -> Some (L [bs (creates (node_of_sexp d) (segs_of_sexp sg))])
  | _ -> None
