(* Entries for the save-protocol models (C17) and the key rotation model (C19). *)
open Model
open Sexp
open Wire

(* ---- C17 ---- *)
let role_name = function Sv.Target -> "target" | Sv.Bak -> "bak" | Sv.Output -> "output" | Sv.Tmp -> "tmp"

let content_of = function
  | A "none" -> None | A "orig" -> Some Sv.Orig | A "stale" -> Some Sv.Stale
  | A "new" -> Some Sv.New | A "partial" -> Some Sv.Partial
  | x -> failwith ("bad content " ^ to_string x)

let content_sexp = function
  | None -> A "none" | Some Sv.Orig -> A "orig" | Some Sv.Stale -> A "stale"
  | Some Sv.New -> A "new" | Some Sv.Partial -> A "partial"

let fs_of = function
  | L [A "fs"; t; b; o] -> { Sv.f_target = content_of t; f_bak = content_of b; f_output = content_of o; f_tmp = None }
  | x -> failwith ("bad fs " ^ to_string x)

let fs_sexp (s : Sv.fs) = L [A "fs"; content_sexp s.Sv.f_target; content_sexp s.Sv.f_bak; content_sexp s.Sv.f_output]

let op_sexp = function
  | Sv.Exists r -> L [A "exists"; A (role_name r)]
  | Sv.Remove r -> L [A "remove"; A (role_name r)]
  | Sv.Copy2 (a, b) -> L [A "copy2"; A (role_name a); A (role_name b)]
  | Sv.MkTmp -> L [A "mktmp"]
  | Sv.OpenRead r -> L [A "openread"; A (role_name r)]
  | Sv.CopyObj (a, b) -> L [A "copyobj"; A (role_name a); A (role_name b)]
  | Sv.OpenTrunc r -> L [A "opentrunc"; A (role_name r)]
  | Sv.Dump (r, _) -> L [A "dump"; A (role_name r)]
  | Sv.Render _ -> L [A "render"]
  | Sv.WriteText r -> L [A "write"; A (role_name r)]

let mode_of = function
  | A "stdout" -> Sv.ToStdout | A "output" -> Sv.ToOutput | A "overwrite" -> Sv.ToOverwrite
  | x -> failwith ("bad out mode " ^ to_string x)

let cfg_of = function
  | L [A "set"; b; j; ok] -> Sv.CSet (bool_of_sym b, bool_of_sym j, bool_of_sym ok)
  | L [A "setstream"] -> Sv.CSetStream
  | L [A "merge"; m; b; j; n; ok] ->
    Sv.CMerge (mode_of m, bool_of_sym b, bool_of_sym j, nat_of_int (int_atom n), bool_of_sym ok)
  | L [A "rotate"; b; c] -> Sv.CRotate (bool_of_sym b, bool_of_sym c)
  | x -> failwith ("bad cfg " ^ to_string x)

let fault_of = function
  | A "none" -> None
  | L [k; m; kd] ->
    Some { Sv.at_k = nat_of_int (int_atom k);
           f_mode = (match m with A "before" -> Sv.Before | A "mid" -> Sv.Mid | x -> failwith ("bad mode " ^ to_string x));
           f_kind = (match kd with
               | A "oserror" -> Sv.FOs | A "assert" -> Sv.FAssert
               | A "typeerror" | A "valueerror" | A "recursion" -> Sv.FOther   (* Exception, neither of the two *)
               | A "interrupt" -> Sv.FInterrupt
               | x -> failwith ("bad kind " ^ to_string x)) }
  | x -> failwith ("bad fault " ^ to_string x)

let out_sexp (o : Sv.save_out) =
  L [A "out"; L (List.map op_sexp o.Sv.o_trace); fs_sexp o.Sv.o_fs;
     A ("i" ^ string_of_int (int_of_nat (Sv.status_code o.Sv.o_status)));
     A (if Sv.one_copy o.Sv.o_fs then "onecopy" else "nocopy")]

let step_of = function
  | A "ok" -> Sc.ROk | A "caught" -> Sc.RCaught | A "uncaught" -> Sc.RUncaught
  | x -> failwith ("bad step result " ^ to_string x)

let opt f = function A "none" -> None | x -> Some (f x)

let check_of = function
  | A "match" -> Sc.CkMatch | A "mismatch" -> Sc.CkMismatch | A "keypair" -> Sc.CkKeyPair
  | A "decfail" -> Sc.CkDecryptFail | A "crash" -> Sc.CkCrash
  | x -> failwith ("bad check result " ^ to_string x)

let action_of = function
  | A "delete" -> Sc.ADelete | A "alias" -> Sc.AAlias | A "mergekey" -> Sc.AMergeKey | A "eyaml" -> Sc.AEyaml
  | A "value" -> Sc.AValue | A "tag" -> Sc.ATag | A "nothing" -> Sc.ANothing
  | x -> failwith ("bad action " ^ to_string x)

let setin_of = function
  | L [A "setin"; usage; args; stream; backup; json; vf; loaded; must; get; nodes; check; saveto; action; apply; whole; dok] ->
    { Sc.s_usage_ok = bool_of_sym usage; s_args_ok = bool_of_sym args; s_stream = bool_of_sym stream;
      s_backup = bool_of_sym backup; s_json = bool_of_sym json; s_value_file = opt bool_of_sym vf;
      s_loaded = bool_of_sym loaded; s_must_exist = bool_of_sym must; s_get = step_of get;
      s_nodes = nat_of_int (int_atom nodes);
      s_check = opt (function L l -> List.map check_of l | x -> failwith ("bad check list " ^ to_string x)) check;
      s_saveto = opt step_of saveto; s_action = action_of action; s_apply = step_of apply;
      s_whole_doc = bool_of_sym whole; s_dump_ok = bool_of_sym dok }
  | x -> failwith ("bad setin " ^ to_string x)

let mcode_of = function
  | A "crash" -> Sc.MCrash
  | x -> Sc.MCode (nat_of_int (int_atom x))

let mfile_of = function
  | L [l; n; c] -> { Sc.mf_loaded = bool_of_sym l; mf_ndocs = nat_of_int (int_atom n); mf_merge = mcode_of c }
  | x -> failwith ("bad mfile " ^ to_string x)

let mergein_of = function
  | L [A "mergein"; usage; args; mode; backup; json; L files; stdin; cond; single; prep; outdocs; dok] ->
    { Sc.m_usage_ok = bool_of_sym usage; m_args_ok = bool_of_sym args; m_mode = mode_of mode;
      m_backup = bool_of_sym backup; m_json = bool_of_sym json; m_files = List.map mfile_of files;
      m_stdin = opt mfile_of stdin; m_condense = bool_of_sym cond; m_single = mcode_of single;
      m_prepare = step_of prep; m_outdocs = nat_of_int (int_atom outdocs); m_dump_ok = bool_of_sym dok }
  | x -> failwith ("bad mergein " ^ to_string x)

(* ---- C19 ---- *)
let fmt_of = function A "string" -> Ey.OString | A "block" -> Ey.OBlock | x -> failwith ("bad fmt " ^ to_string x)

let table3 (name : string) (rows : t list) : (string * string, string option) Hashtbl.t =
  let h = Hashtbl.create 16 in
  List.iter (function
      | L [k; arg; res] ->
        Hashtbl.replace h (sym k, implode (str_atom arg)) (match res with A "none" -> None | x -> Some (implode (str_atom x)))
      | x -> failwith ("bad " ^ name ^ " row " ^ to_string x)) rows;
  h

let lookup3 name h (k : string) (arg : char list) : char list option =
  match Hashtbl.find_opt h (k, implode arg) with
  | Some r -> (match r with Some v -> Some (explode v) | None -> None)
  | None -> failwith ("oracle-miss " ^ name ^ " " ^ k ^ " " ^ String.escaped (implode arg))

let pseg_sexp = function
  | Ey.SKey k -> L [A "K"; sexp_of_pyval k]
  | Ey.SIdx i -> L [A "I"; A ("i" ^ string_of_int (int_of_nat i))]
  | Ey.SAnchor a -> L [A "A"; s a]

let cipher_of (dect : t list) (enct : t list) (layt : t list) =
  let dh = table3 "dec" dect and eh = table3 "enc" enct and lh = table3 "layout" layt in
  let dec (k : string) c = lookup3 "dec" dh k c in
  let enc (k : string) p = lookup3 "enc" eh k p in
  let layout f c =
    match lookup3 "layout" lh (match f with Ey.OString -> "string" | Ey.OBlock -> "block") c with
    | Some v -> v | None -> failwith "layout table holds none" in
  (dec, enc, layout)

(* canonical form of ONE document: identities renumbered by first occurrence
   (fresh objects compare equal), has_anchor_attr / tag of nodes dropped *)
let canon_doc (d : node) : t =
  let tbl = Hashtbl.create 16 in
  let num (o : n) =
    let k = int_of_n o in
    (match Hashtbl.find_opt tbl k with
     | Some v -> v
     | None -> let v = Hashtbl.length tbl in Hashtbl.add tbl k v; v) in
  let head kind (i : info) = [A kind; A ("i" ^ string_of_int (num i.oid)); sexp_of_opt_str i.anchor] in
  let rec canon (nd : node) : t =
    match nd with
    | NLeaf (i, v) -> let h = head "L" i in L (h @ [sexp_of_pyval v])
    | NMap (i, kvs) ->
      let h = head "M" i in
      L (h @ [L (List.map (fun (k, v) -> let ck = canon k in let cv = canon v in L [ck; cv]) kvs)])
    | NSeq (i, els) -> let h = head "S" i in L (h @ [L (List.map canon els)])
    | NSet (i, els) -> let h = head "T" i in L (h @ [L (List.map canon els)]) in
  canon d

(* the plaintexts actually sent to `eyaml encrypt` (a plaintext that itself
   carries the marker is stored as it is, without a call) *)
let rotated_sexp (st : Ey.rstate) : t =
  L [A "rotated"; L (List.filter_map (fun ((_, p), _) ->
      if Ey.is_eyaml_value (PStr p) then None else Some (s p)) st.Ey.r_log)]

let rotate_handle (d : t) (next : t) (folded : t list) (dect : t list) (enct : t list) (layt : t list) : t =
  let (dec, enc, layout) = cipher_of dect enct layt in
  let r = Ey.rotate_file enc dec layout "old" "new" (node_of_sexp d) (n_of_int (int_atom next))
      (List.map (fun x -> n_of_int (int_atom x)) folded) in
  outcome_sexp (fun (st : Ey.rstate) ->
      L [L [A "doc"; canon_doc st.Ey.r_doc]; L [A "changed"; bs st.Ey.r_changed];
         L [A "exit"; A ("i" ^ string_of_int (int_of_nat st.Ey.r_exit))];
         rotated_sexp st]) r

(* one whole invocation: `for yaml_file in args.yaml_files` *)
let file_in_of = function
  | A "notfile" -> Ey.FiNotFile
  | A "unloadable" -> Ey.FiUnloadable
  | L [A "doc"; d; next; L folded] ->
    Ey.FiDoc (node_of_sexp d, n_of_int (int_atom next), List.map (fun x -> n_of_int (int_atom x)) folded)
  | x -> failwith ("bad file " ^ to_string x)

let file_res_sexp = function
  | Ey.FrSkipped -> L [A "file"; A "skipped"]
  | Ey.FrDone st ->
    L [A "file"; L [A "doc"; canon_doc st.Ey.r_doc]; L [A "changed"; bs st.Ey.r_changed]; rotated_sexp st]

(* exceptions at family granularity, as harness/c19.py prints them *)
let end_sexp (o : nat outcome) : t =
  L [A "end";
     (match o with
      | Ok ex -> L [A "exit"; A ("i" ^ string_of_int (int_of_nat ex))]
      | Raise (YPE _) -> L [A "raise"; A "ype"]
      | Raise e -> L [A "raise"; exn_sexp e]
      | OutOfFuel -> L [A "outoffuel"])]

let rotate_run_handle (files : t list) (dect : t list) (enct : t list) (layt : t list) : t =
  let (dec, enc, layout) = cipher_of dect enct layt in
  let o = Ey.rotate_main enc dec layout "old" "new" (List.map file_in_of files) in
  L [A "run"; L (List.map file_res_sexp o.Ey.ro_files); end_sexp o.Ey.ro_end]

let handle (cmd : string) (args : t list) : t option =
  match cmd, args with
  | "save", [c; s; f] -> Some (out_sexp (Sv.save (cfg_of c) (fault_of f) (fs_of s)))
  | "save-close", [c; s; f; m] ->
    let cm = (match m with A "none" -> None | A "before" -> Some Sv.Before | A "mid" -> Some Sv.Mid
                           | x -> failwith ("bad close mode " ^ to_string x)) in
    Some (out_sexp (Sv.save_close (cfg_of c) (fault_of f) cm (fs_of s)))
  | "save2", [c; s; f; f2] -> Some (out_sexp (Sv.save2 (cfg_of c) (fault_of f) (fault_of f2) (fs_of s)))
  | "setmain", [i; s; f] -> Some (out_sexp (Sc.set_main (setin_of i) (fault_of f) (fs_of s)))
  | "setmain2", [i; s; f; f2] -> Some (out_sexp (Sc.set_main2 (setin_of i) (fault_of f) (fault_of f2) (fs_of s)))
  | "mergemain", [i; s; f] -> Some (out_sexp (Sc.merge_main (mergein_of i) (fault_of f) (fs_of s)))
  | "rotate", [d; next; L folded; L dect; L enct; L layt] -> Some (rotate_handle d next folded dect enct layt)
  | "rotate-run", [L files; L dect; L enct; L layt] -> Some (rotate_run_handle files dect enct layt)
  | "loaded-doc-b", [L files] ->
    (* the hypothesis of the document-level theorems, evaluated on every document of the run *)
    Some (L [A "hyp"; L (List.filter_map (function
        | L [A "doc"; d; next; _] ->
          let nd = node_of_sexp d and nx = n_of_int (int_atom next) in
          Some (L [bs (c19_inv_b nd nx); bs (c19_keys_ok_b nd); bs (c19_loaded_doc_b nd nx)])
        | _ -> None) files)])
  | "eyaml-paths", [d] ->
    Some (L (List.map (fun p -> L (List.map pseg_sexp p)) (Ey.find_eyaml_paths (node_of_sexp d))))
  | "is-eyaml", [v] -> Some (bs (Ey.is_eyaml_value (pyval_of_sexp v)))
  | _ -> None
