(* Entry for Model/SearchCands.v: the candidate abstraction of
   Processor._get_nodes_by_search computed by the EXTRACTED Coq function from
   the encoded document (the harness computes the same thing from the real
   document: harness/c12.py loop_candidates).
   (search-cands s<attr> s<term> DOC LIT RE NSTR)
   Output: (ok (KIND CAND ...)) | (raise ..) | (outoffuel)
   (search-doc INV METHOD s<attr> s<term> DOC LIT RE NSTR)
   Output: (ok (i<pos> ...)) | (raise ..) | (outoffuel)     SearchCands.sc_run on those candidates:
           the positions of the candidates Processor.get_nodes yields for [attr OP term] over DOC
     KIND = list | keys | attr | desc | set | self | skip
     CAND = HAY | (key none|true|false HAY) | (attr HAY) | (desc (HAY ...))      (as drv_search.ml reads them)
     HAY  = <pyval> | (sb true|false) *)
open Model
open Sexp
open Wire

(* self-contained copies of the table converters (driver modules must not depend on one another) *)
let crash_of_name = function
  | "IndexError" -> IndexError | "TypeError" -> TypeError | "KeyError" -> KeyError
  | "ValueError" -> ValueError | "AttributeError" -> AttributeError | "ReError" -> ReError
  | "RecursionError" -> RecursionError | _ -> NotImplemented
let litres_of_sexp = function
  | L [A "val"; v] -> LVal (pyval_of_sexp v)
  | A "fail" -> LFail
  | L [A "crash"; A n] -> LCrash (crash_of_name n)
  | x -> failwith ("bad litres " ^ to_string x)
let lit_table_of_sexp = function
  | L items -> List.map (function L [k; r] -> (str_atom k, litres_of_sexp r) | y -> failwith ("bad lit entry " ^ to_string y)) items
  | x -> failwith ("bad lit table " ^ to_string x)
let reres_of_sexp = function
  | L [A "m"; b] -> RMatch (bool_of_sym b)
  | A "error" -> RError
  | x -> failwith ("bad reres " ^ to_string x)
let re_table_of_sexp = function
  | L items -> List.map (function L [p; t; r] -> ((str_atom p, str_atom t), reres_of_sexp r) | y -> failwith ("bad re entry " ^ to_string y)) items
  | x -> failwith ("bad re table " ^ to_string x)
let nstr_of_table (tbl : t) : node -> char list =
  let h = Hashtbl.create 16 in
  (match tbl with
   | L items -> List.iter (function L [o; v] -> Hashtbl.replace h (int_atom o) (str_atom v)
                                  | y -> failwith ("bad nstr entry " ^ to_string y)) items
   | x -> failwith ("bad nstr table " ^ to_string x));
  fun n -> match Hashtbl.find_opt h (int_of_n (node_oid n)) with
    | Some v -> v
    | None -> failwith "nstr-miss"
let vstr (_ : rval list) : char list = failwith "vstr-needed"
let creator _ _ (v : rval) _ = ([], Mut (N0, PNone))

let hay_sexp = function
  | HSBool b -> L [A "sb"; bs b]
  | HVal v -> sexp_of_pyval v
let lcand_sexp = function
  | LKey (None, v) -> L [A "key"; A "none"; hay_sexp v]
  | LKey (Some b, v) -> L [A "key"; bs b; hay_sexp v]
  | LAttr v -> L [A "attr"; hay_sexp v]
  | LDesc ds -> L [A "desc"; L (List.map hay_sexp ds)]
let cands_sexp = function
  | SCList l -> L (A "list" :: List.map lcand_sexp l)
  | SCKeys l -> L (A "keys" :: List.map hay_sexp l)
  | SCSet l -> L (A "set" :: List.map hay_sexp l)
  | SCAttr v -> L [A "attr"; hay_sexp v]
  | SCSelf v -> L [A "self"; hay_sexp v]
  | SCDesc ds -> L (A "desc" :: List.map hay_sexp ds)
  | SCSkip -> L [A "skip"]

let method_of_name n =
  match List.find_opt (fun m -> implode (method_name m) = n) all_methods with
  | Some m -> m
  | None -> failwith ("bad method " ^ n)
let nat_list_sexp (l : nat list) : t = L (List.map (fun n -> A ("i" ^ string_of_int (int_of_nat n))) l)

let handle (cmd : string) (args : t list) : t option =
  match cmd, args with
  | "search-cands", [attr; term; doc; lt; rt; nt] ->
    let lit = lit_of_table (lit_table_of_sexp lt) in
    let re = re_of_table (re_table_of_sexp rt) in
    let nstr = nstr_of_table nt in
    let d = node_of_sexp doc in
    let kw_handler = ek_kw_handler lit re nstr vstr in
    Some (outcome_sexp cands_sexp
            (sc_cands_doc lit re nstr vstr kw_handler creator (str_atom attr) (str_atom term) d))
  | "search-doc", [inv; A m; attr; term; doc; lt; rt; nt] ->
    let lit = lit_of_table (lit_table_of_sexp lt) in
    let re = re_of_table (re_table_of_sexp rt) in
    let nstr = nstr_of_table nt in
    let d = node_of_sexp doc in
    let kw_handler = ek_kw_handler lit re nstr vstr in
    let term = str_atom term in
    Some (outcome_sexp nat_list_sexp
            (match sc_cands_doc lit re nstr vstr kw_handler creator (str_atom attr) term d with
             | Ok cs -> sc_run lit re (bool_of_sym inv) (method_of_name m) term cs
             | Raise e -> Raise e
             | OutOfFuel -> OutOfFuel))
  | _ -> None
