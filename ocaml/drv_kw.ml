(* Entries for Keywords.v.
   (keyword <invert> <KW> s<raw params> <doc> (<ctx> ...) <lit table> <re table> <str table>)
     ctx  = (ctx (<ref> ...) none|(some (<ref> ...)) none|(some <ref>) (<ref> ...) (((<ref> ...) <ref>) ...))
            here            parent                  parentref          path        ancestry
     str table = ((i<oid> s<str(container)>) ...)
   Answer: the concatenation of the results for every context, in order:
     (ok ((nc <node> <parent> <parentref> <path> <ancestry>) ...))
     node = (at (<ref> ...) i<oid>|none) | (ref none|(some <ref>)); path segments (K s<text>) | (I i<n>) *)
open Model
open Sexp
open Wire

(* oracle tables (same wire format as drv_search.ml; repeated here because driver modules are
   compiled in alphabetical order) *)
let crash_of_name = function
  | "IndexError" -> IndexError | "TypeError" -> TypeError | "KeyError" -> KeyError
  | "ValueError" -> ValueError | "AttributeError" -> AttributeError | "ReError" -> ReError
  | "RecursionError" -> RecursionError | _ -> NotImplemented
let litres_of_sexp = function
  | L [A "val"; v] -> LVal (pyval_of_sexp v)
  | A "fail" -> LFail
  | L [A "crash"; A n] -> LCrash (crash_of_name n)
  | x -> failwith ("bad litres " ^ to_string x)
let lit_table_of_sexp = function
  | L items -> List.map (function L [k; r] -> (str_atom k, litres_of_sexp r) | y -> failwith ("bad lit entry " ^ to_string y)) items
  | x -> failwith ("bad lit table " ^ to_string x)
let reres_of_sexp = function
  | L [A "m"; b] -> RMatch (bool_of_sym b)
  | A "error" -> RError
  | x -> failwith ("bad reres " ^ to_string x)
let re_table_of_sexp = function
  | L items -> List.map (function L [p; t; r] -> ((str_atom p, str_atom t), reres_of_sexp r) | y -> failwith ("bad re entry " ^ to_string y)) items
  | x -> failwith ("bad re table " ^ to_string x)

let loc_of_sexp = function L refs -> List.map ref_of_sexp refs | x -> failwith ("bad loc " ^ to_string x)
let opt_of_sexp f = function A "none" -> None | L [A "some"; v] -> Some (f v) | x -> failwith ("bad option " ^ to_string x)

let pathseg_of_sexp = function
  | L [A "K"; v] -> RKey (PStr (str_atom v))
  | L [A "I"; i] -> RIdx (nat_of_int (int_atom i))
  | x -> failwith ("bad path segment " ^ to_string x)
let path_of_sexp = function L segs -> List.map pathseg_of_sexp segs | x -> failwith ("bad path " ^ to_string x)

let ctx_of_sexp = function
  | L [A "ctx"; here; parent; parentref; path; L anc] ->
    { k_here = loc_of_sexp here; k_parent = opt_of_sexp loc_of_sexp parent;
      k_parentref = opt_of_sexp ref_of_sexp parentref; k_path = path_of_sexp path;
      k_ancestry = List.map (function L [l; r] -> (loc_of_sexp l, ref_of_sexp r) | y -> failwith ("bad ancestry entry " ^ to_string y)) anc }
  | x -> failwith ("bad ctx " ^ to_string x)

let sexp_of_loc (l : loc) : t = L (List.map sexp_of_ref l)

let pathseg_sexp (r : ref) : t =
  match r with
  | RKey v -> L [A "K"; s (py_str v)]
  | RIdx i -> L [A "I"; A ("i" ^ string_of_int (int_of_nat i))]
  | RMember v -> L [A "E"; s (py_str v)]

let coords_sexp (doc : node) (c : coords) : t =
  let node = match c.c_node with
    | AtLoc l ->
      L [A "at"; sexp_of_loc l;
         (match lookup doc l with Some n -> A ("i" ^ string_of_int (int_of_n (node_oid n))) | None -> A "none")]
    | RefVal r -> L [A "ref"; sexp_of_option sexp_of_ref r] in
  L [A "nc"; node; sexp_of_option sexp_of_loc c.c_parent; sexp_of_option sexp_of_ref c.c_parentref;
     L (List.map pathseg_sexp c.c_path);
     L (List.map (fun (l, r) -> L [sexp_of_loc l; sexp_of_ref r]) c.c_ancestry)]

let kw_of_name n =
  match List.find_opt (fun k -> implode (kw_name k) = n) all_keywords with
  | Some k -> k
  | None -> failwith ("bad keyword " ^ n)

let str_table_of_sexp = function
  | L items -> List.map (function L [o; v] -> (int_atom o, str_atom v) | y -> failwith ("bad str entry " ^ to_string y)) items
  | x -> failwith ("bad str table " ^ to_string x)

let handle (cmd : string) (args : t list) : t option =
  match cmd, args with
  | "keyword", [inv; A kw; raw; d; L ctxs; lt; rt; st] ->
    let lit = lit_table_of_sexp lt |> lit_of_table
    and re = re_table_of_sexp rt |> re_of_table
    and strs = str_table_of_sexp st in
    let node_str (n : node) = match List.assoc_opt (int_of_n (node_oid n)) strs with Some v -> v | None -> explode "?" in
    let doc = node_of_sexp d in
    let inv = bool_of_sym inv and kw = kw_of_name kw and raw = str_atom raw in
    let rec go acc = function
      | [] -> Ok (List.concat (List.rev acc))
      | c :: r ->
        (match keyword_search lit re node_str doc inv kw raw (ctx_of_sexp c) with
         | Ok l -> go (l :: acc) r
         | Raise e -> Raise e
         | OutOfFuel -> OutOfFuel) in
    Some (outcome_sexp (fun l -> L (List.map (coords_sexp doc) l)) (go [] ctxs))
  | _ -> None
