(* Entries for the command-line glue models (coq/Model/Cli.v, property C16).
   Requests:
     (cli-argparse i<status>)                          argparse itself exited (oracle)
     (cli-get ARGS tty RAW1 QUERY)
     (cli-diff estr ARGS SRC SRC REPORT)
     (cli-validate estr ARGS tty (SRC...) SRC)
     (cli-merge estr ARGS tty (SRC...) SRC MERGE2-TABLE FLOW-TABLE JVIEW-TABLE)
     (cli-set ARGS tty valfile_ok RAW1 GATHER BUILT SAVETO-TABLE CHANGE-TABLE FLOW-TABLE DUMP-TABLE JSONVIEW-TABLE YAMLVIEW-TABLE CHANGE-VERB-TABLE)   valfile_ok = none | (some s<class the open raises>)
     (cli-paths estr ARGS tty (SRC...) SRC SEARCH-TABLE)
   Answer: (run STATUS (LINE...) (EFFECT...)) [+ (picked l r) for cli-diff] *)
open Model
open Sexp
open Wire

let nat_atom x = nat_of_int (int_atom x)
let nat_s n = A ("i" ^ string_of_int (int_of_nat n))
let opt_of f = function A "none" -> None | L [A "some"; x] -> Some (f x) | x -> failwith ("bad option " ^ to_string x)
let list_of f = function L l -> List.map f l | x -> failwith ("expected list, got " ^ to_string x)

let ufam_of = function
  | A "ype" -> UYpe | A "mergeexc" -> UMerge | A "eyaml" -> UEyaml
  | L [A "crash"; c] -> UCrash (str_atom c)
  | x -> failwith ("bad ufam " ^ to_string x)
let ufam_s = function
  | UYpe -> A "ype" | UMerge -> A "mergeexc" | UEyaml -> A "eyaml"
  | UCrash c -> L [A "crash"; s c]

let lres_of f = function
  | L [A "ok"; x] -> LOk (f x)
  | L [A "raise"; u] -> LRaise (ufam_of u)
  | x -> failwith ("bad lres " ^ to_string x)

let noise_of = function
  | L [q; v; d] -> { n_quiet = bool_of_sym q; n_verbose = bool_of_sym v; n_debug = bool_of_sym d }
  | x -> failwith ("bad noise " ^ to_string x)

let raw1_of = function
  | L [A "doc"; d] -> R1Doc (opt_of nat_atom d)
  | L [A "fail"; mro] -> R1Fail (list_of str_atom mro)
  | x -> failwith ("bad raw1 " ^ to_string x)

let rawload_of = function
  | L [A "raw"; docs; fail] -> { rl_docs = list_of nat_atom docs; rl_fail = opt_of (list_of str_atom) fail }
  | x -> failwith ("bad rawload " ^ to_string x)

let source_of = function
  | L [A "src"; name; isfile; raw] -> { s_name = str_atom name; s_isfile = bool_of_sym isfile; s_raw = rawload_of raw }
  | x -> failwith ("bad source " ^ to_string x)

let kind_of = function
  | A "dict" -> KDict | A "list" -> KList | A "cset" -> KCSet | A "none" -> KNone | A "other" -> KOther
  | x -> failwith ("bad kind " ^ to_string x)
let jres_of = function
  | A "ok" -> JOk | A "recursion" -> JRecursion | L [A "crash"; c] -> JCrash (str_atom c)
  | x -> failwith ("bad jres " ^ to_string x)
let pyobj_of = function
  | L [A "obj"; id; k; ad; ats; st; isod; isot; j] ->
    { po_id = nat_atom id; po_kind = kind_of k; po_adate = bool_of_sym ad; po_ats = bool_of_sym ats;
      po_str = str_atom st; po_iso_date = str_atom isod; po_iso_ts = str_atom isot; po_json = jres_of j }
  | x -> failwith ("bad pyobj " ^ to_string x)

(* document identifiers are 2 * (data class) + (root style bit); delivered documents are compared
   by data class only (what the dump reloads to) *)
let data_class_s n = let i = int_of_nat n in A ("i" ^ string_of_int (i - (i land 1)))

let status_s = function
  | Exit n -> L [A "exit"; nat_s n]
  | Uncaught u -> L [A "uncaught"; ufam_s u]
let line_s = function
  | OHint -> A "hint" | OWarn -> A "warn" | OVerb -> A "verb" | OSep -> A "sep"
  | OJson i -> L [A "json"; nat_s i]
  | OText t -> L [A "text"; s t]
  | OEntry i -> L [A "entry"; nat_s i]
  | OValid (f, i) -> L [A "valid"; s f; nat_s i]
  | OInvalid (f, i) -> L [A "invalid"; s f; nat_s i]
  | OPath (p, j) -> L [A "path"; s p; (match j with None -> A "none" | Some i -> L [A "some"; nat_s i])]
  | ODump (j, ds) -> L [A "dump"; bs j; L (List.map data_class_s ds)]
  | ODumpPartial -> A "dump-partial"
let effect_s = function
  | EBackup -> A "backup"
  | EWrite (j, ds) -> L [A "write"; bs j; L (List.map data_class_s ds)]
  | ERestore -> A "restored"
let run_s (r : crun) : t =
  L [A "run"; status_s r.r_status; L (List.map line_s r.r_out); L (List.map effect_s r.r_fx)]

(* finite tables -> functions; a missing entry is reported, never guessed *)
exception Miss of string
let table1 (name : string) (conv : t -> 'a) (tbl : t) : nat -> 'a =
  let items = list_of (function L [k; v] -> (int_atom k, conv v) | x -> failwith ("bad table item " ^ to_string x)) tbl in
  fun k -> let i = int_of_nat k in
    (try List.assoc i items with Not_found -> raise (Miss (name ^ " " ^ string_of_int i)))
(* the second key (the right-hand document of a merge) is looked up by data class: its root
   style is irrelevant to the glue and is changed by the merge itself *)
let table2 (name : string) (conv : t -> 'a) (tbl : t) : nat -> nat -> 'a =
  let items = list_of (function L [k1; k2; v] -> ((int_atom k1, int_atom k2), conv v)
                                | x -> failwith ("bad table item " ^ to_string x)) tbl in
  fun a b -> let i = (int_of_nat a, (let r = int_of_nat b in r - (r land 1))) in
    (try List.assoc i items with Not_found ->
       raise (Miss (name ^ " " ^ string_of_int (fst i) ^ " " ^ string_of_int (snd i))))

let daction_of = function
  | A "add" -> DAdd | A "change" -> DChange | A "delete" -> DDelete | A "same" -> DSame
  | x -> failwith ("bad action " ^ to_string x)
let dentry_of = function
  | L [a; A "renders"] -> (daction_of a, None)
  | L [a; L [A "raises"; u]] -> (daction_of a, Some (ufam_of u))
  | x -> failwith ("bad entry " ^ to_string x)

let docfmt_of = function A "auto" -> FAuto | A "yaml" -> FYaml | A "json" -> FJson | x -> failwith ("bad fmt " ^ to_string x)
let mode_of = function
  | A "condense_all" -> CondenseAll | A "merge_across" -> MergeAcross | A "matrix_merge" -> MatrixMerge
  | x -> failwith ("bad mode " ^ to_string x)

let setnode_of = function
  | L [A "sn"; e; d; c] -> { sn_is_eyaml = bool_of_sym e; sn_decrypt = lres_of bool_of_sym d; sn_check_eq = bool_of_sym c }
  | x -> failwith ("bad setnode " ^ to_string x)
let change_res_of = function
  | L [A "ok"; d] -> ChOk (nat_atom d)
  | L [A "ype"; e; d] -> ChYpe (bool_of_sym e, nat_atom d)
  | A "eyaml" -> ChEyamlExc
  | L [A "crash"; u] -> ChCrash (ufam_of u)
  | x -> failwith ("bad change_res " ^ to_string x)

let valres_of = function
  | A "nonode" -> VNoNode
  | L [A "node"; o] -> VNode (pyobj_of o)
  | L [A "raise"; u] -> VRaise (ufam_of u)
  | x -> failwith ("bad valres " ^ to_string x)
let pathrec_of = function
  | L [A "pr"; st; segs; v] -> { pr_str = str_atom st; pr_segs = list_of str_atom segs; pr_value = valres_of v }
  | x -> failwith ("bad pathrec " ^ to_string x)
let expr_results_of (x : t) =
  list_of (function
      | L [e; A "bad"] -> (str_atom e, None)
      | L [e; r] -> (str_atom e, Some (lres_of (list_of pathrec_of) r))
      | y -> failwith ("bad expr result " ^ to_string y)) x

let handle (cmd : string) (args : t list) : t option =
  try
    match cmd, args with
    | "cli-argparse", [st] -> Some (run_s { r_status = Exit (nat_atom st); r_out = []; r_fx = [] })
    | "cli-outside-model", [x] -> Some x
    | "cli-argparse-crash", [c] -> Some (run_s { r_status = Uncaught (UCrash (str_atom c)); r_out = []; r_fx = [] })
    | "cli-get", [L [A "args"; file; nostdin; noise; priv; priv_ok; pub; pub_ok]; tty; load; qverb; query] ->
      let a = { ga_file = str_atom file; ga_nostdin = bool_of_sym nostdin; ga_noise = noise_of noise; ga_priv = bool_of_sym priv;
                ga_priv_ok = bool_of_sym priv_ok; ga_pub = bool_of_sym pub; ga_pub_ok = bool_of_sym pub_ok } in
      Some (run_s (get_main a (bool_of_sym tty) (raw1_of load) (nat_atom qverb) (lres_of (list_of pyobj_of) query)))
    | "cli-diff", [estr; L [A "args"; lhs; rhs; noise; same; onlysame; config; config_ok; priv; priv_ok; pub; pub_ok; left; right];
                   ls; rs; report] ->
      let a = { da_lhs = str_atom lhs; da_rhs = str_atom rhs; da_noise = noise_of noise; da_same = bool_of_sym same;
                da_onlysame = bool_of_sym onlysame; da_config = bool_of_sym config; da_config_ok = bool_of_sym config_ok;
                da_priv = bool_of_sym priv; da_priv_ok = bool_of_sym priv_ok; da_pub = bool_of_sym pub;
                da_pub_ok = bool_of_sym pub_ok; da_left = opt_of z_atom left; da_right = opt_of z_atom right } in
      let r = diff_main (nat_atom estr) a (source_of ls) (source_of rs) (lres_of (list_of dentry_of) report) in
      (match run_s r.dr_run with
       | L items ->
         Some (L (items @ [match r.dr_picked with
             | None -> L [A "picked"; A "none"]
             | Some (l, rr) -> L [A "picked"; nat_s l; nat_s rr]]))
       | x -> Some x)
    | "cli-validate", [estr; L [A "args"; nostdin; noise]; tty; srcs; stdin_src] ->
      let srcs = list_of source_of srcs in
      let a = { va_files = List.map (fun s0 -> s0.s_name) srcs; va_nostdin = bool_of_sym nostdin; va_noise = noise_of noise } in
      Some (run_s (val_main (nat_atom estr) a (bool_of_sym tty) srcs (source_of stdin_src)))
    | "cli-merge", [estr; L [A "args"; nostdin; noise; config; config_ok; output; output_exists; overwrite; overwrite_exists;
                             backup; fmt; mode; ext; cfgerr]; tty; srcs; stdin_src; m2; fl; jv] ->
      let a = { ma_nostdin = bool_of_sym nostdin; ma_noise = noise_of noise; ma_config = bool_of_sym config;
                ma_config_ok = bool_of_sym config_ok; ma_output = str_atom output; ma_output_exists = bool_of_sym output_exists;
                ma_overwrite = str_atom overwrite; ma_overwrite_exists = bool_of_sym overwrite_exists;
                ma_backup = bool_of_sym backup; ma_format = docfmt_of fmt; ma_mode = mode_of mode; ma_out_ext = str_atom ext;
                ma_config_err = opt_of str_atom cfgerr } in
      let merge2 = table2 "merge2" (function L [e; d] -> (opt_of ufam_of e, nat_atom d) | x -> failwith ("bad merge2 " ^ to_string x)) m2 in
      let flow = table1 "flow" bool_of_sym fl in
      let jview = table1 "jview" nat_atom jv in
      Some (run_s (cli_merge_main merge2 flow jview (nat_atom estr) a (bool_of_sym tty) (list_of source_of srcs) (source_of stdin_src)))
    | "cli-set", [L [A "args"; file; nostdin; noise; value; aliasof; mergekey; valfile; stdin; random; null; delete; anchor; tag;
                     check; saveto; saveto_same; mustexist; backup; eyamlcrypt; priv; priv_ok; pub; pub_ok; rflen; jsonext];
                  tty; valfile_ok; load; gather; built; saveto_t; change_t; flow_t; dump_t; jview_t; yview_t; cverb_t] ->
      let b = bool_of_sym in
      let a = { sa_file = str_atom file; sa_nostdin = b nostdin; sa_noise = noise_of noise; sa_value = opt_of str_atom value;
                sa_aliasof = b aliasof; sa_mergekey = b mergekey; sa_valfile = b valfile; sa_stdin = b stdin;
                sa_random = opt_of z_atom random; sa_null = b null; sa_delete = b delete; sa_anchor = str_atom anchor;
                sa_tag = b tag; sa_check = b check; sa_saveto = b saveto; sa_saveto_same = b saveto_same;
                sa_mustexist = b mustexist; sa_backup = b backup; sa_eyamlcrypt = b eyamlcrypt; sa_priv = b priv;
                sa_priv_ok = b priv_ok; sa_pub = b pub; sa_pub_ok = b pub_ok; sa_random_from_len = nat_atom rflen;
                sa_is_json_ext = b jsonext } in
      let saveto = table1 "saveto" (lres_of nat_atom) saveto_t in
      let change = table1 "change" change_res_of change_t in
      let flow = table1 "flow" bool_of_sym flow_t in
      let dump_fail = table1 "dump" (opt_of str_atom) dump_t in
      let jsonview = table1 "jsonview" nat_atom jview_t in
      let change_verb = table1 "change_verb" nat_atom cverb_t in
      let yamlview = table1 "yamlview" nat_atom yview_t in
      Some (run_s (cli_set_main (lres_of nat_atom built) saveto change flow dump_fail jsonview yamlview change_verb a (b tty)
                     (opt_of str_atom valfile_ok) (raw1_of load)
                     (lres_of (list_of setnode_of) gather)))
    | "cli-paths", [estr; L [A "args"; search; except; nofile; noexpr; nopath; values; noescape; fslash; nostdin; priv; priv_ok; pub; pub_ok];
                    tty; srcs; stdin_src; st] ->
      let b = bool_of_sym in
      let a = { pa_search = list_of str_atom search; pa_except = list_of str_atom except; pa_nofile = b nofile;
                pa_noexpression = b noexpr; pa_noyamlpath = b nopath; pa_values = b values; pa_noescape = b noescape; pa_fslash = b fslash;
                pa_nostdin = b nostdin; pa_priv = b priv; pa_priv_ok = b priv_ok; pa_pub = b pub; pa_pub_ok = b pub_ok } in
      let searches = table1 "searches" (function L [ss; xs] -> (expr_results_of ss, expr_results_of xs)
                                               | x -> failwith ("bad searches " ^ to_string x)) st in
      Some (run_s (paths_main searches (nat_atom estr) a (b tty) (list_of source_of srcs) (source_of stdin_src)))
    | _ -> None
  with Miss m -> Some (L [A "error"; A "oracle-miss"; A (String.concat "_" (String.split_on_char ' ' m))])
