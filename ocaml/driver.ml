(* Line protocol: one S-expression (cmd arg ...) per input line, one
   S-expression per output line.  Unknown commands and malformed lines print
   (error "...") so the harness fails closed. *)
open Sexp

let handlers : (string -> t list -> t option) list = Handlers.all

let dispatch (line : string) : string =
  try
    match of_line line with
    | L (A cmd :: args) ->
      let rec try_all = function
        | [] -> "(error unknown-command " ^ cmd ^ ")"
        | h :: r -> (match h cmd args with Some out -> to_string out | None -> try_all r)
      in try_all handlers
    | _ -> "(error malformed)"
  with
  | Failure m -> "(error " ^ String.escaped m ^ ")"
  | Stack_overflow -> "(error stack-overflow)"
  | Not_found -> "(error not-found)"

let () =
  let ic = if Array.length Sys.argv > 1 then open_in Sys.argv.(1) else stdin in
  let out = Buffer.create (1 lsl 16) in
  (try
     while true do
       let line = input_line ic in
       Buffer.add_string out (dispatch line);
       Buffer.add_char out '\n';
       if Buffer.length out > (1 lsl 16) then (print_string (Buffer.contents out); Buffer.clear out)
     done
   with End_of_file -> ());
  print_string (Buffer.contents out)
