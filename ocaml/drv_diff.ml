(* Entries for the Differ model (coq/Model/Diff.v). *)
open Model
open Sexp
open Wire

let action_sym = function ASame -> "s" | AChange -> "c" | ADelete -> "d" | AAdd -> "a"
let action_of = function
  | A "s" -> ASame | A "c" -> AChange | A "d" -> ADelete | A "a" -> AAdd
  | x -> failwith ("bad action " ^ to_string x)

(* plain data of a node: identity, anchors and tags dropped *)
let rec data_sexp (n : node) : t =
  match n with
  | NLeaf (_, v) -> L [A "L"; sexp_of_pyval v]
  | NMap (_, kvs) -> L [A "M"; L (List.map (fun (k, v) -> L [data_sexp k; data_sexp v]) kvs)]
  | NSeq (_, els) -> L [A "S"; L (List.map data_sexp els)]
  | NSet (_, els) -> L [A "T"; L (List.map data_sexp els)]

let opt_node_of = function A "none" -> None | x -> Some (node_of_sexp x)

let rule_of = function
  | L [n; p; r; txt] -> { r_node = node_of_sexp n; r_parent = opt_node_of p; r_ref = pyval_of_sexp r; r_text = str_atom txt }
  | x -> failwith ("bad rule " ^ to_string x)

let cfg_of = function
  | L [A "cfg"; hc; aa; ah; da; dh; L rs; L ks] ->
    { d_has_config = bool_of_sym hc; c_rules = List.map rule_of rs; c_keys = List.map rule_of ks;
      arg_arrays = opt_str_of_sexp aa; arg_aoh = opt_str_of_sexp ah;
      def_arrays = opt_str_of_sexp da; def_aoh = opt_str_of_sexp dh }
  | x -> failwith ("bad cfg " ^ to_string x)

(* the entry's path, parsed by the parser model (escaped form), so that the
   comparison is on segments and not on spelling *)
let segtype_name = function
  | TAnchor -> "ANCHOR" | TCollector -> "COLLECTOR" | TIndex -> "INDEX" | TKey -> "KEY"
  | TSearch -> "SEARCH" | TTraverse -> "TRAVERSE" | TKeywordSearch -> "KEYWORD_SEARCH"
  | TMatchAll -> "MATCH_ALL"
let attrs_sexp = function
  | AStr s0 -> s s0
  | AInt z -> zs z
  | ANone -> A "none"
  | ASearch (inv, m, attr, term) -> L [A "search"; bs inv; A (implode (method_name m)); s attr; s term]
  | AKeyword (inv, k, p) -> L [A "kw"; bs inv; A (implode (kw_name k)); s p]
  | ACollector (op, e) -> L [A "coll"; A (implode (cop_name op)); s e]
let seg_sexp ((t, a) : seg) : t =
  L [A (match t with Some t -> segtype_name t | None -> "NONE"); attrs_sexp a]
let path_sexp (p : char list) : t =
  match parse Auto true p with
  | Raise (YPE _) -> L [A "raise"; A "ype"]
  | o -> outcome_sexp (fun l -> L (List.map seg_sexp l)) o

let entry_sexp (e : entry) : t =
  L [A (action_sym e.e_action); path_sexp e.e_path; data_sexp e.e_lhs; data_sexp e.e_rhs]

let sorted_entries (es : entry list) : t =
  let strs = List.map (fun e -> to_string (entry_sexp e)) es in
  L (List.map (fun x -> A x) (List.sort compare strs))

let opt_idx = function None -> A "none" | Some n -> A ("i" ^ string_of_int (int_of_nat n))
let spair_sexp ((((li, le), ri), re)) : t = L [opt_idx li; data_sexp le; opt_idx ri; data_sexp re]

let seq_items = function NSeq (_, els) -> els | _ -> failwith "expected a sequence"

let handle (cmd : string) (args : t list) : t option =
  match cmd, args with
  | "diff", [c; l; r] ->
    let res = compare_to path_eq_real (cfg_of c) (node_of_sexp l) (node_of_sexp r) in
    Some (outcome_sexp (fun es ->
        L [A ("i" ^ string_of_int (int_of_nat (exit_state es))); sorted_entries es]) res)
  | "diff-raw", [c; l; r] ->
    (* append order, with path text and ghost location: for debugging / replay *)
    let res = compare_to path_eq_real (cfg_of c) (node_of_sexp l) (node_of_sexp r) in
    Some (outcome_sexp (fun es ->
        L (List.map (fun e -> L [A (action_sym e.e_action); s e.e_path; L (List.map sexp_of_ref e.e_loc);
                                 data_sexp e.e_lhs; data_sexp e.e_rhs]) es)) res)
  | "syncval", [l; r] ->
    Some (L (List.map spair_sexp (sync_value (seq_items (node_of_sexp l)) (seq_items (node_of_sexp r)))))
  | "synckey", [c; l; r] ->
    let rn = node_of_sexp r in
    Some (L (List.map spair_sexp (sync_key (cfg_of c) rn (seq_items (node_of_sexp l)) (seq_items rn))))
  | "nodeeq", [a; b] -> Some (bs (node_eq (node_of_sexp a) (node_of_sexp b)))
  | "valeq", [a; b] -> Some (bs (val_eq (node_of_sexp a) (node_of_sexp b)))
  | "report", [q; o; sm; L acts] ->
    let es = List.map (fun a -> { e_action = action_of a; e_path = []; e_loc = []; e_lhs = none_node; e_rhs = none_node }) acts in
    let pr = printed_entries (bool_of_sym q) (bool_of_sym o) (bool_of_sym sm) es in
    Some (L [bs (changes_found es); L (List.map (fun e -> A (action_sym e.e_action)) pr)])
  | "fromstr", [A "arrays"; txt] ->
    Some (outcome_sexp (function ArrPosition -> A "POSITION" | ArrValue -> A "VALUE") (arr_from_str (str_atom txt)))
  | "fromstr", [A "aoh"; txt] ->
    Some (outcome_sexp (function AohDeep -> A "DEEP" | AohDpos -> A "DPOS" | AohKey -> A "KEY"
                               | AohPosition -> A "POSITION" | AohValue -> A "VALUE") (aoh_from_str (str_atom txt)))
  | _ -> None
