(* Entries for PathsSearch.v (C07).
   (paths <doc> <mtable> <expr> dot|slash (v k a ka va x) <lit table> <re table>)
     -> (ok none)                         get_search_term returned None
      | (ok (some (<item> ...)))          item = (ok (<seg> ...)) | (raise ...) : the reported path, parsed
      | (raise ...)
   (paths-locs ...same...) -> the ghost locations and kinds, for diagnostics
   (search-term <expr>) -> (ok none) | (ok (some (inv METHOD attr term))) | (raise ...)
   (paths-print <doc> <mtable> (<expr> ...) dot|slash (v k a ka va x) (nofile noexpression noyamlpath values noescape)
                <file> i<docindex> <lit table> <re table> <value table>)
     -> (ok ((s<line> ...) true|false)) | (raise ...)      PathsPrint.process_doc
   value table = ((s<path text> (ok s<text>) | ype | (crash Name)) ...)
   mtable = ((i<oid> (i<pos> ...) (<node> ...)) ...)
   (paths-docwf <doc>) -> (ok (true|false true|false))
     SpecC07.same_oid_same_tree, c07_keys_leaf: the document well-formedness doc_wf
     from which the loader guarantee shared_closed is PROVED (C07_shared_closed_from_wf) *)
open Model
open Sexp
open Wire

(* oracle tables: same wire format as drv_search.ml (which is linked after this module) *)
let crash_of_name = function
  | "IndexError" -> IndexError | "TypeError" -> TypeError | "KeyError" -> KeyError
  | "ValueError" -> ValueError | "AttributeError" -> AttributeError | "ReError" -> ReError
  | "RecursionError" -> RecursionError | _ -> NotImplemented
let litres_of_sexp = function
  | L [A "val"; v] -> LVal (pyval_of_sexp v)
  | A "fail" -> LFail
  | L [A "crash"; A n] -> LCrash (crash_of_name n)
  | x -> failwith ("bad litres " ^ to_string x)
let lit_table_of_sexp = function
  | L items -> List.map (function L [k; r] -> (str_atom k, litres_of_sexp r) | y -> failwith ("bad lit entry " ^ to_string y)) items
  | x -> failwith ("bad lit table " ^ to_string x)
let reres_of_sexp = function
  | L [A "m"; b] -> RMatch (bool_of_sym b)
  | A "error" -> RError
  | x -> failwith ("bad reres " ^ to_string x)
let re_table_of_sexp = function
  | L items -> List.map (function L [p; t; r] -> ((str_atom p, str_atom t), reres_of_sexp r) | y -> failwith ("bad re entry " ^ to_string y)) items
  | x -> failwith ("bad re table " ^ to_string x)

let minfo_of_sexp = function
  | L [o; L poss; L refs] ->
    (n_of_int (int_atom o),
     { mi_merged = List.map (fun p -> nat_of_int (int_atom p)) poss; mi_refs = List.map node_of_sexp refs })
  | x -> failwith ("bad mtable entry " ^ to_string x)

let mtable_of_sexp = function
  | L items -> List.map minfo_of_sexp items
  | x -> failwith ("bad mtable " ^ to_string x)

let opts_of_sexp = function
  | L [v; k; a; ka; va; x] ->
    { o_values = bool_of_sym v; o_keys = bool_of_sym k; o_anchors = bool_of_sym a;
      o_kalias = bool_of_sym ka; o_valias = bool_of_sym va; o_expand = bool_of_sym x }
  | x -> failwith ("bad opts " ^ to_string x)

let sep_of = function A "dot" -> Dot | A "slash" -> Slash | x -> failwith ("bad sep " ^ to_string x)

let rec kind_name = function
  | HKeyAnchor -> "keyanchor" | HKey -> "key" | HValAnchor -> "valanchor" | HValue -> "val"
  | HMember -> "member" | HMemberAnchor -> "memberanchor" | HYmk -> "ymk"
  | HChild k -> "child-" ^ kind_name k

let terms_sexp (t : terms) : t =
  L [bs t.t_inv; A (implode (method_name t.t_method)); s t.t_attr; s t.t_term]

let run_search args (f : hit -> t) : t =
  match args with
  | [d; mtb; expr; sp; op; lt; rt] ->
    (match get_search_term (str_atom expr) with
     | Ok None -> L [A "ok"; A "none"]
     | Ok (Some tm) ->
       let lit = lit_of_table (lit_table_of_sexp lt) in
       let re = re_of_table (re_table_of_sexp rt) in
       outcome_sexp (fun hits -> L [A "some"; L (List.map f hits)])
         (search_doc lit re (mtable_of_sexp mtb) tm (sep_of sp) (opts_of_sexp op) (node_of_sexp d))
     | Raise e -> L [A "raise"; exn_sexp e]
     | OutOfFuel -> L [A "outoffuel"])
  | _ -> failwith "paths: bad arguments"

let flags_of_sexp = function
  | L [a; b; c; d; e] ->
    { pf_nofile = bool_of_sym a; pf_noexpression = bool_of_sym b; pf_noyamlpath = bool_of_sym c;
      pf_values = bool_of_sym d; pf_noescape = bool_of_sym e }
  | x -> failwith ("bad flags " ^ to_string x)

let val_table_of_sexp = function
  | L items ->
    List.map (function
        | L [k; L [A "ok"; v]] -> (str_atom k, Ok (str_atom v))
        | L [k; A "ype"] -> (str_atom k, Raise (YPE Generic))
        | L [k; L [A "crash"; A n]] -> (str_atom k, Raise (PyCrash (crash_of_name n)))
        | y -> failwith ("bad value entry " ^ to_string y)) items
  | x -> failwith ("bad value table " ^ to_string x)

let run_print = function
  | [d; mtb; L exprs; sp; op; fl; file; idx; lt; rt; vt] ->
    let lit = lit_of_table (lit_table_of_sexp lt) in
    let re = re_of_table (re_table_of_sexp rt) in
    let vtab = val_table_of_sexp vt in
    let value_text t = match List.assoc_opt t vtab with Some r -> r | None -> Raise OracleMiss in
    outcome_sexp (fun (lines, bad) -> L [L (List.map s lines); bs bad])
      (process_doc lit re value_text (mtable_of_sexp mtb) (sep_of sp) (opts_of_sexp op) (node_of_sexp d)
         (flags_of_sexp fl) (List.map str_atom exprs) (str_atom file) (z_of_int (int_atom idx)))
  | _ -> failwith "paths-print: bad arguments"

let handle (cmd : string) (args : t list) : t option =
  match cmd with
  | "paths" ->
    Some (run_search args (fun h ->
        outcome_sexp (fun l -> L (List.map Drv_path.seg_sexp l)) (parse Auto true h.h_path)))
  | "paths-locs" ->
    Some (run_search args (fun h ->
        L [s h.h_path; L (List.map sexp_of_ref h.h_loc); A (kind_name h.h_kind)]))
  | "paths-print" -> Some (run_print args)
  | "paths-docwf" ->
    (match args with
     | [d] ->
       let doc = node_of_sexp d in
       Some (L [A "ok"; L [bs (same_oid_same_tree doc); bs (c07_keys_leaf doc)]])
     | _ -> failwith "paths-docwf: bad arguments")
  | "search-term" ->
    (match args with
     | [expr] -> Some (outcome_sexp (sexp_of_option terms_sexp) (get_search_term (str_atom expr)))
     | _ -> failwith "search-term: bad arguments")
  | _ -> None
