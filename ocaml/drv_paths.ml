(* Entries for PathsSearch.v (C07).
   (paths <doc> <mtable> <expr> dot|slash (v k a ka va x) <lit table> <re table>)
     -> (ok none)                         get_search_term returned None
      | (ok (some (<item> ...)))          item = (ok (<seg> ...)) | (raise ...) : the reported path, parsed
      | (raise ...)
   (paths-locs ...same...) -> the ghost locations and kinds, for diagnostics
   (search-term <expr>) -> (ok none) | (ok (some (inv METHOD attr term))) | (raise ...)
   mtable = ((i<oid> (i<pos> ...) (<node> ...)) ...) *)
open Model
open Sexp
open Wire

(* oracle tables: same wire format as drv_search.ml (which is linked after this module) *)
let crash_of_name = function
  | "IndexError" -> IndexError | "TypeError" -> TypeError | "KeyError" -> KeyError
  | "ValueError" -> ValueError | "AttributeError" -> AttributeError | "ReError" -> ReError
  | "RecursionError" -> RecursionError | _ -> NotImplemented
let litres_of_sexp = function
  | L [A "val"; v] -> LVal (pyval_of_sexp v)
  | A "fail" -> LFail
  | L [A "crash"; A n] -> LCrash (crash_of_name n)
  | x -> failwith ("bad litres " ^ to_string x)
let lit_table_of_sexp = function
  | L items -> List.map (function L [k; r] -> (str_atom k, litres_of_sexp r) | y -> failwith ("bad lit entry " ^ to_string y)) items
  | x -> failwith ("bad lit table " ^ to_string x)
let reres_of_sexp = function
  | L [A "m"; b] -> RMatch (bool_of_sym b)
  | A "error" -> RError
  | x -> failwith ("bad reres " ^ to_string x)
let re_table_of_sexp = function
  | L items -> List.map (function L [p; t; r] -> ((str_atom p, str_atom t), reres_of_sexp r) | y -> failwith ("bad re entry " ^ to_string y)) items
  | x -> failwith ("bad re table " ^ to_string x)

let minfo_of_sexp = function
  | L [o; L poss; L refs] ->
    (n_of_int (int_atom o),
     { mi_merged = List.map (fun p -> nat_of_int (int_atom p)) poss; mi_refs = List.map node_of_sexp refs })
  | x -> failwith ("bad mtable entry " ^ to_string x)

let mtable_of_sexp = function
  | L items -> List.map minfo_of_sexp items
  | x -> failwith ("bad mtable " ^ to_string x)

let opts_of_sexp = function
  | L [v; k; a; ka; va; x] ->
    { o_values = bool_of_sym v; o_keys = bool_of_sym k; o_anchors = bool_of_sym a;
      o_kalias = bool_of_sym ka; o_valias = bool_of_sym va; o_expand = bool_of_sym x }
  | x -> failwith ("bad opts " ^ to_string x)

let sep_of = function A "dot" -> Dot | A "slash" -> Slash | x -> failwith ("bad sep " ^ to_string x)

let rec kind_name = function
  | HKeyAnchor -> "keyanchor" | HKey -> "key" | HValAnchor -> "valanchor" | HValue -> "val"
  | HMember -> "member" | HMemberAnchor -> "memberanchor" | HYmk -> "ymk"
  | HChild k -> "child-" ^ kind_name k

let terms_sexp (t : terms) : t =
  L [bs t.t_inv; A (implode (method_name t.t_method)); s t.t_attr; s t.t_term]

let run_search args (f : hit -> t) : t =
  match args with
  | [d; mtb; expr; sp; op; lt; rt] ->
    (match get_search_term (str_atom expr) with
     | Ok None -> L [A "ok"; A "none"]
     | Ok (Some tm) ->
       let lit = lit_of_table (lit_table_of_sexp lt) in
       let re = re_of_table (re_table_of_sexp rt) in
       outcome_sexp (fun hits -> L [A "some"; L (List.map f hits)])
         (search_doc lit re (mtable_of_sexp mtb) tm (sep_of sp) (opts_of_sexp op) (node_of_sexp d))
     | Raise e -> L [A "raise"; exn_sexp e]
     | OutOfFuel -> L [A "outoffuel"])
  | _ -> failwith "paths: bad arguments"

let handle (cmd : string) (args : t list) : t option =
  match cmd with
  | "paths" ->
    Some (run_search args (fun h ->
        outcome_sexp (fun l -> L (List.map Drv_path.seg_sexp l)) (parse Auto true h.h_path)))
  | "paths-locs" ->
    Some (run_search args (fun h ->
        L [s h.h_path; L (List.map sexp_of_ref h.h_loc); A (kind_name h.h_kind)]))
  | "search-term" ->
    (match args with
     | [expr] -> Some (outcome_sexp (sexp_of_option terms_sexp) (get_search_term (str_atom expr)))
     | _ -> failwith "search-term: bad arguments")
  | _ -> None
