(* Entries for Model/Compose.v: Processor.set_value / Processor.delete_nodes END TO END - the
   evaluator model (Eval.v + Keywords.v through EvalKw.v) gathers, the Mutate.v model changes.
   Nothing is taken from the real read side.
   (set-e2e MUST s<path> DOC VALUE FMT VO LIT RE NSTR FL)    MUST = true | false (mustexist)
   (del-e2e s<path> DOC LIT RE NSTR)
     DOC / VALUE / FMT / VO / FL as in drv_mutate.ml (set ...); LIT / RE / NSTR as in drv_eval.ml (eval ...)
   Output, in the vocabulary of drv_mutate.ml:
     (done DOC') | (failed FAMILY DOC')      FAMILY: a change raised (DOC' = the document then), or the
                                             gather raised (DOC' = the unchanged document)
     (mutates)      the optional gather reached a node-creating branch (C09's subject)
     (outoffuel) | (unsupported)             unsupported: a gathered NodeCoords outside Compose.ce_coord
   This module is compiled after drv_eval.ml and drv_mutate.ml (alphabetical order) and uses their
   table readers and canonical document printer, so that the composed route prints exactly what the
   coordinate-fed route prints. *)
open Model
open Sexp
open Wire

let read_common path doc lt rt nt =
  let lit = lit_of_table (Drv_eval.lit_table_of_sexp lt) in
  let re = re_of_table (Drv_eval.re_table_of_sexp rt) in
  let nstr = Drv_eval.nstr_of_table nt in
  let d = node_of_sexp doc in
  let txt = str_atom path in
  (lit, re, nstr, d, txt, ek_kw_handler lit re nstr Drv_eval.vstr)

let handle (cmd : string) (args : t list) : t option =
  match cmd, args with
  | "set-e2e", [must; path; doc; v; f; vo; lt; rt; nt; ft] ->
    let (lit, re, nstr, d, txt, kw) = read_common path doc lt rt nt in
    (match prepare (nat_of_int (List.length txt + 2)) txt with
     | OutOfFuel -> Some (L [A "outoffuel"; A "prepare"])
     | Raise e -> Some (L [A "failed"; Drv_mutate.family e; Drv_mutate.canon_doc d])
     | Ok p ->
       Some (match ce_set lit re nstr Drv_eval.vstr kw Drv_eval.creator (Drv_mutate.fl_of_table ft)
                     (bool_of_sym must) p d (pyval_of_sexp v) (Drv_mutate.fmt_of_sym f) (Drv_mutate.opt_n vo) with
           | CeDone (d', _) -> L [A "done"; Drv_mutate.canon_doc d']
           | CeFailed ((d', _), e) -> L [A "failed"; Drv_mutate.family e; Drv_mutate.canon_doc d']
           | CeRead (Err e) -> L [A "failed"; Drv_mutate.family e; Drv_mutate.canon_doc d]
           | CeRead (Mut _) -> L [A "mutates"]
           | CeRead Fuel -> L [A "outoffuel"]
           | CeRead Done -> L [A "error"; A "impossible"]
           | CeShape -> L [A "unsupported"]))
  | "del-e2e", [path; doc; lt; rt; nt] ->
    let (lit, re, nstr, d, txt, kw) = read_common path doc lt rt nt in
    (match prepare (nat_of_int (List.length txt + 2)) txt with
     | OutOfFuel -> Some (L [A "outoffuel"; A "prepare"])
     | Raise e -> Some (L [A "failed"; Drv_mutate.family e; Drv_mutate.canon_doc d])
     | Ok p ->
       Some (match ce_delete lit re nstr Drv_eval.vstr kw Drv_eval.creator p d with
           | CsDone d' -> L [A "done"; Drv_mutate.canon_doc d']
           | CsFailed (d', e) -> L [A "failed"; Drv_mutate.family e; Drv_mutate.canon_doc d']
           | CsOutside -> L [A "unsupported"]))
  | _ -> None
