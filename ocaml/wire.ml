(* Converters between S-expressions and the extracted Coq types shared by all
   models (numbers, outcomes). *)
open Model
open Sexp

let rec nat_of_int n = if n <= 0 then O else S (nat_of_int (n - 1))
let rec int_of_nat = function O -> 0 | S n -> 1 + int_of_nat n

let rec pos_of_int n =
  if n = 1 then XH else if n land 1 = 0 then XO (pos_of_int (n lsr 1)) else XI (pos_of_int (n lsr 1))
let z_of_int n = if n = 0 then Z0 else if n > 0 then Zpos (pos_of_int n) else Zneg (pos_of_int (-n))

(* arbitrary-size decimal -> Z, through the model's own py_int *)
let z_of_decimal (d : string) : z =
  match py_int (explode d) with Some z -> z | None -> failwith ("bad integer " ^ d)
let decimal_of_z (z : z) : string = implode (str_of_Z z)
let z_atom = function
  | A s when String.length s >= 2 && s.[0] = 'i' -> z_of_decimal (String.sub s 1 (String.length s - 1))
  | x -> failwith ("expected int atom, got " ^ to_string x)
let zs z = A ("i" ^ decimal_of_z z)

let bool_of_sym = function A "true" -> true | A "false" -> false | x -> failwith ("expected bool, got " ^ to_string x)
let bs b = A (if b then "true" else "false")

let exn_sexp (e : exn) : t =
  match e with
  | YPE k ->
    L [A "ype"; A (match k with Generic -> "Generic" | Unmatched -> "Unmatched" | TypeMismatch -> "TypeMismatch"
                   | Recursion -> "Recursion" | NoDocument -> "NoDocument" | DuplicateKey -> "DuplicateKey"
                   | BadAlias -> "BadAlias")]
  | MergeExc -> L [A "mergeexc"]
  | EyamlExc -> L [A "eyamlexc"]
  | OracleMiss -> L [A "oraclemiss"]
  | PyCrash c ->
    L [A "crash"; A (match c with IndexError -> "IndexError" | TypeError -> "TypeError" | KeyError -> "KeyError"
                     | ValueError -> "ValueError" | AttributeError -> "AttributeError" | ReError -> "ReError"
                     | RecursionError -> "RecursionError" | NotImplemented -> "NotImplemented")]

let outcome_sexp (f : 'a -> t) (o : 'a outcome) : t =
  match o with
  | Ok a -> L [A "ok"; f a]
  | Raise e -> L [A "raise"; exn_sexp e]
  | OutOfFuel -> L [A "outoffuel"]

(* ---- PyVal / Doc ---- *)
let pos_of_z = function Zpos p -> p | _ -> failwith "expected positive denominator"

let pyval_of_sexp (x : t) : pyval =
  match x with
  | A "none" -> PNone
  | L [A "b"; b] -> PBool (bool_of_sym b)
  | L [A "i"; n] -> PInt (z_atom n)
  | L [A "f"; n; d; r] -> PFloat ({ qnum = z_atom n; qden = pos_of_z (z_atom d) }, str_atom r)
  | L [A "s"; v] -> PStr (str_atom v)
  | L [A "o"; v] -> POther (str_atom v)
  | _ -> failwith ("bad pyval " ^ to_string x)

let sexp_of_pyval (v : pyval) : t =
  match v with
  | PNone -> A "none"
  | PBool b -> L [A "b"; bs b]
  | PInt z -> L [A "i"; zs z]
  | PFloat (q, r) -> L [A "f"; zs q.qnum; zs (Zpos q.qden); s r]
  | PStr v -> L [A "s"; s v]
  | POther v -> L [A "o"; s v]

let rec n_of_int (i : int) : n = if i = 0 then N0 else Npos (pos_of_int i)
let rec int_of_pos = function XH -> 1 | XO p -> 2 * int_of_pos p | XI p -> 2 * int_of_pos p + 1
let int_of_n = function N0 -> 0 | Npos p -> int_of_pos p

let opt_str_of_sexp = function A "none" -> None | x -> Some (str_atom x)
let sexp_of_opt_str = function None -> A "none" | Some v -> s v

let info_of (o : t) (a : t) (h : t) (tg : t) : info =
  { oid = n_of_int (int_atom o); anchor = opt_str_of_sexp a; has_anchor_attr = bool_of_sym h;
    tag = opt_str_of_sexp tg }

let rec node_of_sexp (x : t) : node =
  match x with
  | L [A "L"; o; a; h; tg; v] -> NLeaf (info_of o a h tg, pyval_of_sexp v)
  | L [A "M"; o; a; h; tg; L kvs] ->
    NMap (info_of o a h tg,
          List.map (function L [k; v] -> (node_of_sexp k, node_of_sexp v) | y -> failwith ("bad pair " ^ to_string y)) kvs)
  | L [A "S"; o; a; h; tg; L els] -> NSeq (info_of o a h tg, List.map node_of_sexp els)
  | L [A "T"; o; a; h; tg; L els] -> NSet (info_of o a h tg, List.map node_of_sexp els)
  | _ -> failwith ("bad node " ^ to_string x)

let info_items (i : info) : t list =
  [A ("i" ^ string_of_int (int_of_n i.oid)); sexp_of_opt_str i.anchor; bs i.has_anchor_attr; sexp_of_opt_str i.tag]

let rec sexp_of_node (n : node) : t =
  match n with
  | NLeaf (i, v) -> L (A "L" :: info_items i @ [sexp_of_pyval v])
  | NMap (i, kvs) -> L (A "M" :: info_items i @ [L (List.map (fun (k, v) -> L [sexp_of_node k; sexp_of_node v]) kvs)])
  | NSeq (i, els) -> L (A "S" :: info_items i @ [L (List.map sexp_of_node els)])
  | NSet (i, els) -> L (A "T" :: info_items i @ [L (List.map sexp_of_node els)])

let sexp_of_ref (r : ref) : t =
  match r with
  | RKey k -> L [A "K"; sexp_of_pyval k]
  | RIdx i -> L [A "I"; A ("i" ^ string_of_int (int_of_nat i))]
  | RMember v -> L [A "E"; sexp_of_pyval v]

let ref_of_sexp (x : t) : ref =
  match x with
  | L [A "K"; k] -> RKey (pyval_of_sexp k)
  | L [A "I"; i] -> RIdx (nat_of_int (int_atom i))
  | L [A "E"; v] -> RMember (pyval_of_sexp v)
  | _ -> failwith ("bad ref " ^ to_string x)

let sexp_of_option f = function None -> A "none" | Some v -> L [A "some"; f v]
