(* Converters between S-expressions and the extracted Coq types shared by all
   models (numbers, outcomes). *)
open Model
open Sexp

let rec nat_of_int n = if n <= 0 then O else S (nat_of_int (n - 1))
let rec int_of_nat = function O -> 0 | S n -> 1 + int_of_nat n

let rec pos_of_int n =
  if n = 1 then XH else if n land 1 = 0 then XO (pos_of_int (n lsr 1)) else XI (pos_of_int (n lsr 1))
let z_of_int n = if n = 0 then Z0 else if n > 0 then Zpos (pos_of_int n) else Zneg (pos_of_int (-n))

(* arbitrary-size decimal -> Z, through the model's own py_int *)
let z_of_decimal (d : string) : z =
  match py_int (explode d) with Some z -> z | None -> failwith ("bad integer " ^ d)
let decimal_of_z (z : z) : string = implode (str_of_Z z)
let z_atom = function
  | A s when String.length s >= 2 && s.[0] = 'i' -> z_of_decimal (String.sub s 1 (String.length s - 1))
  | x -> failwith ("expected int atom, got " ^ to_string x)
let zs z = A ("i" ^ decimal_of_z z)

let bool_of_sym = function A "true" -> true | A "false" -> false | x -> failwith ("expected bool, got " ^ to_string x)
let bs b = A (if b then "true" else "false")

let exn_sexp (e : exn) : t =
  match e with
  | YPE k ->
    L [A "ype"; A (match k with Generic -> "Generic" | Unmatched -> "Unmatched" | TypeMismatch -> "TypeMismatch"
                   | Recursion -> "Recursion" | NoDocument -> "NoDocument" | DuplicateKey -> "DuplicateKey"
                   | BadAlias -> "BadAlias")]
  | MergeExc -> L [A "mergeexc"]
  | EyamlExc -> L [A "eyamlexc"]
  | PyCrash c ->
    L [A "crash"; A (match c with IndexError -> "IndexError" | TypeError -> "TypeError" | KeyError -> "KeyError"
                     | ValueError -> "ValueError" | AttributeError -> "AttributeError" | ReError -> "ReError"
                     | RecursionError -> "RecursionError" | NotImplemented -> "NotImplemented")]

let outcome_sexp (f : 'a -> t) (o : 'a outcome) : t =
  match o with
  | Ok a -> L [A "ok"; f a]
  | Raise e -> L [A "raise"; exn_sexp e]
  | OutOfFuel -> L [A "outoffuel"]
