(* Minimal S-expressions for the harness <-> model line protocol.
   Atoms: s<hex> = byte string, i<decimal> = integer, anything else = symbol. *)
type t = A of string | L of t list

let of_line (line : string) : t =
  let n = String.length line in
  let pos = ref 0 in
  let rec skip () = if !pos < n && (line.[!pos] = ' ' || line.[!pos] = '\t') then (incr pos; skip ()) in
  let rec item () =
    skip ();
    if !pos >= n then failwith "sexp: unexpected end";
    if line.[!pos] = '(' then begin
      incr pos;
      let rec items acc =
        skip ();
        if !pos >= n then failwith "sexp: unclosed (";
        if line.[!pos] = ')' then (incr pos; L (List.rev acc))
        else items (item () :: acc)
      in items []
    end else begin
      let st = !pos in
      while !pos < n && line.[!pos] <> ' ' && line.[!pos] <> '(' && line.[!pos] <> ')' && line.[!pos] <> '\t' do incr pos done;
      A (String.sub line st (!pos - st))
    end
  in item ()

let rec to_buf b = function
  | A s -> Buffer.add_string b s
  | L l ->
    Buffer.add_char b '(';
    List.iteri (fun i x -> if i > 0 then Buffer.add_char b ' '; to_buf b x) l;
    Buffer.add_char b ')'

let to_string x = let b = Buffer.create 256 in to_buf b x; Buffer.contents b

let hexdigit c = match c with
  | '0'..'9' -> Char.code c - 48
  | 'a'..'f' -> Char.code c - 87
  | 'A'..'F' -> Char.code c - 55
  | _ -> failwith "sexp: bad hex"

(* s<hex> -> char list (Coq string under ExtrOcamlString) *)
let chars_of_hex (h : string) (from : int) : char list =
  let n = String.length h in
  let rec go i acc = if i < from then acc else go (i - 2) (Char.chr (hexdigit h.[i] * 16 + hexdigit h.[i+1]) :: acc) in
  if (n - from) mod 2 <> 0 then failwith "sexp: odd hex" else go (n - 2) []

let hex_of_chars (l : char list) : string =
  let b = Buffer.create 32 in
  Buffer.add_char b 's';
  List.iter (fun c -> Buffer.add_string b (Printf.sprintf "%02x" (Char.code c))) l;
  Buffer.contents b

let str_atom = function
  | A s when String.length s >= 1 && s.[0] = 's' -> chars_of_hex s 1
  | x -> failwith ("sexp: expected string atom, got " ^ to_string x)

let sym = function A s -> s | x -> failwith ("sexp: expected symbol, got " ^ to_string x)

let int_atom = function
  | A s when String.length s >= 2 && s.[0] = 'i' -> int_of_string (String.sub s 1 (String.length s - 1))
  | x -> failwith ("sexp: expected int atom, got " ^ to_string x)

let s (l : char list) = A (hex_of_chars l)
let implode (l : char list) = String.of_seq (List.to_seq l)
let explode (s : string) = List.of_seq (String.to_seq s)
