(* Entries for Model/PathBuild.v: the text of a reported path and its guard.
   (pb-text dot|slash LOC)      -> (ok s<build_path>)
   (pb-orig LOC)                -> (ok s<build_orig>)
   (pb-safe dot|slash DOC LOC)  -> (ok true|false)
   (pb-safe-key dot|slash s<k>) -> (ok true|false)
   LOC = ((K pyval) | (I i<n>) | (E pyval) ...) *)
open Model
open Sexp
open Wire

let sep_of = function
  | A "dot" -> Dot | A "slash" -> Slash
  | x -> failwith ("bad sep " ^ to_string x)
let loc_of = function
  | L l -> List.map ref_of_sexp l
  | x -> failwith ("bad loc " ^ to_string x)

let handle (cmd : string) (args : t list) : t option =
  match cmd, args with
  | "pb-text", [sp; loc] -> Some (L [A "ok"; s (build_path (sep_of sp) (loc_of loc))])
  | "pb-orig", [loc] -> Some (L [A "ok"; s (build_orig (loc_of loc))])
  | "pb-safe", [sp; doc; loc] -> Some (L [A "ok"; bs (pb_safe (sep_of sp) (node_of_sexp doc) (loc_of loc))])
  | "pb-safe-key", [sp; k] -> Some (L [A "ok"; bs (safe_key (sep_char (sep_of sp)) (str_atom k))])
  | _ -> None
