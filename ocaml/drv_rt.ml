(* Entries for C08: the reference writer / well-formedness of Spec/C08Spec.v
   and the YAMLPath object model of Model/PathPrinter.v. *)
open Model
open Sexp
open Wire

let segtype_of = function
  | "ANCHOR" -> TAnchor | "COLLECTOR" -> TCollector | "INDEX" -> TIndex | "KEY" -> TKey
  | "SEARCH" -> TSearch | "TRAVERSE" -> TTraverse | "KEYWORD_SEARCH" -> TKeywordSearch
  | "MATCH_ALL" -> TMatchAll
  | x -> failwith ("bad segment type " ^ x)

let find_by (name : 'a -> char list) (all : 'a list) (n : string) : 'a =
  try List.find (fun m -> implode (name m) = n) all with Not_found -> failwith ("bad enum name " ^ n)

let cop_of = function
  | "NONE" -> CNone | "ADDITION" -> CAdd | "SUBTRACTION" -> CSub | "INTERSECTION" -> CAnd
  | x -> failwith ("bad collector operator " ^ x)

let attrs_of (x : t) : attrs =
  match x with
  | A "none" -> ANone
  | A a when String.length a >= 1 && a.[0] = 's' -> AStr (str_atom x)
  | A a when String.length a >= 1 && a.[0] = 'i' -> AInt (z_atom x)
  | L [A "search"; inv; A m; attr; term] ->
    ASearch (bool_of_sym inv, find_by method_name all_methods m, str_atom attr, str_atom term)
  | L [A "kw"; inv; A k; p] -> AKeyword (bool_of_sym inv, find_by kw_name all_keywords k, str_atom p)
  | L [A "coll"; A op; e] -> ACollector (cop_of op, str_atom e)
  | _ -> failwith ("bad attrs " ^ to_string x)

let seg_of (x : t) : seg =
  match x with
  | L [A "NONE"; a] -> (None, attrs_of a)
  | L [A t; a] -> (Some (segtype_of t), attrs_of a)
  | _ -> failwith ("bad segment " ^ to_string x)

(* "sqn" / "dqn": quote-demarcated with the OTHER quote character written bare, in pairs (st_nest) *)
let quote_of = function
  | A "none" -> None | A "sq" | A "sqn" -> Some SQ | A "dq" | A "dqn" -> Some DQ
  | x -> failwith ("bad quote " ^ to_string x)

let nest_of = function A "sqn" | A "dqn" -> true | _ -> false

let style_of (x : t) : style =
  match x with
  | L [q; br; pre; d] ->
    (match str_atom d with
     | [c] -> { st_quote = quote_of q; st_bracket = bool_of_sym br; st_prefix = bool_of_sym pre; st_delim = c;
         st_nest = nest_of q }
     | _ -> failwith "style: delimiter must be one byte")
  | _ -> failwith ("bad style " ^ to_string x)

let sseg_of (x : t) : sseg =
  match x with
  | L [sg; st] -> (seg_of sg, style_of st)
  | _ -> failwith ("bad styled segment " ^ to_string x)

let sep_of = function
  | A "dot" -> Dot | A "slash" -> Slash
  | x -> failwith ("bad separator " ^ to_string x)

let sseglist = function L l -> List.map sseg_of l | x -> failwith ("bad segment list " ^ to_string x)

let segs_sexp l = L (List.map Drv_path.seg_sexp l)

(* outcomes inside composite answers, at the granularity the harness compares
   (the whole YAMLPathException family is one observation) *)
let outcome_sexp (f : 'a -> t) (o : 'a outcome) : t =
  match o with
  | Raise (YPE _) -> L [A "raise"; A "ype"]
  | _ -> Wire.outcome_sexp f o

(* one operation of a path program; returns the observation and the object *)
let run_op (p : ypath) (op : t) : t * ypath =
  let oc f (o, p') = (outcome_sexp f o, p') in
  match op with
  | A "str" -> oc s (y_str p)
  | A "orig" -> (L [A "ok"; s p.y_orig], p)
  | A "unesc" -> oc segs_sexp (y_unescaped p)
  | A "esc" -> oc segs_sexp (y_escaped p)
  | L [A "sep"; m] -> oc (fun () -> A "unit") (y_set_separator (Drv_path.sepopt_of m) p)
  | L [A "append"; x] -> (L [A "ok"; A "unit"], y_append (str_atom x) p)
  | L [A "add"; x] -> (L [A "ok"; s (y_add p (str_atom x)).y_orig], p)
  | A "pop" -> oc Drv_path.seg_sexp (y_pop p)
  | L [A "eq"; x] -> (outcome_sexp bs (y_eq p (str_atom x)), p)
  | L [A "strip"; x] ->
    let ((r, p'), _) = y_strip_prefix p (y_new (str_atom x)) in
    (match r with
     | Ok None -> (L [A "ok"; A "same"], p')
     | Ok (Some q) -> (L [A "ok"; s q.y_orig], p')
     | Raise e -> (outcome_sexp s (Raise e), p')
     | OutOfFuel -> (L [A "outoffuel"], p'))
  | x -> failwith ("bad path op " ^ to_string x)

let handle (cmd : string) (args : t list) : t option =
  match cmd, args with
  | "render", [sp; l] -> Some (s (render_ref (sep_of sp) (sseglist l)))
  | "wf", [sp; l] -> Some (bs (wf (sep_of sp) (sseglist l)))
  | "wfc", [sp; l] -> Some (bs (wfc (sep_of sp) (sseglist l)))
  | "body", [sp; x] -> Some (s (body (sep_char (sep_of sp)) (sseg_of x)))
  | "canon", [txt] ->
    (* for each notation, on a fresh object: p = YAMLPath(T); p.separator = N; str(p);
       then each canonical text re-parsed (escaped) and re-stringified under
       its own notation *)
    let p0 = y_new (str_atom txt) in
    let one sp p =
      let (r, p1) = y_set_separator (Some sp) p in
      match r with
      | Ok () -> let (o, p2) = y_str p1 in (o, p2)
      | Raise e -> (Raise e, p1)
      | OutOfFuel -> (OutOfFuel, p1) in
    let (cd, _) = one Dot p0 in
    let (cs, _) = one Slash p0 in
    let again sp o =
      match o with
      | Ok c -> [outcome_sexp segs_sexp (parse (Forced sp) true c); outcome_sexp s (path_str (Forced sp) c)]
      | _ -> [A "skip"; A "skip"] in
    Some (L ([outcome_sexp s cd; outcome_sexp s cs] @ again Dot cd @ again Slash cs))
  | "yprog", [txt; L ops] ->
    let rec go p ops acc =
      match ops with
      | [] -> List.rev acc
      | op :: r -> let (o, p') = run_op p op in go p' r (o :: acc)
    in
    Some (L (go (y_new (str_atom txt)) ops []))
  | _ -> None
