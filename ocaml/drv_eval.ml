(* Entries for Eval.v joined with Keywords.v (EvalKw.v): the query evaluator incl. keyword segments.
   (eval MODE s<path> DOC LIT RE NSTR)   MODE = req | opt | exists
     LIT / RE as in drv_search.ml;  NSTR = ((i<oid> s<str(container)>) ...)
   Output: (ok (ITEM ...)) | (ok true|false) for exists | (raise ..) | (mutates) | (outoffuel)
     ITEM   = (nc NODE PARENT REF s<path text> PSEGS ((PARENT REF) ...)) | NODE
     NODE   = (n i<oid>) | (l NODE ...) | (m (KEY NODE) ...) | ITEM
              (m ...) = a hash the evaluator built itself: the reduced shallow copy of collector subtraction
     PARENT = none | (n i<oid>) | (l) | (m)
     PSEGS  = the model's escaped parse of the path text (as drv_path prints it) *)
open Model
open Sexp
open Wire

(* self-contained copies of the small table / segment converters of
   drv_search.ml and drv_path.ml (driver modules are compiled in alphabetical
   order and must not depend on one another) *)
let crash_of_name = function
  | "IndexError" -> IndexError | "TypeError" -> TypeError | "KeyError" -> KeyError
  | "ValueError" -> ValueError | "AttributeError" -> AttributeError | "ReError" -> ReError
  | "RecursionError" -> RecursionError | _ -> NotImplemented
let litres_of_sexp = function
  | L [A "val"; v] -> LVal (pyval_of_sexp v)
  | A "fail" -> LFail
  | L [A "crash"; A n] -> LCrash (crash_of_name n)
  | x -> failwith ("bad litres " ^ to_string x)
let lit_table_of_sexp = function
  | L items -> List.map (function L [k; r] -> (str_atom k, litres_of_sexp r) | y -> failwith ("bad lit entry " ^ to_string y)) items
  | x -> failwith ("bad lit table " ^ to_string x)
let reres_of_sexp = function
  | L [A "m"; b] -> RMatch (bool_of_sym b)
  | A "error" -> RError
  | x -> failwith ("bad reres " ^ to_string x)
let re_table_of_sexp = function
  | L items -> List.map (function L [p; t; r] -> ((str_atom p, str_atom t), reres_of_sexp r) | y -> failwith ("bad re entry " ^ to_string y)) items
  | x -> failwith ("bad re table " ^ to_string x)
let segtype_name = function
  | TAnchor -> "ANCHOR" | TCollector -> "COLLECTOR" | TIndex -> "INDEX" | TKey -> "KEY"
  | TSearch -> "SEARCH" | TTraverse -> "TRAVERSE" | TKeywordSearch -> "KEYWORD_SEARCH"
  | TMatchAll -> "MATCH_ALL"
let attrs_sexp = function
  | AStr s0 -> s s0
  | AInt z -> zs z
  | ANone -> A "none"
  | ASearch (inv, m, attr, term) -> L [A "search"; bs inv; A (implode (method_name m)); s attr; s term]
  | AKeyword (inv, k, p) -> L [A "kw"; bs inv; A (implode (kw_name k)); s p]
  | ACollector (op, e) -> L [A "coll"; A (implode (cop_name op)); s e]
let seg_sexp ((t, a) : seg) : t =
  L [A (match t with Some t -> segtype_name t | None -> "NONE"); attrs_sexp a]

let oid_atom (n : node) = A ("i" ^ string_of_int (int_of_n (node_oid n)))

let parent_sexp = function
  | None -> A "none"
  | Some (RNode n) when is_copy n -> L [A "m"]
  | Some (RNode n) -> L [A "n"; oid_atom n]
  | Some (RList _) -> L [A "l"]
  | Some (RCoords _) -> L [A "c"]

let ref_sexp = function None -> A "none" | Some v -> sexp_of_pyval v

(* exceptions are compared by family: a reported path text that does not parse is (raise ype) whatever the
   YAMLPathException subtype (this value is nested inside a result line, which common.canon_model_line does not
   look into) *)
let psegs_sexp (txt : char list) : t =
  match parse Auto true txt with
  | Raise (YPE _) -> L [A "raise"; A "ype"]
  | r -> outcome_sexp (fun l -> L (List.map seg_sexp l)) r

(* In a query whose path contains a name() segment, a scalar node whose value is its own parentref is printed
   by value: the result of name() is the key or
   index object itself (a dict key, an int made by enumerate(), the str of the path segment), whose CPython
   identity is an accident (interned small ints and 1-char strings may or may not coincide with scalars of
   the document).  harness/evalcommon.py item_sexp applies the same rule. *)
let name_mode = ref false     (* the path of the current request contains "name(" *)
let contains_sub (s : string) (sub : string) : bool =
  let n = String.length s and m = String.length sub in
  let rec go i = i + m <= n && (String.sub s i m = sub || go (i + 1)) in go 0
let name_like (nd : rval) (rf : pyval option) : bool =
  !name_mode &&
  match nd with
  | RNode (NLeaf (_, v)) ->
    v = PNone   (* name() of the root is the None singleton: its identity is that of every null of the document *)
    || (match rf with None -> false | Some r -> to_string (sexp_of_pyval r) = to_string (sexp_of_pyval v))
  | _ -> false

let rec item_sexp (v : rval) : t =
  match v with
  | RNode (NMap (_, kvs) as n) when is_copy n ->
    L (A "m" :: List.map (fun (k, x) -> L [sexp_of_pyval (key_val k); item_sexp (RNode x)]) kvs)
  | RNode n -> L [A "n"; oid_atom n]
  | RList l -> L (A "l" :: List.map item_sexp l)
  | RCoords (nd, par, rf, path, anc) ->
    L [A "nc"; node_or_name_sexp nd rf; parent_sexp par; ref_sexp rf; s path; psegs_sexp path;
       L (List.map (fun (p, r) -> L [parent_sexp (Some p); sexp_of_pyval r]) anc)]

and node_or_name_sexp (nd : rval) (rf : pyval option) : t =
  if name_like nd rf then (match nd with RNode (NLeaf (_, v)) -> L [A "v"; sexp_of_pyval v] | _ -> item_sexp nd)
  else item_sexp nd

(* NSTR also carries repr() of every scalar object of the document, so that str() of a hash the evaluator
   built itself (the reduced copy of collector subtraction: ruamel's ordereddict prints
   "ordereddict({KEY: VALUE, ...})" with the repr() of its keys and values) can be computed here *)
let nstr_of_table (tbl : t) : node -> char list =
  let h = Hashtbl.create 16 in
  (match tbl with
   | L items -> List.iter (function L [o; v] -> Hashtbl.replace h (int_atom o) (str_atom v)
                                  | y -> failwith ("bad nstr entry " ^ to_string y)) items
   | x -> failwith ("bad nstr table " ^ to_string x));
  let rec str_of n =
    match Hashtbl.find_opt h (int_of_n (node_oid n)) with
    | Some v -> v
    | None ->
      (match n with
       | NMap (_, kvs) when is_copy n ->
         let pair (k, x) = implode (str_of k) ^ ": " ^ implode (str_of x) in
         if kvs = [] then explode "ordereddict()"
         else explode ("ordereddict({" ^ String.concat ", " (List.map pair kvs) ^ "})")
       | _ -> failwith "nstr-miss")
  in str_of

let vstr (_ : rval list) : char list = failwith "vstr-needed"
(* keyword segments: Keywords.v joined through EvalKw.v *)
(* creation changes the document: the model stops with Mut *)
let creator _ _ (v : rval) _ = ([], Mut (N0, PNone))

let gen_sexp_with (f : 'a list -> t) (g : 'a list * stop) : t =
  match g with
  | (l, Done) -> L [A "ok"; f l]
  | (_, Err e) -> L [A "raise"; exn_sexp e]
  | (_, Fuel) -> L [A "outoffuel"]
  | (_, Mut _) -> L [A "mutates"]
let gen_sexp g = gen_sexp_with (fun l -> L (List.map item_sexp l)) g

let handle (cmd : string) (args : t list) : t option =
  match cmd, args with
  | "eval", [A mode; path; doc; lt; rt; nt] ->
    let lit = lit_of_table (lit_table_of_sexp lt) in
    let re = re_of_table (re_table_of_sexp rt) in
    let nstr = nstr_of_table nt in
    let d = node_of_sexp doc in
    let txt = str_atom path in
    let kw_handler = ek_kw_handler lit re nstr vstr in
    name_mode := contains_sub (implode txt) "name(";
    (match prepare (nat_of_int (List.length txt + 2)) txt with
     | OutOfFuel -> Some (L [A "outoffuel"; A "prepare"])
     | Raise e -> Some (L [A "raise"; exn_sexp e])
     | Ok p ->
       (match mode with
        | "req" -> Some (gen_sexp (get_required lit re nstr vstr kw_handler creator p d))
        | "opt" -> Some (gen_sexp (get_optional lit re nstr vstr kw_handler creator p d))
        | "exists" -> Some (gen_sexp_with (function [b] -> bs b | _ -> A "?") (exists_ lit re nstr vstr kw_handler creator p d))
        | _ -> failwith ("bad mode " ^ mode)))
  (* model-only: which fragment of Spec/SpecC15kw.v the path is in on this document *)
  | "frag", [path; doc; lt; rt; nt] ->
    let lit = lit_of_table (lit_table_of_sexp lt) in
    let re = re_of_table (re_table_of_sexp rt) in
    let nstr = nstr_of_table nt in
    let d = node_of_sexp doc in
    let txt = str_atom path in
    (match prepare (nat_of_int (List.length txt + 2)) txt with
     | Ok p ->
       if in_fragment_kw p then Some (L [A "frag"; A "kw"])
       else if kc_fragment lit re nstr vstr p d then Some (L [A "frag"; A "guard"])
       else Some (L [A "frag"; A "out"])
     | _ -> Some (L [A "frag"; A "unprepared"]))
  | _ -> None
