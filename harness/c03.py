"""C03: a set changes exactly the matched nodes (and their aliases), nothing
else; this stays true over histories of edits, and the edited document always
dumps to YAML that reloads to the same data.

Case = (YAML text, seed, length): a history of Set / Delete (/ Create, see
c09b) operations, each generated from the CURRENT real document so that its
path matches at least one node.  Every step is one compared observation: the
real document before the step (re-encoded, with object identities) and the
coordinates the real read side handed to _apply_change / _delete_nodes go to
the model; the model's post-state must equal the real post-state node by node
(data, order, anchors, identity classes).  After every step the real document
is dumped with the project's editor and reloaded with Parsers.get_yaml_data.

Second compared line per step (round `compose`): the FULLY MODELLED route.  The same pre-state document, the
path TEXT and the value go to `(set-e2e ...)` / `(del-e2e ...)` (ocaml/drv_set2e.ml -> Model/Compose.v ce_set /
ce_delete): the evaluator model gathers, the Mutate model changes, nothing comes from the real read side.  Its
answer must equal the real post-state (or exception family + post-state) of the very same call."""
import json
import random

import docenc
import mutgen
import oracles
import c04
import evalcommon
from common import hexs

CONFIG = {
    "id": "C03",
    "rule": ("seeded random flow-style YAML documents (repeated equal scalars, values equal to key names elsewhere, "
             "interned ints / 1-char strings, anchored scalars aliased under mapping keys, inside sequences, as keys "
             "and as set members, empty containers, nested sequences) x histories of length <= 4 (quick) / <= 6 "
             "(thorough) of Set (every value format and scalar type, mustexist on/off, paths: exact, negative index, "
             "wildcard, search, **, [name()], Array slices - also slices that select nothing: past the end, reversed, "
             "before the start -, Collector unions) and Delete operations, every path generated from the "
             "current real document to match >= 1 node (or to be such an empty slice); plus a structured stream (n/15 cases) for the alias-used-as-a-key "
             "branch: a mapping with an anchored key, aliases of it as value / element / key of a second mapping, changed "
             "through a value alias to a sibling key (refused), to itself, or to a fresh name (renamed).  "
             "every fifth history mixes CREATE steps in (the real set_value(mustexist=False) on an index at / past the "
             "end of an existing Array - padding 0-3 -, or a new key of an existing Hash, optionally followed by one more "
             "key / index): the creation itself is compared by C09's creation part, here it is run so that the later Set / "
             "Delete steps work on - and are judged on - a document that holds created and padded nodes; the judge counts "
             "as aliases only the other places of an ANCHORED node.  "
             "every step is compared twice: the model fed with the coordinates captured from the real read side, and "
             "the fully modelled route (set-e2e / del-e2e: evaluator model + Mutate model on document, path text, value); "
             "non-trivial = at least one step applied a change; "
             "distinct = distinct (document, seed)."),
    "trusted_base": [
        "modelled, not verified: yamlpath/processor.py set_value/_apply_change/_update_node+recurse (169-343, "
        "2700-2860 incl. the duplicate-key refusal of fix 7612ed9), yamlpath/common/nodes.py make_new_node/wrap_type/typed_value; the read side is NOT modelled: the "
        "NodeCoords handed to _apply_change are captured from the real run",
        "oracles: ast.literal_eval and float() (tabulated from the real library per case)",
        "value formats DATE and TIMESTAMP, custom tags, and new values that make_new_node leaves as a bare Python str "
        "(texts literal_eval reads as tuple / set / bytes / None / complex) are outside the generators",
        "ruamel.yaml dump and Parsers.get_yaml_data (used, not modelled) for the reload check",
    ],
    "assumptions": [
        "documents hold every container object once; no YAML merge keys; plain CommentedMap / CommentedSeq / CommentedSet",
        "a change whose parent object was detached by an earlier change of the same set_value is modelled as a no-op",
    ],
}

FORMATS = ["DEFAULT"] * 8 + ["BARE", "DQUOTE", "SQUOTE", "FOLDED", "LITERAL", "BOOLEAN", "FLOAT", "INT"]
VALUES = ["new", "x", "a", "b", "5", "1", "1.5", "true", "False", "0x10", "a b", "", "[1, 2]", "{}", "300", "-3", "1_0",
          "foo", "k1", "yes", "1e3", " 7", 5, 1, 300, 0, -2, 2.5, 1.0, True, False, None, "q", "c"]

_CACHE = {}


def init_worker():
    mutgen.init_env()
    evalcommon.init_worker()


def family(e):
    return c04.family(e)


def fl_table(value):
    t = None
    if isinstance(value, bool):
        t = "1" if value else "0"
    elif isinstance(value, int):
        t = str(int(value))
    elif isinstance(value, str):
        t = value
    if t is None:
        return "()"
    try:
        f = float(t)
        r = "(val %s)" % docenc.pyval_sexp(f)
    except ValueError:
        r = "fail"
    except docenc.Unsupported:
        raise
    return "((%s %s))" % (hexs(t), r)


def plain(x):
    """Plain data with order, for the reload comparison (Python == on scalars)."""
    if isinstance(x, dict):
        return ("M", [(plain(k), plain(v)) for k, v in x.items()])
    if isinstance(x, (list, tuple)):
        return ("S", [plain(v) for v in x])
    if mutgen.is_set(x):
        def skey(v):
            if isinstance(v, (int, float)):
                return ("n", float(v), "")
            return ("s", 0.0, str(v))
        return ("T", sorted((plain(v) for v in x), key=skey))
    if hasattr(x, "value") and type(x).__name__ == "TaggedScalar":
        return x.value
    return x


def value_ok(new, value, fmt):
    """Does the node now at the matched position hold the new value (in the requested format)?"""
    try:
        if fmt in ("BARE", "DQUOTE", "SQUOTE", "FOLDED", "LITERAL"):
            return isinstance(new, str) and str.__str__(new) == str(value)
        if fmt == "INT":
            return new == int(value)
        if fmt == "FLOAT":
            return new == float(value)
        if fmt == "BOOLEAN":
            want = value if isinstance(value, bool) else str(value).lower() in ("true", "yes", "y", "t", "1")
            return bool(new) == want
        if new is None:
            return value is None or value == "None"
        if new == value or str(new) == str(value):
            return True
        if isinstance(value, str):
            if value.lower() in ("true", "false"):
                return bool(new) == (value.lower() == "true")
            try:
                return float(value.replace("_", "")) == float(new)
            except Exception:  # noqa
                return False
    except Exception:  # noqa
        return False
    return False


def sets_sorted(text):
    """Canonical document text with the members of every set sorted (a set has no order)."""
    from common import sexp_parse, sexp_str

    def mkey(m):
        v = m[5]
        if isinstance(v, list) and v[0] == "b":
            return ("n", 1.0 if v[1] == "true" else 0.0)
        if isinstance(v, list) and v[0] == "i":
            return ("n", float(int(v[1][1:])))
        if isinstance(v, list) and v[0] == "f":
            return ("n", int(v[1][1:]) / int(v[2][1:]))
        return ("s", sexp_str(v))

    def go(n):
        if n[0] == "T":
            keys = sorted(set(mkey(m) for m in n[5]))     # a set holds one of several == members; data only
            return n[:5] + [[["L", "i999999", "none", "false", "none", ["k", hexs(repr(k))]] for k in keys]]
        if n[0] == "M":
            return n[:5] + [[[k, go(v)] for k, v in n[5]]]
        if n[0] == "S":
            return n[:5] + [[go(e) for e in n[5]]]
        return n
    return sexp_str(docenc.renumber(go(sexp_parse(text))))


def anchor_of(x):
    if hasattr(x, "anchor"):
        try:
            return x.anchor.value
        except Exception:  # noqa
            return None
    return None


def live_doc(data):
    """evalcommon.LoadedDoc (oracle tables of the evaluator model: str() of containers, repr() of scalars, haystack
    texts) for a document that is already loaded - the live document of a history."""
    ld = evalcommon.LoadedDoc.__new__(evalcommon.LoadedDoc)
    orig = evalcommon.load
    evalcommon.load = lambda _text: data
    try:
        evalcommon.LoadedDoc.__init__(ld, "<live>")
    finally:
        evalcommon.load = orig
    return ld


def e2e_tables(data, path, extra_lit=()):
    """(lit, re, nstr) tables for the evaluator model on the PRE-state, or None when they cannot be had."""
    try:
        if not evalcommon._ENV:
            evalcommon.init_worker()
        ld = live_doc(data)
        terms, regex = evalcommon.path_terms(path)
        if regex and ")-" in path.replace(" ", ""):
            return None         # str() of the reduced copies of a Collector subtraction needs a scratch reload
        lit = oracles.lit_table(list(ld.scalars) + sorted(terms) + list(extra_lit))
        re_t = oracles.re_table([(p, t) for p in sorted(regex) for t in ld.hay_texts])
        return lit, re_t, ld.nstr, ld.sexp
    except Exception:  # noqa
        return None


def coords_in_adapter(ncs, doc_ids, top=True):
    """Are the gathered NodeCoords inside Compose.ce_coord: every parent (at every depth) is None or an object of
    the document, and only the results of the path itself may carry a [name()] path segment."""
    E = mutgen.init_env()
    NC = E["NodeCoords"]
    for nc in ncs:
        if not isinstance(nc, NC):
            return False
        if nc.parent is not None and id(nc.parent) not in doc_ids:
            return False
        if not top and mutgen.is_name_kw(nc):
            return False
        node = nc.node
        if isinstance(node, NC):
            if not coords_in_adapter([node], doc_ids, False):
                return False
        elif isinstance(node, list) and len(node) > 0 and isinstance(node[0], NC):
            if not coords_in_adapter(node, doc_ids, False):
                return False
    return True


def set_step(p, path, value, fmt, mustexist):
    """Run the real set_value on the live Processor; returns the step record."""
    E = mutgen.init_env()
    data = p.data
    rec = {"kind": "skip", "op": "set", "why": None, "applied": 0}
    try:
        before, enc = docenc.encode(data)
        flt = fl_table(value)
    except docenc.Unsupported:
        rec["why"] = "unsupported"
        return rec
    doc_ids = set(k for k in enc.oids if isinstance(k, int))
    tabs = e2e_tables(data, path, [value])          # on the PRE-state
    if not mustexist:
        # creation of missing nodes is C09b's subject: here the path must already match
        try:
            if not list(p.get_nodes(path, mustexist=True)):
                raise ValueError
        except Exception:  # noqa
            rec["why"] = "would-create"
            return rec
    depth = [0]
    calls = []
    updates = []
    leaf_checks = []
    orig_apply = p._apply_change
    orig_update = p._update_node

    def apply_wrapped(yaml_path, node_coord, val, **kw):
        if depth[0] == 0:
            calls.append(node_coord)
        depth[0] += 1
        try:
            return orig_apply(yaml_path, node_coord, val, **kw)
        finally:
            depth[0] -= 1

    def update_and_check(parent, parentref, val, value_format, value_tag=None):
        updates.append((parent, parentref))
        shadow = mutgen.Shadow(p.data)
        pre_text = docenc.canon_doc_text(docenc.encode(p.data)[0])
        ent = shadow.kids.get(id(parent)) if parent is not None else None
        idx = shadow.child_index(parent, parentref) if ent is not None else None
        try:
            orig_update(parent, parentref, val, value_format, value_tag)
        except Exception as e:  # noqa
            post_text = docenc.canon_doc_text(docenc.encode(p.data)[0])
            if parent is not None and ent is None:
                rec["detached"] = True      # the parent object is no longer part of the document (outside the model)
            old0 = None
            if ent is not None and idx is not None:
                old0 = ent[1][idx][1] if ent[0] == "M" else ent[1][idx]
            leaf_checks.append({"exc": e, "changed": post_text != pre_text,
                                "unlocated": parent is not None and (ent is None or idx is None),
                                "old_anchor": anchor_of(old0), "fmt": value_format.name, "val": val})
            raise
        post_text = docenc.canon_doc_text(docenc.encode(p.data)[0])
        if parent is not None and ent is None:
            rec["detached"] = True          # the parent object is no longer part of the document
        if parent is None or ent is None or idx is None:
            leaf_checks.append({"exc": None, "noop_expected": True, "changed": post_text != pre_text})
            return
        kind, items = ent
        old = items[idx][1] if kind == "M" else items[idx]
        found_new = True
        # the node now at the matched position
        try:
            if kind == "T":
                new = None
                cur = list(parent)
                newm = [m for m in cur if not any(m is o for o in items)]
                new = newm[0] if newm else None
                found_new = bool(newm)
            elif kind == "M":
                new = parent[items[idx][0]] if items[idx][0] in parent else None
            else:
                new = parent[idx]
        except Exception:  # noqa
            new = None
        replaced = {}
        removed = set()
        # an alias is another place of an ANCHORED node.  In a loaded document an object that sits at two places
        # always carries an anchor name (the loader shares objects only through `*alias`; interned Python ints /
        # strs have no `anchor` attribute); an object that a creation put at several places carries none, and
        # those places are separate nodes of the serialized document, not aliases
        alias = hasattr(old, "anchor") and bool(anchor_of(old))
        collided = False
        if kind == "T" and not found_new:
            # the new value == a member the set already holds: a set keeps one of them
            hits = [m for m in parent if value_ok(m, val, value_format.name)]
            if hits:
                collided = True
                new = hits[0]
                removed.add((id(parent), idx))
        for cid, (ck, citems) in shadow.kids.items():
            for j, it in enumerate(citems):
                if ck == "M":
                    k, v = it
                    if v is old and (alias or (cid == id(parent) and j == idx)):
                        replaced[(cid, j, "v")] = new
                    if k is old and alias:
                        replaced[(cid, j, "k")] = new
                elif ck == "S":
                    if it is old and (alias or (cid == id(parent) and j == idx)):
                        replaced[(cid, j, "v")] = new
                else:
                    if it is old and (alias or cid == id(parent)):
                        replaced[(cid, j, "v")] = new
        has_set_target = any(shadow.kids[c][0] == "T" for (c, _, _) in replaced)
        has_key_target = any(w == "k" for (_, _, w) in replaced)
        expected = docenc.canon_doc_text(mutgen.ShadowEncoder(shadow, removed, replaced).node(p.data))
        leaf_checks.append({"exc": None, "expected": expected, "post": post_text,
                            "value_ok": value_ok(new, val, value_format.name),
                            "anchor_ok": ((anchor_of(old) or None) == (anchor_of(new) or None) or not anchor_of(old)
                                          or new is None),      # None cannot carry an anchor
                            "set_target": has_set_target, "key_target": has_key_target,
                            "new_is_old": new is old})

    p._apply_change = apply_wrapped
    p._update_node = update_and_check
    exc = None
    evalcommon._ENV["creations"] = 0
    try:
        p.set_value(path, value, mustexist=mustexist, value_format=E["YAMLValueFormats"][fmt])
    except Exception as e:  # noqa
        exc = e
    finally:
        del p._apply_change
        del p._update_node
    created = evalcommon._ENV.get("creations", 0) > 0
    # the places the gathered coordinates designate, by the harness's own flattening: an empty list that is no
    # object of the document (the Array slice that selects nothing) designates none
    leaves = [nc for nc in mutgen.flat_coords(calls, for_delete=False) if not mutgen.is_empty_virtual(nc, doc_ids)]
    rec["stray"] = [repr(r) for (par, r) in updates
                    if not any(nc.parent is par and type(nc.parentref) is type(r) and nc.parentref == r
                               for nc in leaves)]
    rec["no_leaf"] = bool(calls) and not leaves
    vo0 = enc.oids.get(id(value)) if (value is None or isinstance(value, (str, int, float))) else None

    def e2e_request():
        return "(set-e2e %s %s %s %s %s %s %s %s %s %s)" % (
            "true" if mustexist else "false", hexs(path), before, docenc.pyval_sexp(value), fmt,
            "none" if vo0 is None else "i%d" % vo0, tabs[0], tabs[1], tabs[2], flt)
    if not calls:
        rec["why"] = "read:" + (type(exc).__name__ if exc is not None else "nomatch")
        # the gather raised (or matched nothing) before any change: the composed model must say so too
        # (no exception and no change: an optional gather that yielded nothing - the model must end `done` as well)
        if tabs is not None and not created and not isinstance(exc, RecursionError):
            try:
                unchanged = docenc.canon_doc_text(docenc.encode(p.data)[0])
                rec["e2e"] = (e2e_request(), "(done %s)" % unchanged if exc is None
                              else "(failed %s %s)" % (family(exc), unchanged))
            except docenc.Unsupported:
                pass
        return rec
    try:
        after = docenc.canon_doc_text(docenc.encode(p.data)[0])
    except docenc.Unsupported:
        rec["why"] = "unsupported-after"
        return rec
    if rec.get("detached"):
        rec["why"] = "detached-parent"
        return rec
    vo = vo0
    if tabs is not None and not created and coords_in_adapter(calls, doc_ids):
        rec["e2e"] = (e2e_request(),
                      "(done %s)" % after if exc is None else "(failed %s %s)" % (family(exc), after))
    else:
        rec["e2e_why"] = "tables" if tabs is None else ("created" if created else "outside-adapter")
    rec.update(kind="run", before=before, exc=exc, after=after, calls=calls, leaf=leaf_checks,
               applied=len(leaf_checks),
               request="(set %s (%s) %s %s %s %s %s)" % (
                   before, " ".join(mutgen.coord_sexp(c, enc) for c in calls), docenc.pyval_sexp(value), fmt,
                   "none" if vo is None else "i%d" % vo, oracles.lit_table([value]), flt),
               value=value, fmt=fmt, path=path)
    return rec


def create_step(p, path, value, fmt):
    """A Create step of a history: the REAL set_value(mustexist=False) on a path with a missing tail.  The step
    itself is not compared here (creation is C09's subject: harness/c09b.py compares it with the creation model,
    identity classes included); it is run so that the later Set / Delete steps of the history work on a document
    that holds created nodes - padding elements included - and are judged there."""
    E = mutgen.init_env()
    rec = {"kind": "skip", "op": "create", "why": "created", "applied": 0, "desc": ("create", path, repr(value), fmt)}
    try:
        p.set_value(path, value, mustexist=False, value_format=E["YAMLValueFormats"][fmt])
    except Exception as e:  # noqa
        rec["why"] = "create-refused:" + type(e).__name__
    return rec


def gen_create_path(rng, data):
    """A straight path whose tail is missing: an index at / past the end of an existing Array (padding 0-3), a new
    key of an existing Hash, optionally followed by one more key / index (a container is then built and padded)."""
    conts = [(l, n) for l, n in mutgen.walk(data) if isinstance(n, (dict, list)) and not mutgen.is_set(n)]
    if isinstance(data, (dict, list)) and not mutgen.is_set(data):
        conts.append(((), data))
    if not conts:
        return None
    loc, node = rng.choice(conts)
    base = mutgen.path_text(data, loc)
    base = "" if base == "/" else base
    if isinstance(node, list):
        seg = "[%d]" % (len(node) + rng.choice([0, 1, 2, 2, 3]))
    else:
        k = rng.choice(["new", "zz", "k9", "n1"])
        if k in node:
            return None
        seg = ("." if base else "") + k
    tail = rng.choice(["", "", "[2]", "[1]", ".kk", "[2].kk"])
    return base + seg + tail


def gen_value(rng):
    return rng.choice(VALUES)


def delete_step(p, path):
    """c04.delete_record + the fully modelled route (del-e2e) on the same pre-state."""
    data = p.data
    try:
        _, enc0 = docenc.encode(data)
        doc_ids = set(k for k in enc0.oids if isinstance(k, int))
        tabs = e2e_tables(data, path)
    except docenc.Unsupported:
        tabs, doc_ids = None, set()
    evalcommon._ENV["creations"] = 0
    rec = c04.delete_record(p, path)
    rec["op"] = "del"
    rec["desc"] = ("del", path)
    if rec["kind"] == "run":
        rec["request"] = "(delete %s %s %s)" % (rec["before"], rec["coords_sexp"], rec["mg_sexp"])
        if (tabs is not None and rec["mg_sexp"] == "()" and coords_in_adapter(rec["coords"], doc_ids)
                and not evalcommon._ENV.get("creations", 0)):
            exc = rec["exc"]
            rec["e2e"] = ("(del-e2e %s %s %s %s %s)" % (hexs(path), rec["before"], tabs[0], tabs[1], tabs[2]),
                          "(done %s)" % rec["after"] if exc is None
                          else "(failed %s %s)" % (family(exc), rec["after"]))
    return rec


def run_case(case):
    if case in _CACHE:
        return _CACHE[case]
    if len(_CACHE) > 3000:
        _CACHE.clear()
    E = mutgen.init_env()
    text, seed, length = case
    rng = random.Random(seed if isinstance(seed, int) else 0)
    steps = []
    try:
        data = mutgen.load(text)
    except Exception as e:  # noqa
        _CACHE[case] = steps
        return steps
    p = E["Processor"](E["log"], data)
    script = None
    if isinstance(seed, str) and seed.startswith("script:"):
        # a scripted history (corpus / alias-key stream): the steps are given, not drawn
        script = json.loads(seed[len("script:"):])
        rng = random.Random(len(seed))
        length = len(script)
    for stepno in range(length):
        if p.data is None or not isinstance(p.data, (dict, list)):
            break
        r = rng.random()
        if script is not None and script[stepno][0] == "create":
            _, path, value, fmt = script[stepno]
            rec = create_step(p, path, value, fmt)
        elif script is None and isinstance(seed, int) and seed % 5 == 0 and r < 0.45 and stepno < length - 1:
            # every fifth history mixes Create steps in (never as the last step: something must follow)
            path = gen_create_path(rng, p.data)
            if path is None:
                rec = {"kind": "skip", "op": "create", "why": "no-place", "applied": 0}
            else:
                rec = create_step(p, path, gen_value(rng), rng.choice(FORMATS))
        elif script is not None and script[stepno][0] == "set":
            _, path, value, fmt = script[stepno]
            rec = set_step(p, path, value, fmt, True)
            rec["desc"] = ("set", path, repr(value), fmt)
        elif script is not None:
            path = script[stepno][1]
            rec = delete_step(p, path)
        elif r < 0.75:
            path = mutgen.gen_path(rng, p.data, allow_root=rng.random() < 0.3)
            value = gen_value(rng)
            fmt = rng.choice(FORMATS)
            rec = set_step(p, path, value, fmt, rng.random() < 0.6)
            rec["desc"] = ("set", path, repr(value), fmt)
        else:
            path = mutgen.gen_path(rng, p.data, allow_root=False)
            rec = delete_step(p, path)
        if rec["kind"] == "run":
            # dump + strict reload of the real document after the step
            try:
                ok, docs, dumped = mutgen.dump_reload(p.data)
                rec["reload"] = ("ok" if ok and plain(docs) == plain(p.data) else
                                 ("differs" if ok else "rejected"))
                rec["dumped"] = dumped
            except Exception as e:  # noqa
                rec["reload"] = "dump-error:" + type(e).__name__
        steps.append(rec)
    _CACHE[case] = steps
    return steps


def requests(case):
    out = []
    for rec in run_case(case):
        out.append(rec["request"] if rec["kind"] == "run" else "(mut-skip)")
        out.append(rec["e2e"][0] if "e2e" in rec else "(mut-skip)")       # the fully modelled route
    return out or ["(mut-skip)"]


def observe(case):
    out = []
    for rec in run_case(case):
        if rec["kind"] != "run":
            out.append("(skip)")
        elif rec["exc"] is None:
            out.append("(done %s)" % rec["after"])
        else:
            out.append("(failed %s %s)" % (family(rec["exc"]), rec["after"]))
        out.append(rec["e2e"][1] if "e2e" in rec else "(skip)")
    return out or ["(skip)"]


def judge_step(rec):
    if rec["kind"] != "run":
        return None
    if rec["op"] == "del":
        v = c04.judge_record(rec)
        if v is not None:
            return "delete step: " + v
    else:
        if rec.get("stray"):
            return ("_update_node was called for a place no gathered coordinate designates (parentref %s): an Array "
                    "slice that selects nothing is no element of the sliced Array" % ", ".join(rec["stray"]))
        if rec.get("no_leaf"):
            # only slices that select nothing were gathered: nothing to change, nothing to fail
            if rec["exc"] is not None:
                return "a set through an Array slice that selects nothing raised %s" % type(rec["exc"]).__name__
            if rec["after"] != docenc.canon_doc_text(rec["before"]):
                return "a set through an Array slice that selects nothing changed the document"
        for lc in rec["leaf"]:
            if lc.get("exc") is not None:
                e = lc["exc"]
                if lc.get("unlocated"):
                    continue        # the coordinate does not locate a node (C02's subject)
                if lc["changed"]:
                    return "a change that raised %s had already modified the document" % type(e).__name__
                if family(e) != "ype" and not isinstance(e, ValueError):
                    return "set raised %s" % type(e).__name__
                continue
            if lc.get("noop_expected"):
                if lc["changed"]:
                    return "a coordinate without a located node changed the document"
                continue
            if sets_sorted(lc["post"]) != sets_sorted(lc["expected"]):
                return "after the change the document is not the old one with exactly the matched node and its aliases replaced"
            if not lc["value_ok"]:
                return "the matched node does not hold the new value"
            if not lc["anchor_ok"]:
                return "the changed node lost its anchor"
        exc = rec["exc"]
        if (exc is not None and family(exc) != "ype"
                and not any(lc.get("unlocated") for lc in rec["leaf"] if lc.get("exc") is not None)):
            return "set_value raised %s" % type(exc).__name__
    if rec.get("reload") != "ok":
        return "after the step the document does not dump/reload to the same data (%s)" % rec.get("reload")
    return None


def judge(case, obs):
    for i, rec in enumerate(run_case(case)):
        v = judge_step(rec)
        if v is not None:
            return "step %d %s: %s" % (i, rec.get("desc"), v)
    return None


def classify(case, obs):
    steps = run_case(case)
    ks = []
    for rec in steps:
        if rec["kind"] != "run" and rec.get("op") == "create":
            ks.append("c" if rec["why"] == "created" else "C")      # a Create step (run, not compared here)
        elif rec["kind"] != "run":
            ks.append("-")
        elif rec["op"] == "del":
            ks.append("d" if rec["exc"] is None else "D")
        else:
            n = rec["applied"]
            ks.append(("s%d" % min(n, 3)) if rec["exc"] is None else "S")
            if rec.get("no_leaf"):
                ks.append("e")          # only Array slices that select nothing were gathered
            if any(lc.get("key_target") for lc in rec["leaf"]):
                ks.append("k")          # an alias of the changed node is a mapping key: renamed with it
            if rec["exc"] is not None and type(rec["exc"]).__name__ == "DuplicateKeyYAMLPathException":
                ks.append("K")          # ... or the change was refused (the new key exists)
    return "len%d:%s" % (len(steps), "".join(ks))


def nontrivial(case, obs):
    return any(rec["kind"] == "run" for rec in run_case(case))


def key(case):
    return case


def describe(case):
    return {"doc": case[0], "seed": case[1], "length": case[2],
            "steps": [rec.get("desc") for rec in run_case(case)]}


def undescribe(d):
    return (d["doc"], d["seed"], d["length"])


def _folded_flow(case, obs):
    """A FOLDED value containing a blank was written and the reload then differs."""
    folded_created = False
    for rec in run_case(case):
        if rec.get("op") == "create" and rec.get("why") == "created":
            # a Create step of the history wrote such a value (the step itself has no reload check; the first
            # compared step after it shows the defect: the dumped text carries the fold marker)
            folded_created = folded_created or (rec["desc"][3] == "FOLDED" and " " in rec["desc"][2])
        if rec["kind"] == "run" and rec.get("reload") not in ("ok", None):
            if rec["op"] == "set" and rec["fmt"] == "FOLDED" and " " in str(rec["value"]):
                return True
            return folded_created and "\\a" in (rec.get("dumped") or "")
    return False


FINDING_PREDS = {"folded_scalar_in_flow_collection": _folded_flow}


def script_case(text, steps):
    return (text, "script:" + json.dumps(steps), len(steps))


# minimised past failures and witnesses; first the former known finding F24 (fixed 7612ed9): an alias of the changed
# anchored node is a mapping KEY and the new value equals / does not equal a sibling key
CORPUS = [
    script_case("{m: {foo: bar, &n1 x: a}, c: *n1}", [["set", "c", "foo", "DEFAULT"]]),
    script_case("{m: {&n1 x: a, foo: bar}, c: *n1}", [["set", "c", "foo", "DEFAULT"]]),
    script_case("{m: {foo: bar, &n1 x: a}, c: *n1}", [["set", "c", "new", "DEFAULT"]]),
    script_case("{m: {foo: bar, &n1 x: a}, c: *n1}", [["set", "c", "x", "DEFAULT"]]),
    script_case("{m: {foo: bar, &n1 x: a}, c: *n1, d: {*n1 : 1, foo: 2}}", [["set", "c", "foo", "DEFAULT"]]),
    script_case("{m: {foo: bar, &n1 x: a}, c: *n1, d: {*n1 : 1, k1: 2}}", [["set", "c", "k1", "DEFAULT"]]),
    script_case("{1: a, &n1 x: b, c: *n1}", [["set", "c", "1", "DEFAULT"]]),
    script_case("{m: {foo: bar, &n1 x: a}, l: [*n1, z]}", [["set", "l[0]", "foo", "DQUOTE"], ["set", "l[0]", "y", "DEFAULT"]]),
    # thorough tier, round fixer2: the third change addresses a list that the first change detached; the real code then
    # refuses (the key b of the first mapping is an alias of the node in the detached list, c is a sibling key), the
    # model does not follow detached parents: must be classified detached-parent, not compared
    script_case("[{&n1 b: {c: '', k1: b, e: \"dq\"}, x: {e: x, c: 5}, a: *n1, c: 1.5}, [[*n1, &n2 -3], k1, [foo, &n3 c, x], []], bar]",
                [["set", "([1][0])+([-2][0][-2])", "c", "DEFAULT"]]),
    # an Array slice that selects nothing (fixed f20b613): past the end (was a bare IndexError), reversed within
    # range (the element at the start of the slice was replaced / deleted), before the start, of an empty Array,
    # beside a real match in a Collector union, and then a real change in the same history
    script_case("{a: [1, 2, 3]}", [["set", "a[5:9]", "x", "DEFAULT"], ["set", "a[1:0]", "x", "DEFAULT"],
                                   ["set", "a[-9:-7]", "x", "INT"], ["set", "a[0:2]", "y", "DEFAULT"]]),
    script_case("{a: [1, 2, 3], b: []}", [["set", "b[0:2]", "x", "DEFAULT"], ["del", "a[2:1]"], ["del", "a[3:3]"],
                                          ["set", "a[-1:-2]", "x", "DEFAULT"]]),
    script_case("{a: [1, 2, 3], b: 1}", [["set", "(b)+(a[1:0])", "x", "DEFAULT"]]),
    # histories with Create steps (seed C03_3: the padding elements of a creation were one shared object and a later
    # set of one of them changed them all)
    script_case("{a: [], b: keep}", [["create", "/a[2]", "x", "DEFAULT"], ["set", "/a[0]", "y", "DEFAULT"]]),
    script_case("{a: []}", [["create", "/a[2]/k", "5", "INT"], ["set", "/a[2]/k", "6", "INT"], ["del", "/a[1]"]]),
    script_case("{a: [1]}", [["create", "/a[3][2]", "x", "DEFAULT"], ["set", "/a[3][0]", "y", "DEFAULT"],
                             ["set", "/a[1]", "z", "DEFAULT"]]),
    # a Set member gathered twice (fixed: see known_findings.txt): the second coordinate names a member the first
    # change already replaced; change_node stayed None and the NULL member of the Set was replaced instead
    script_case("{x: !!set {1, x, foo}}", [["set", "x.foo", None, "DEFAULT"], ["set", "(x.x)+(x.x)", "true", "DEFAULT"]]),
    script_case("{x: !!set {a, b, ~}}", [["set", "(x.a)+(x.a)", "c", "DEFAULT"]]),
    # former C04 F15 inside a history
    script_case("{a: [1, 2, 3, 4]}", [["del", "(a[2])+(a[0])"], ["set", "a[0]", "9", "DEFAULT"]]),
]


def roundtrips(text):
    """ruamel itself dumps and reloads this document to the same data (alias keys / sets in flow style often do not):
    the reload clause of the judge is only meaningful for such documents."""
    try:
        data = mutgen.load(text)
        ok, docs, _ = mutgen.dump_reload(data)
        return bool(ok and plain(docs) == plain(data))
    except Exception:  # noqa
        return False


def corpus_chunks():
    mutgen.init_env()
    yield [c for c in CORPUS if roundtrips(c[0])]


def alias_key_cases(rng, n):
    """Structured stream for the alias-used-as-a-key branch of recurse(): a mapping m one of whose keys is anchored,
    aliases of that key as a value / a sequence element (an alias key of a second mapping does not survive ruamel's
    own dump + reload in flow style and is left to the corpus); the change goes through one of
    the value aliases and the new value is a sibling key (refused), the key itself, or a fresh name (renamed)."""
    names = ["foo", "bar", "k1", "x", "b", "5", "q", "1.5", "true"]
    out = []
    for _ in range(n):
        ks = rng.sample(names, rng.randint(2, 4))
        ak = rng.choice(ks)
        ents = ", ".join(("&n1 %s: v%d" % (k, j)) if k == ak else ("%s: v%d" % (k, j)) for j, k in enumerate(ks))
        parts = ["m: {%s}" % ents, "c: *n1"]
        paths = ["c"]
        if rng.random() < 0.5:
            parts.append("l: [z, *n1]")
            paths.append("l[1]")
        if rng.random() < 0.3:
            parts.append("%s: 7" % rng.choice(names))       # a top-level bystander, possibly spelled like a key of m
        rest = parts[1:]
        rng.shuffle(rest)                                   # the anchor must precede its aliases
        text = "{%s}" % ", ".join(parts[:1] + rest)
        if not roundtrips(text):
            continue
        steps = []
        for _ in range(rng.randint(1, 2)):
            value = rng.choice(ks + names + ["new", "zz", ak])
            steps.append(["set", rng.choice(paths), value, rng.choice(["DEFAULT"] * 4 + ["DQUOTE", "BARE", "INT", "BOOLEAN"])])
        out.append(script_case(text, steps))
    return out


def chunks(tier, seed):
    rng = random.Random(seed * 7 + 3)
    n = 60000 if tier == "thorough" else 6000
    maxlen = 6 if tier == "thorough" else 4
    size = 150
    mutgen.init_env()
    ak = alias_key_cases(random.Random(seed * 13 + 5), n // 15)
    for j in range(0, len(ak), size):
        yield ak[j:j + size]
    buf = []
    i = 0
    tries = 0
    while i < n and tries < 20 * n:
        tries += 1
        text = mutgen.gen_doc_text(rng, max_depth=rng.choice([2, 3, 3]), int_keys=True)
        try:
            data = mutgen.load(text)
        except Exception:  # noqa
            continue
        if not data:
            continue
        try:
            ok, docs, _ = mutgen.dump_reload(data)
            if not (ok and plain(docs) == plain(data)):
                continue        # ruamel itself cannot round-trip this document (alias keys / sets in flow style)
        except Exception:  # noqa
            continue
        buf.append((text, rng.randrange(1 << 30), rng.randint(1, maxlen)))
        i += 1
        if len(buf) >= size:
            yield buf
            buf = []
    if buf:
        yield buf
