"""C19: eyaml-rotate-keys re-keys every secret once and touches nothing else.

Case = ONE invocation of eyaml-rotate-keys on 1 to 3 files (`files`: YAML text,
or None for a command-line argument that is not a file) and whether --backup
is given.  Each file is a generated YAML document mixing plaintext with
encrypted scalars at arbitrary positions -- hash values, list elements,
anchored and aliased (alias in the same list, another list, a hash; the anchor
names anc0, anc1, ... repeat from file to file), plain / folded / literal /
quoted styles, with up to 40 blanks / line breaks before or inside the ENC[
marker, secrets under foreign keys or corrupt (malformed stream).  The real
eyaml-rotate-keys main() runs ONCE, in-process, with all the files on the
command line, against harness/eyaml_standin.py (passed with --eyaml);
observed PER FILE: whether it was loaded, the in-memory document handed to
YAML.dump (object identities included), the "file changed" decision, the
plaintexts sent to `encrypt` while that file was being processed; and the exit
status (or the escaping exception) of the run.  The model (coq/Model/Eyaml.v,
Ey.rotate_main) gets the loaded documents and the cipher as finite oracle
tables.
"""
import io
import json
import os
import random
import shutil
import subprocess
import sys
import types
import warnings

import eyaml_standin as standin
import faultfs
from common import hexs, sexp_parse, sexp_str
import docenc

CONFIG = {
    "id": "C19",
    "rule": ("one case = one invocation on 1-3 files (about 50 % one file, 30 % two, 20 % three; --backup on half). "
             "Each file: a seeded random document (depth <= 3, <= 5 entries per container; smaller in multi-file "
             "runs): hashes and lists of plain scalars, secrets in plain / folded / double-quoted / multi-line-plain "
             "style, and (every stream, about 40 % of the secrets) secrets carrying 1,3,4,5,7,8,9,16 or 40 blanks / "
             "line breaks BEFORE the ENC[ marker (double-quoted with blanks or \\n escapes, literal |2 / folded >2 "
             "block scalars with extra indentation and leading blank lines) or INSIDE it (\"E N C [PK CS7,..\", "
             "multi-line plain E / N / C / [PKCS7,..), anchored + aliased variants of all of them; boundary values "
             "that are NOT encrypted by the rule (tab or letter before the marker, EN-C[); anchored secrets with "
             "aliases in hashes, in the same list and in other lists, anchor names anc0, anc1, .. repeating from "
             "file to file; keys incl. dotted / spaced / slashed / integer keys.  Multi-file runs: secrets (anchor-"
             "heavy) in several files, files without any secret between rewritten neighbours, a file whose secrets "
             "are all under a foreign key / corrupt (run ends with 3); malformed stream: arguments that are not "
             "files, files that do not load, plaintexts ending in white space, starting with the ENC[ marker or "
             "non-ASCII.  non-trivial = some file holds >= 1 encrypted value (by the property's rule on the loaded "
             "document); distinct = distinct (file texts, --backup)."),
    "trusted_base": [
        "modelled, not verified: eyamlprocessor.py 55-112, 115-305, 381-395; eyaml_rotate_keys.py 112-200; the "
        "Hash/Array branches of Processor._update_node.recurse and Nodes.make_new_node's Anchor handling",
        "abstraction (stated in Model/Eyaml.v): a discovered path is its list of segments; rendering it as YAML Path "
        "text and evaluating it again (escape_path_section, YAMLPath.__add__, Processor.get_nodes/set_value) is "
        "replaced by the segment semantics [resolve] and the identity-driven replacement [subst]",
        "the cipher: Section variables enc/dec/layout with explicit laws; in the correspondence run their finite "
        "tables come from harness/eyaml_standin.py -- the real hiera-eyaml gem (Ruby) is ABSENT in this sandbox, "
        "PKCS7 is not exercised",
        "isfile() and Parsers.get_yaml_data (ruamel load) are inputs of the model (not a file / does not load / "
        "the loaded document); ruamel.yaml load/dump: the judge reloads the written file with the tool's own "
        "editor settings",
    ],
    "assumptions": [
        "cipher laws: dec k (enc k p) = p; k <> k' -> dec k' (enc k p) fails; enc k p begins with ENC[ and is "
        "ASCII without white space; the layout of `eyaml encrypt` output only adds blanks and line breaks",
        "documents without sets, without YAML merge keys, without scalars used as keys being aliases",
        "'ignoring whitespace and line breaks' = ignoring blank (0x20) and line feed (0x0A), the two characters "
        "the code strips",
    ],
}

HERE = os.path.dirname(os.path.abspath(__file__))
STANDIN = os.path.join(HERE, "eyaml_standin.py")
_ENV = {}
_COUNTER = [0]
# scratch space: see harness/c17.py
_OWNER = os.getpid()
TOP = "/tmp/save_%d" % _OWNER


def _cleanup():
    if os.getpid() == _OWNER:
        shutil.rmtree(TOP, ignore_errors=True)


import atexit  # noqa: E402
atexit.register(_cleanup)

KEYS = ["a", "b", "password", "db_pass", "profile::db::secret", "dash-key", "under_score", "a.b", "with space",
        "x/y", "k9", "Z", "nested", "list", "more", "0x", "q[0]"]
PLAIN = ["value", "1", "true", "null", "some text", "ENCODED", "'quoted'", "3.5", "[ ]", "~", "x: y"]
SECRETS = ["s3cret", "hunter2", "correct horse battery staple", "p", "a much longer secret value " * 4 + "end",
           "with: colon", "tab\there", "line one\nline two", "0", "-----BEGIN KEY-----\nabc\n-----END KEY-----"]
ODD_SECRETS = ["trailing newline\n", "trailing space ", "ENC[looks encrypted]", "café", " \n", "x\n\n"]
# how many blanks / line feeds go before (or inside) the marker of a padded secret
PADS = [1, 3, 4, 5, 7, 8, 9, 16, 40]
STYLES = (["plain"] * 4 + ["folded"] * 2 + ["dquote"] * 2 + ["multiplain"] * 2 +
          ["dq_pad", "dq_nl", "dq_in", "dq_in_nl", "lit_pad", "fold_pad", "plain_in"])
# files the tool's loader refuses (get_yaml_data -> doc_loaded False -> exit_state 3)
UNLOADABLE = ["a: [1, 2\n", "a: 1\na: 2\n", "x: &a 1\ny: &a 2\n", "- a\nb: c\n", "a: b: c\n", "--- 1\n--- 2\n",
              "k: \"unterminated\n", "a: *nowhere\n"]


class _Quiet:
    """A logger that says nothing (Parsers.get_yaml_data reports through it)."""

    def __getattr__(self, name):
        return lambda *a, **kw: None


def init_worker():
    from yamlpath.commands import eyaml_rotate_keys
    import yamlpath.eyaml.eyamlprocessor as EP
    from yamlpath.common import Parsers
    from ruamel.yaml.scalarstring import FoldedScalarString
    root = os.path.join(TOP, "w%d" % os.getpid())
    os.makedirs(root, exist_ok=True)
    kd = os.path.join(root, "keys")
    os.makedirs(kd, exist_ok=True)
    for name in ("old", "new"):
        for part in ("pub", "priv"):
            with open(os.path.join(kd, name + part), "w") as f:
                f.write("STANDIN-EYAML-KEY %s\n" % name)
    _ENV.update(rotate=eyaml_rotate_keys, EP=EP, Parsers=Parsers, Folded=FoldedScalarString, root=root, keys=kd)


# ---- the cipher as the model sees it (same functions the stand-in executable runs) ---------
def enc_text(kid, plain_bytes):
    return standin.encrypt_bytes(kid.encode(), plain_bytes)


def dec_bytes(kid, text):
    return standin.decrypt_text(kid.encode(), text)


def layout(fmt, ct):
    if fmt == "block":
        lines = [ct[i:i + 60] for i in range(0, len(ct), 60)]
        return "".join("    " + l + "\n" for l in lines)
    return ct + "\n"


def clean(s):
    return s.replace("\n", "").replace(" ", "")


def is_eyaml(v):
    """The property's own rule: a string whose characters, with every blank and
    line feed removed, begin with the ENC[ marker.  (Never the library's
    is_eyaml_value: judge / tables / classify / nontrivial all use this one.)"""
    return isinstance(v, str) and clean(v).startswith("ENC[")


def marker_padding(v):
    """Number of blanks / line feeds before the `[` of the marker of an encrypted value."""
    n = 0
    for ch in v:
        if ch in " \n":
            n += 1
        elif ch == "[":
            break
    return n


# ---- document generator --------------------------------------------------------------------
def dq(s):
    """A YAML double-quoted scalar (one line) for an ASCII string."""
    esc = {"\n": "\\n", "\t": "\\t", "\r": "\\r", '"': '\\"', "\\": "\\\\"}
    return '"' + "".join(esc.get(ch, ch) for ch in s) + '"'


def ws_run(rng, n, nl):
    """n characters of padding: blanks, or blanks mixed with line feeds."""
    if not nl or n == 0:
        return " " * n
    out = [rng.choice(" \n") for _ in range(n)]
    out[rng.randrange(n)] = "\n"
    return "".join(out)


def spread_marker(rng, ct, total, nl):
    """ct with `total` blanks / line feeds put into the gaps of its marker
    (E|N|C|[) and, sometimes, into the word that follows (PK|CS7)."""
    assert ct.startswith("ENC[PK")
    ngaps = 4 if rng.random() < 0.4 else 3
    gaps = [0] * ngaps
    for _ in range(total):
        gaps[rng.randrange(ngaps)] += 1
    g = [ws_run(rng, k, nl) for k in gaps] + [""]
    return "E" + g[0] + "N" + g[1] + "C" + g[2] + "[PK" + g[3] + ct[6:]


def secret_scalar(rng, plain, style, key="old", corrupt=False):
    """(lines, value): the lines of a YAML scalar holding the encryption of
    `plain` and the string it loads to.  The first line goes after 'key: ' /
    '- ', the rest are continuation lines (relative to the indentation of the
    scalar's content; an empty string is an empty line)."""
    ct = enc_text(key, plain.encode("utf-8"))
    if corrupt:
        ct = ct[:-3] + "A]" if len(ct) > 16 else "ENC[PKCS7,AAAA]"
    if style == "folded":
        w = rng.choice([20, 40, 60])
        parts = [ct[i:i + w] for i in range(0, len(ct), w)]
        return [">"] + parts, " ".join(parts) + "\n"
    if style == "dquote":
        return ['"%s"' % ct], ct
    if style == "multiplain" and len(ct) > 30:
        h = len(ct) // 2
        return [ct[:h], ct[h:]], ct[:h] + " " + ct[h:]
    if style == "dq_pad":                       # "        ENC[...]"
        v = " " * rng.choice(PADS) + ct
        return [dq(v)], v
    if style == "dq_nl":                        # "\n\n\n   ENC[...]"
        v = ws_run(rng, rng.choice(PADS), True) + ct
        return [dq(v)], v
    if style in ("dq_in", "dq_in_nl"):          # "E N C [PKCS7,...]" / "E\n N  C\n\n[PK CS7,..."
        v = spread_marker(rng, ct, rng.choice(PADS), style == "dq_in_nl")
        if rng.random() < 0.3:
            v = ws_run(rng, rng.choice([1, 2, 5]), style == "dq_in_nl") + v
        return [dq(v)], v
    if style in ("lit_pad", "fold_pad"):        # |2 / >2 + blank lines + lines indented by `extra` more blanks
        chomp = rng.choice(["", "", "-"])
        blank = rng.choice([0, 0, 1, 3])
        extra = rng.choice(PADS)
        w = rng.choice([20, 40, 60])
        parts = [" " * extra + ct[i:i + w] for i in range(0, len(ct), w)]
        v = "\n" * blank + "\n".join(parts) + ("" if chomp == "-" else "\n")
        return [("|" if style == "lit_pad" else ">") + "2" + chomp] + [""] * blank + parts, v
    if style == "plain_in":                     # E / N / C / [PKCS7,... on continuation lines
        cut = rng.choice([("E", "N", "C", "["), ("E", "NC", "["), ("EN", "C["), ("E", "N", "C[")])
        parts = list(cut[:-1]) + [cut[-1] + ct[4:]]
        lines, v = [parts[0]], parts[0]
        for part in parts[1:]:
            j = rng.choice([0, 0, 1, 2, 5, 8])
            lines += [""] * j + [" " * rng.choice([0, 0, 3, 8]) + part]
            v += (" " if j == 0 else "\n" * j) + part
        return lines, v
    return [ct], ct


def boundary_plain(rng):
    """YAML source of a value that is NOT encrypted by the rule although a whole
    ciphertext sits in it: something other than a blank / line feed comes before
    or inside the marker."""
    ct = enc_text("old", rng.choice(SECRETS[:4]).encode())
    return dq(rng.choice(["\t" + ct, "x" + ct, "EN-C[" + ct[4:], "ENC\t[" + ct[4:], "enc[" + ct[4:], "  \t  " + ct,
                          "- " + ct, "E.N.C.[" + ct[4:]]))


class Gen:
    def __init__(self, rng, odd=False, allbad=False, nosecret=False, p_anchor=0.35, p_alias=0.10, small=False):
        self.rng = rng
        self.odd = odd
        self.allbad = allbad
        self.nosecret = nosecret
        self.p_anchor = p_anchor
        self.p_alias = p_alias
        self.small = small
        self.anchors = []
        self.nsecret = 0
        self.intended = []       # the strings the secret scalars are meant to load to

    def scalar(self):
        rng = self.rng
        r = rng.random()
        if r < 0.40 or self.nosecret:
            if rng.random() < 0.12:
                return ("plain", boundary_plain(rng))
            return ("plain", rng.choice(PLAIN))
        if r < 0.40 + self.p_alias and self.anchors:
            return ("alias", rng.choice(self.anchors))
        pool = SECRETS
        key, corrupt = "old", False
        if self.allbad:
            if rng.random() < 0.5:
                key = "foreign"
            else:
                corrupt = True
        elif self.odd:
            q = rng.random()
            if q < 0.35:
                pool = ODD_SECRETS
            elif q < 0.5:
                key = "foreign"
            elif q < 0.6:
                corrupt = True
        plain = rng.choice(pool)
        style = rng.choice(STYLES)
        anc = None
        if rng.random() < self.p_anchor:
            anc = "anc%d" % len(self.anchors)
            self.anchors.append(anc)
        self.nsecret += 1
        return ("secret", plain, style, anc, key, corrupt)

    def node(self, depth):
        rng = self.rng
        r = rng.random()
        if depth >= (2 if self.small else 3) or r < 0.45:
            return self.scalar()
        n = rng.randint(0, 3 if self.small else 4)
        if r < 0.75:
            keys = rng.sample(KEYS, n)
            return ("map", [(k, self.node(depth + 1)) for k in keys])
        return ("seq", [self.node(depth + 1) for _ in range(n)])

    def emit_scalar(self, sc, ind):
        kind = sc[0]
        if kind == "plain":
            return [sc[1]]
        if kind == "alias":
            return ["*" + sc[1]]
        _, plain, style, anc, key, corrupt = sc
        lines, value = secret_scalar(self.rng, plain, style, key, corrupt)
        self.intended.append(value)
        head = ("&%s " % anc if anc else "") + lines[0]
        return [head] + [" " * (ind + 2) + l if l else "" for l in lines[1:]]

    def emit(self, n, ind):
        pad = " " * ind
        out = []
        if n[0] == "map":
            if not n[1]:
                return [pad + "{}"]
            for k, v in n[1]:
                ks = json.dumps(k) if not k.replace("_", "").isalnum() else k
                if v[0] in ("map", "seq") and v[1]:
                    out.append("%s%s:" % (pad, ks))
                    out.extend(self.emit(v, ind + 2))
                elif v[0] in ("map", "seq"):
                    out.append("%s%s: %s" % (pad, ks, "{}" if v[0] == "map" else "[]"))
                else:
                    sl = self.emit_scalar(v, ind)
                    if v[0] == "plain" and ": " in sl[0] and sl[0][0] not in "\"'":
                        sl = ["'%s'" % sl[0]]        # `k: x: y` does not load; as a list element it is a hash
                    out.append("%s%s: %s" % (pad, ks, sl[0]))
                    out.extend(sl[1:])
            return out
        if n[0] == "seq":
            if not n[1]:
                return [pad + "[]"]
            for v in n[1]:
                if v[0] in ("map", "seq") and v[1]:
                    out.append(pad + "-")
                    out.extend(self.emit(v, ind + 2))
                elif v[0] in ("map", "seq"):
                    out.append("%s- %s" % (pad, "{}" if v[0] == "map" else "[]"))
                else:
                    sl = self.emit_scalar(v, ind)
                    out.append("%s- %s" % (pad, sl[0]))
                    out.extend(sl[1:])
            return out
        raise AssertionError(n)


def gen_doc_ex(rng, want_secret=True, **kw):
    """(text, the strings its secret scalars are meant to load to)"""
    for _ in range(20):
        g = Gen(rng, nosecret=not want_secret, **kw)
        kind = rng.choice(["map", "map", "seq"])
        n = rng.randint(1, 3 if g.small else 5)
        if kind == "map":
            root = ("map", [(k, g.node(1)) for k in rng.sample(KEYS, n)])
        else:
            root = ("seq", [g.node(1) for _ in range(n)])
        if want_secret and g.nsecret == 0:
            continue
        return "\n".join(g.emit(root, 0)) + "\n", g.intended
    ct = enc_text("old", b"fallback")
    return "a: %s\n" % ct, [ct]


def gen_doc(rng, want_secret=True, **kw):
    return gen_doc_ex(rng, want_secret, **kw)[0]


def gen_files(rng, i):
    """The files of the i-th run: half of the runs have one file (6 : 2 : 2
    well-formed : malformed : no secret), 30 % two, 20 % three."""
    r = i % 20
    heavy = dict(small=True, p_anchor=0.7, p_alias=0.25)
    small = dict(small=True)

    def bad_one():
        return rng.choice([None, None, rng.choice(UNLOADABLE),
                           rng.choice(UNLOADABLE[:3]) + "s: %s\n" % enc_text("old", b"never looked at")])

    def any_one():
        q = rng.random()
        if q < 0.3:
            return gen_doc(rng, **heavy)
        if q < 0.5:
            return gen_doc(rng, odd=True, **small)
        if q < 0.65:
            return gen_doc(rng, allbad=True, **small)
        if q < 0.8:
            return gen_doc(rng, want_secret=False, **small)
        return bad_one()

    if r < 6:
        return [gen_doc(rng)]
    if r < 8:
        if r == 7 and rng.random() < 0.15:
            return [bad_one()]
        return [gen_doc(rng, odd=True)]
    if r < 10:
        return [gen_doc(rng, want_secret=False)]
    if r in (10, 11):           # the same anchor names with secrets in both files
        return [gen_doc(rng, **heavy), gen_doc(rng, **heavy)]
    if r == 12:                 # a file without secrets beside a rewritten one
        fs = [gen_doc(rng, **heavy), gen_doc(rng, want_secret=False, **small)]
        return fs if rng.random() < 0.5 else fs[::-1]
    if r == 13:                 # every secret of one file under a foreign key / corrupt: the run ends with 3
        fs = [gen_doc(rng, **heavy), gen_doc(rng, allbad=True, **heavy)]
        return fs if rng.random() < 0.5 else fs[::-1]
    if r == 14:                 # malformed
        fs = [bad_one(), any_one()]
        return fs if rng.random() < 0.5 else fs[::-1]
    if r == 15:
        return [gen_doc(rng, **small), gen_doc(rng, **small)]
    if r == 16:                 # secret / plain / secret
        return [gen_doc(rng, **heavy), gen_doc(rng, want_secret=False, **small), gen_doc(rng, **heavy)]
    if r == 17:
        return [gen_doc(rng, **heavy), gen_doc(rng, **heavy), gen_doc(rng, **small)]
    if r == 18:
        fs = [gen_doc(rng, **heavy), gen_doc(rng, want_secret=False, **small),
              gen_doc(rng, want_secret=False, **small)]
        rng.shuffle(fs)
        return fs
    fs = [bad_one(), any_one(), any_one()]      # malformed
    rng.shuffle(fs)
    return fs


_E = lambda p, k="old": enc_text(k, p)  # noqa: E731

CORPUS = [
    # the aliases that Processor._update_node used to miss (fixed: in this branch)
    (["l1:\n  - &x %s\nl2:\n  - *x\n" % _E(b"one")], False),
    (["m: &x %s\nl2:\n  - *x\n  - plain\n" % _E(b"one")], True),
    (["l1:\n  - &x %s\nm: *x\n" % _E(b"one")], False),
    (["- &x %s\n- *x\n- &y %s\n- *x\n- *y\n" % (_E(b"one"), _E(b"two"))], True),
    (["a: %s\nb: %s\n" % (_E(b"same"), _E(b"same"))], False),
    (["a: plain\nb: [1, 2]\n"], True),
    (["a: ' E N C [ not really, but the marker rule says yes'\n"], False),
    (["top:\n  f: >\n    %s\n  g: x\n" % _E(b"folded one")], True),
    (["shared: &c\n  s: %s\nagain: *c\n" % _E(b"in a shared hash")], False),
    # seen_anchors is per FILE: the same anchor name carries a secret in each file of one run
    (["k: &x %s\nl:\n  - *x\n" % _E(b"first file"), "k: &x %s\nl:\n  - *x\n" % _E(b"second file")], False),
    (["- &x %s\n- *x\n" % _E(b"first"), "m: &x %s\nn: *x\n" % _E(b"second"), "- - &x %s\n- *x\n" % _E(b"third")],
     True),
    # secret / plain / secret: the middle file stays as it is, without a .bak
    (["a: %s\n" % _E(b"left"), "a: plain\nb: [1, 2]\n", "b:\n  - %s\n" % _E(b"right")], True),
    (["a: plain\n", "a: %s\n" % _E(b"only the second")], True),
    # a foreign-key file stops nothing but the exit status
    (["a: %s\n" % _E(b"fine"), "a: %s\n" % _E(b"not ours", "foreign")], False),
    # the ONLY secret of the file is deeply padded: the file must be rewritten (and backed up)
    (["a: \"        %s\"\n" % _E(b"eight blanks")], True),
    (["a: \"\\n\\n\\n   \\n  %s\"\nb: plain\n" % _E(b"escapes")], True),
    (["a: |2\n\n          %s\nb: plain\n" % _E(b"literal block")], True),
    (["- >2\n          %s\n          %s\n" % (_E(b"folded block")[:30], _E(b"folded block")[30:])], True),
    (["a: \"E  N  C  [PK CS7,%s\"\n" % _E(b"inside")[10:]], True),
    (["a: E\n\n\n\n\n\n  N\n  C\n  %s\n" % _E(b"plain multi-line")[3:]], True),
    (["k: &x \"                %s\"\nl:\n  - *x\n" % _E(b"padded and shared")], True),
    # C19_encrypt_calls_refuted (F19a): a value encrypted four times under the old key inside an aliased list:
    # two positions, four visits, every visit peels one layer; status 0, one real encryption
    (["- &c\n  - %s\n- *c\n" % _E(_E(_E(_E(b"x").encode()).encode()).encode())], False),
    # not encrypted by the rule: a tab is not ignored
    (["a: \"\\t%s\"\nb: \"x%s\"\n" % (_E(b"tab"), _E(b"letter"))], True),
]


def chunks(tier, seed):
    rng = random.Random(seed)
    n = 3000 if tier == "thorough" else 600
    size = 10
    cases = []
    for i in range(n):
        cases.append({"files": gen_files(rng, i), "backup": bool((i + i // 20) % 2)})
    for i in range(0, len(cases), size):
        yield cases[i:i + size]


def corpus_chunks():
    cases = [{"files": list(fs), "backup": b} for fs, b in CORPUS]
    for i in range(0, len(cases), 8):
        yield cases[i:i + 8]


# ---- encoding a loaded document + the oracle tables -----------------------------------------
def load(text):
    yaml = _ENV["Parsers"].get_yaml_editor()
    with warnings.catch_warnings():
        warnings.simplefilter("error")
        return yaml.load(io.StringIO(text))


def file_name(k):
    return "secrets%d.yaml" % k


def prepare(case):
    """What each command-line argument turns out to be, decided by the tool's
    own loader on the same bytes main() will read: notfile | unloadable | doc
    (+ the loaded document) | loadcrash (the loader itself raised: outside the
    model's domain)."""
    P = _ENV["Parsers"]
    d = os.path.join(_ENV["root"], "pre")
    os.makedirs(d, exist_ok=True)
    pre = []
    for k, text in enumerate(case["files"]):
        if text is None:
            pre.append({"kind": "notfile"})
            continue
        path = os.path.join(d, file_name(k))
        with open(path, "w", encoding="utf-8") as f:
            f.write(text)
        try:
            data, ok = P.get_yaml_data(P.get_yaml_editor(), _Quiet(), path)
        except Exception as e:  # noqa
            pre.append({"kind": "loadcrash", "exc": type(e).__name__})
            continue
        pre.append({"kind": "doc", "data": data} if ok else {"kind": "unloadable"})
    return pre


def pre_of(case):
    if "_pre" not in case:
        case["_pre"] = prepare(case)
    return case["_pre"]


def leaves(data, path=()):
    """(location, object) of every scalar reachable through hash values and
    list elements."""
    if isinstance(data, dict):
        for k, v in data.items():
            yield from leaves(v, path + (("K", k),))
    elif isinstance(data, list):
        for i, v in enumerate(data):
            yield from leaves(v, path + (("I", i),))
    else:
        yield path, data


def tables(docs):
    dec, enc, lay = {}, {}, {}
    for data in docs:
        for _, v in leaves(data):
            if not is_eyaml(v):
                continue
            c = clean(str(v)).rstrip()
            for _depth in range(8):
                for k in ("old", "new"):
                    p = dec_bytes(k, c) if c.isascii() else None
                    dec[(k, c)] = p
                p = dec[("old", c)]
                if p is None:
                    break
                out = p if p.endswith(b"\n") else p + b"\n"
                try:
                    retval = out.decode("ascii").rstrip()
                except UnicodeDecodeError:
                    break
                if not retval:
                    break
                if is_eyaml(retval):
                    # F19a: a plaintext that carries the marker is stored as it is; a position reached
                    # again (aliased container) is then decrypted once more: follow the chain
                    c = clean(retval).rstrip()
                    continue
                e = enc_text("new", retval.encode("ascii"))
                enc[("new", retval)] = e
                for k in ("old", "new"):        # a value reached twice (shared container) is decrypted again
                    dec.setdefault((k, e), dec_bytes(k, e))
                for f in ("string", "block"):
                    lay[(f, e)] = layout(f, e)
                break
    rows = lambda t: " ".join("(%s %s %s)" % (k, hexs(a), "none" if r is None else hexs(r)) for (k, a), r in t.items())  # noqa
    return "(%s) (%s) (%s)" % (rows(dec), rows(enc), rows(lay))


def canon_doc(sx):
    """Renumber identities by first occurrence; drop has_anchor_attr and tag of
    leaves (a re-created scalar is a different Python class)."""
    r = docenc.renumber(sx)

    def go(n):
        if n[0] == "L":
            return ["L", n[1], n[2], n[5]]
        if n[0] == "M":
            return ["M", n[1], n[2], [[go(k), go(v)] for k, v in n[5]]]
        return [n[0], n[1], n[2], [go(e) for e in n[5]]]
    return go(r)


def requests(case):
    pre = pre_of(case)
    if any(f["kind"] == "loadcrash" for f in pre):
        case["_skip"] = True
        return ["(is-eyaml none)"]
    parts = []
    for f in pre:
        if f["kind"] != "doc":
            parts.append(f["kind"])
            continue
        data = f["data"]
        sx, e = docenc.encode(data)
        folded = [e.oid(v) for _, v in leaves(data) if isinstance(v, _ENV["Folded"])]
        parts.append("(doc %s i%d (%s))" % (sx, len(e.oids), " ".join("i%d" % o for o in sorted(set(folded)))))
    # second request: the hypothesis [loaded_doc] of the document-level theorems (Inv, keys_ok, container
    # at the root), EVALUATED by the extracted boolean c19_loaded_doc_b on every document encoded above
    return ["(rotate-run (%s) %s)" % (" ".join(parts), tables([f["data"] for f in pre if f["kind"] == "doc"])),
            "(loaded-doc-b (%s))" % " ".join(parts)]


def run_real(case):
    """ONE run of the real main() with all the files of the case on the
    command line.  Besides faultfs' I/O trace: which file the loop is in (the
    name `isfile` of the command module is called once per file at the top of
    the loop body), what Parsers.get_yaml_data returned for it, and the eyaml
    subprocess calls made while it was the current file."""
    _COUNTER[0] += 1
    d = os.path.join(_ENV["root"], "r%d" % _COUNTER[0])
    shutil.rmtree(d, ignore_errors=True)
    os.makedirs(d)
    paths = []
    for k, text in enumerate(case["files"]):
        T = os.path.join(d, file_name(k))
        paths.append(T)
        if text is None:
            if k % 2 == 0:
                os.mkdir(T)          # exists, yet not a file; odd positions: nothing there at all
        else:
            with open(T, "w", encoding="utf-8") as f:
                f.write(text)
    kd = _ENV["keys"]
    argv = ["eyaml-rotate-keys", "-x", STANDIN, "-i", os.path.join(kd, "oldpriv"), "-c", os.path.join(kd, "oldpub"),
            "-r", os.path.join(kd, "newpriv"), "-u", os.path.join(kd, "newpub")] + \
           (["--backup"] if case["backup"] else []) + paths
    roles = {}
    for k, T in enumerate(paths):
        roles[T] = "t%d" % k
        roles[T + ".bak"] = "b%d" % k
    EP, mod, P = _ENV["EP"], _ENV["rotate"], _ENV["Parsers"]
    calls = []
    entered = []          # indices of the files the loop body was entered for, in order
    loaded = {}           # file index -> (document, doc_loaded) as main() got them
    real_run, real_isfile, real_parsers = EP.run, mod.isfile, mod.Parsers

    def index_of(p):
        try:
            return paths.index(os.path.abspath(p))
        except (ValueError, TypeError):
            return None

    def logged_run(cmd, **kw):
        kw.setdefault("timeout", 120)
        kw.setdefault("stderr", subprocess.DEVNULL)     # the stand-in's complaints are not ours to print
        cur = entered[-1] if entered else None
        try:
            r = real_run(cmd, **kw)
        except Exception:
            calls.append((cmd[1], kw.get("input"), None, cur))
            raise
        calls.append((cmd[1], kw.get("input"), r.stdout, cur))
        return r

    def seen_isfile(p):
        k = index_of(p)
        if k is not None:
            entered.append(k)
        return real_isfile(p)

    def seen_get_yaml_data(parser, logger, source, **kw):
        res = P.get_yaml_data(parser, logger, source, **kw)
        k = index_of(source)
        if k is not None:
            loaded[k] = res
        return res

    EP.run = logged_run
    mod.isfile = seen_isfile
    mod.Parsers = types.SimpleNamespace(get_yaml_editor=P.get_yaml_editor, get_yaml_data=seen_get_yaml_data)
    try:
        r = faultfs.run_tool(mod, argv, roles)
        files = {}
        for n in sorted(os.listdir(d)):
            if os.path.isfile(os.path.join(d, n)):
                with open(os.path.join(d, n), "rb") as f:
                    files[n] = f.read()
    finally:
        EP.run, mod.isfile, mod.Parsers = real_run, real_isfile, real_parsers
        shutil.rmtree(d, ignore_errors=True)
    return {"r": r, "calls": calls, "files": files, "entered": entered, "loaded": loaded}


def raise_line(exc):
    from yamlpath.exceptions import YAMLPathException
    if isinstance(exc, YAMLPathException):
        return "(raise ype)"
    for fam in (ValueError, TypeError, KeyError, IndexError, AttributeError):
        if isinstance(exc, fam):      # UnicodeDecodeError / UnicodeEncodeError are ValueErrors
            return "(raise (crash %s))" % fam.__name__
    return "(raise (crash %s))" % type(exc).__name__


def observe(case):
    """Line: what the model's rotate-run request is compared with.  An
    exception that escapes main(): the files the loop got through are listed,
    the one it was in is not."""
    if case.get("_skip") or "_pre" not in case:
        return ["false"]
    run = run_real(case)
    case["_run"] = run
    r = run["r"]
    crashed = r["exc"] is not None
    done = run["entered"][:-1] if crashed else run["entered"]
    dumped = {}
    j = 0
    for line in r["trace"]:           # (opentrunc tK) ... (dump tK): the j-th dump is the j-th dumped document
        if line.startswith("(dump t"):
            if j < len(r["dumped"]):
                dumped[int(line[len("(dump t"):-1])] = r["dumped"][j]
            j += 1
    parts = []
    for k in done:
        ld = run["loaded"].get(k)
        if ld is None or not ld[1]:
            parts.append("(file skipped)")
            continue
        changed = ("(opentrunc t%d)" % k) in r["trace"]
        sx, _ = docenc.encode(dumped[k] if k in dumped else ld[0])
        rotated = [hexs(inp) for (what, inp, out, f) in run["calls"] if what == "encrypt" and out and f == k]
        parts.append("(file (doc %s) (changed %s) (rotated (%s)))" % (
            sexp_str(canon_doc(sexp_parse(sx))), "true" if changed else "false", " ".join(rotated)))
    end = raise_line(r["exc"]) if crashed else "(exit i%d)" % r["status"]
    # what the theorems assume of every loaded document whose root is a hash or a list: Inv, keys_ok,
    # loaded_doc all true (a document that is one scalar is outside loaded_doc: it is never searched)
    hyp = []
    for f in pre_of(case):
        if f["kind"] == "doc":
            container = isinstance(f["data"], (dict, list))
            hyp.append("(true true %s)" % ("true" if container else "false"))
    return ["(run (%s) (end %s))" % (" ".join(parts), end), "(hyp (%s))" % " ".join(hyp)]


# ---- the property on the implementation's own files ----------------------------------------------
def strip_secrets(data):
    if isinstance(data, dict):
        return ["M", [[repr(k), getattr(getattr(k, "anchor", None), "value", None), strip_secrets(v)] for k, v in data.items()]]
    if isinstance(data, list):
        return ["S", getattr(getattr(data, "anchor", None), "value", None), [strip_secrets(v) for v in data]]
    anc = getattr(getattr(data, "anchor", None), "value", None)
    if is_eyaml(data):
        return ["SECRET", anc]
    return ["V", anc, repr(data), type(data).__name__ if not isinstance(data, str) else "str"]


def judge_file(k, text, before, run, backup, succeeded):
    """The property for ONE file of the run: its own bytes before / after, its
    own .bak, its own secrets, the encryptions made while it was processed."""
    files = run["files"]
    name = file_name(k)
    orig_bytes = text.encode("utf-8")
    secrets = [(p, v) for p, v in leaves(before) if is_eyaml(v)]
    if not secrets:
        if files.get(name) != orig_bytes:
            return "a file holding no encrypted value was rewritten"
        if name + ".bak" in files:
            return "a file holding no encrypted value was backed up"
        return None
    if not succeeded:
        return None          # the property speaks about successful runs
    try:
        after = load(files[name].decode("utf-8"))
    except Exception as e:  # noqa
        return "the rotated file does not load any more: %s" % type(e).__name__
    if strip_secrets(after) != strip_secrets(before):
        return "something other than the encrypted values changed (keys, plain values, order or anchors)"
    after_at = dict(leaves(after))
    for p, v in secrets:
        c = clean(str(v)).rstrip()
        plain = dec_bytes("old", c)
        nv = after_at.get(p)
        if not is_eyaml(nv):
            return "the value at %r is no longer an encrypted value" % (p,)
        nc = clean(str(nv)).rstrip()
        if dec_bytes("new", nc) != plain:
            return "the value at %r does not decrypt under the new keys to its old plaintext" % (p,)
        if dec_bytes("old", nc) is not None:
            return "the value at %r still decrypts under the old keys" % (p,)
    # shared stays shared, and each secret object is encrypted once
    groups = {}
    for p, v in secrets:
        groups.setdefault(id(v), []).append(p)
    for ps in groups.values():
        if len({id(after_at[p]) for p in ps}) != 1:
            return "values shared through an anchor are no longer shared: %r" % (ps,)
    nenc = sum(1 for (what, inp, out, f) in run["calls"] if what == "encrypt" and f == k)
    if nenc != len(groups):
        return "%d secret object(s) but %d encryptions" % (len(groups), nenc)
    if backup and files.get(name + ".bak") != orig_bytes:
        return "--backup: the .bak is not the pre-image"
    return None


def judge(case, obs):
    run = case.get("_run")
    if run is None:
        return None
    r = run["r"]
    succeeded = r["status"] == 0 and r["exc"] is None
    n = len(case["files"])
    for k, (text, f) in enumerate(zip(case["files"], pre_of(case))):
        if f["kind"] != "doc":
            continue         # nothing the property can be asked about: not a file, or no values to speak of
        v = judge_file(k, text, f["data"], run, case["backup"], succeeded)
        if v is not None:
            return v if n == 1 else "file %d of %d (%s): %s" % (k + 1, n, file_name(k), v)
    return None


def plaintext_is_odd(case, obs):
    """Known limitation of the command line protocol: a plaintext that ends in
    white space (eyaml's own trailing newline cannot be told from the secret's),
    or that itself begins with the ENC[ marker, does not survive."""
    try:
        pre = pre_of(case)
    except Exception:  # noqa
        return False
    for f in pre:
        if f["kind"] != "doc":
            continue
        for _, v in leaves(f["data"]):
            if is_eyaml(v):
                p = dec_bytes("old", clean(str(v)).rstrip())
                if p is not None:
                    try:
                        t = p.decode("ascii")
                    except UnicodeDecodeError:
                        continue
                    if t != t.rstrip() or is_eyaml(t):
                        return True
    return False


FINDING_PREDS = {"plaintext_trailing_space_or_marker": plaintext_is_odd}


def secret_stats(case):
    """(#secret positions, #positions that are aliases of another, #secret objects with >= 5 blanks /
    line feeds before the `[` of the marker, #files not loaded) over all files."""
    n = objs = deep = skipped = 0
    for f in pre_of(case):
        if f["kind"] != "doc":
            skipped += 1
            continue
        seen = {}
        for _, v in leaves(f["data"]):
            if is_eyaml(v):
                n += 1
                seen[id(v)] = v
        objs += len(seen)
        deep += sum(1 for v in seen.values() if marker_padding(v) >= 5)
    return n, n - objs, deep, skipped


def classify(case, obs):
    run = case.get("_run")
    if run is None:
        return "outside the domain (the loader itself raised)"
    r = run["r"]
    n, aliases, deep, skipped = secret_stats(case)
    return "files=%d skipped=%d secrets=%s aliases=%s deep=%s status=%s%s" % (
        len(case["files"]), skipped, min(n, 5), min(aliases, 2), min(deep, 2), r["status"],
        ":" + r["crash"] if r["crash"] else "")


def nontrivial(case, obs):
    return secret_stats(case)[0] > 0


def key(case):
    return (tuple(case["files"]), case["backup"])


def describe(case):
    return {"files": list(case["files"]), "backup": case["backup"]}


def undescribe(d):
    if "files" not in d:         # replay files written before runs had several files
        return {"files": [d["text"]], "backup": d["backup"]}
    return {"files": list(d["files"]), "backup": d["backup"]}
