"""C19: eyaml-rotate-keys re-keys every secret once and touches nothing else.

Case = one generated YAML document (text) mixing plaintext with encrypted
scalars at arbitrary positions -- hash values, list elements, anchored and
aliased (alias in the same list, another list, a hash), plain / folded /
quoted styles, secrets under foreign keys or corrupt (malformed stream) --
and whether --backup is given.  The real eyaml-rotate-keys main() runs
in-process against harness/eyaml_standin.py (passed with --eyaml); observed:
the in-memory document handed to YAML.dump (object identities included), the
"file changed" decision, the exit status and the plaintexts sent to
`encrypt`.  The model (coq/Model/Eyaml.v, Ey.rotate_file) gets the loaded
document and the cipher as finite oracle tables.
"""
import io
import json
import os
import random
import shutil
import subprocess
import sys
import warnings

import eyaml_standin as standin
import faultfs
from common import hexs, sexp_parse, sexp_str
import docenc

CONFIG = {
    "id": "C19",
    "rule": ("seeded random documents (depth <= 3, <= 5 entries per container): hashes and lists of plain scalars, "
             "secrets in plain / folded / double-quoted / multi-line-plain style, anchored secrets with aliases in "
             "hashes, in the same list and in other lists, keys incl. dotted / spaced / slashed / integer keys; a "
             "malformed stream with secrets under a foreign key, corrupt ciphertext, plaintexts ending in white "
             "space, starting with the ENC[ marker or non-ASCII; documents without any secret; each with and "
             "without --backup.  non-trivial = the document holds >= 1 encrypted value; distinct = distinct text."),
    "trusted_base": [
        "modelled, not verified: eyamlprocessor.py 55-112, 115-305, 381-395; eyaml_rotate_keys.py 116-200; the "
        "Hash/Array branches of Processor._update_node.recurse and Nodes.make_new_node's Anchor handling",
        "abstraction (stated in Model/Eyaml.v): a discovered path is its list of segments; rendering it as YAML Path "
        "text and evaluating it again (escape_path_section, YAMLPath.__add__, Processor.get_nodes/set_value) is "
        "replaced by the segment semantics [resolve] and the identity-driven replacement [subst]",
        "the cipher: Section variables enc/dec/layout with explicit laws; in the correspondence run their finite "
        "tables come from harness/eyaml_standin.py -- the real hiera-eyaml gem (Ruby) is ABSENT in this sandbox, "
        "PKCS7 is not exercised",
        "ruamel.yaml load/dump: the judge reloads the written file with the tool's own editor settings",
    ],
    "assumptions": [
        "cipher laws: dec k (enc k p) = p; k <> k' -> dec k' (enc k p) fails; enc k p begins with ENC[ and is "
        "ASCII without white space; the layout of `eyaml encrypt` output only adds blanks and line breaks",
        "documents without sets, without YAML merge keys, without scalars used as keys being aliases",
    ],
}

HERE = os.path.dirname(os.path.abspath(__file__))
STANDIN = os.path.join(HERE, "eyaml_standin.py")
_ENV = {}
_COUNTER = [0]
# scratch space: see harness/c17.py
_OWNER = os.getpid()
TOP = "/tmp/save_%d" % _OWNER


def _cleanup():
    if os.getpid() == _OWNER:
        shutil.rmtree(TOP, ignore_errors=True)


import atexit  # noqa: E402
atexit.register(_cleanup)

KEYS = ["a", "b", "password", "db_pass", "profile::db::secret", "dash-key", "under_score", "a.b", "with space",
        "x/y", "k9", "Z", "nested", "list", "more", "0x", "q[0]"]
PLAIN = ["value", "1", "true", "null", "some text", "ENCODED", "'quoted'", "3.5", "[ ]", "~", "x: y"]
SECRETS = ["s3cret", "hunter2", "correct horse battery staple", "p", "a much longer secret value " * 4 + "end",
           "with: colon", "tab\there", "line one\nline two", "0", "-----BEGIN KEY-----\nabc\n-----END KEY-----"]
ODD_SECRETS = ["trailing newline\n", "trailing space ", "ENC[looks encrypted]", "café", " \n", "x\n\n"]


def init_worker():
    from yamlpath.commands import eyaml_rotate_keys
    import yamlpath.eyaml.eyamlprocessor as EP
    from yamlpath.common import Parsers
    from ruamel.yaml.scalarstring import FoldedScalarString
    root = os.path.join(TOP, "w%d" % os.getpid())
    os.makedirs(root, exist_ok=True)
    kd = os.path.join(root, "keys")
    os.makedirs(kd, exist_ok=True)
    for name in ("old", "new"):
        for part in ("pub", "priv"):
            with open(os.path.join(kd, name + part), "w") as f:
                f.write("STANDIN-EYAML-KEY %s\n" % name)
    _ENV.update(rotate=eyaml_rotate_keys, EP=EP, Parsers=Parsers, Folded=FoldedScalarString, root=root, keys=kd)


# ---- the cipher as the model sees it (same functions the stand-in executable runs) ---------
def enc_text(kid, plain_bytes):
    return standin.encrypt_bytes(kid.encode(), plain_bytes)


def dec_bytes(kid, text):
    return standin.decrypt_text(kid.encode(), text)


def layout(fmt, ct):
    if fmt == "block":
        lines = [ct[i:i + 60] for i in range(0, len(ct), 60)]
        return "".join("    " + l + "\n" for l in lines)
    return ct + "\n"


def clean(s):
    return s.replace("\n", "").replace(" ", "")


def is_eyaml(v):
    return isinstance(v, str) and clean(v).startswith("ENC[")


# ---- document generator --------------------------------------------------------------------
def secret_scalar(rng, plain, style, key="old", corrupt=False):
    """Lines of a YAML scalar holding the encryption of `plain`; first line
    goes after 'key: ' / '- ', the rest are continuation lines (unindented)."""
    ct = enc_text(key, plain.encode("utf-8"))
    if corrupt:
        ct = ct[:-3] + "A]" if len(ct) > 16 else "ENC[PKCS7,AAAA]"
    if style == "folded":
        w = rng.choice([20, 40, 60])
        return [">"] + [ct[i:i + w] for i in range(0, len(ct), w)]
    if style == "dquote":
        return ['"%s"' % ct]
    if style == "multiplain" and len(ct) > 30:
        h = len(ct) // 2
        return [ct[:h], ct[h:]]
    return [ct]


class Gen:
    def __init__(self, rng, odd=False):
        self.rng = rng
        self.odd = odd
        self.anchors = []
        self.nsecret = 0

    def scalar(self):
        rng = self.rng
        r = rng.random()
        if r < 0.40:
            return ("plain", rng.choice(PLAIN))
        if r < 0.50 and self.anchors:
            return ("alias", rng.choice(self.anchors))
        pool = SECRETS
        key, corrupt = "old", False
        if self.odd:
            q = rng.random()
            if q < 0.35:
                pool = ODD_SECRETS
            elif q < 0.5:
                key = "foreign"
            elif q < 0.6:
                corrupt = True
        plain = rng.choice(pool)
        style = rng.choice(["plain", "plain", "folded", "dquote", "multiplain"])
        anc = None
        if rng.random() < 0.35:
            anc = "anc%d" % len(self.anchors)
            self.anchors.append(anc)
        self.nsecret += 1
        return ("secret", plain, style, anc, key, corrupt)

    def node(self, depth):
        rng = self.rng
        r = rng.random()
        if depth >= 3 or r < 0.45:
            return self.scalar()
        n = rng.randint(0, 4)
        if r < 0.75:
            keys = rng.sample(KEYS, n)
            return ("map", [(k, self.node(depth + 1)) for k in keys])
        return ("seq", [self.node(depth + 1) for _ in range(n)])

    def emit_scalar(self, sc, ind):
        kind = sc[0]
        if kind == "plain":
            return [sc[1]]
        if kind == "alias":
            return ["*" + sc[1]]
        _, plain, style, anc, key, corrupt = sc
        lines = secret_scalar(self.rng, plain, style, key, corrupt)
        head = ("&%s " % anc if anc else "") + lines[0]
        return [head] + [" " * (ind + 2) + l for l in lines[1:]]

    def emit(self, n, ind):
        pad = " " * ind
        out = []
        if n[0] == "map":
            if not n[1]:
                return [pad + "{}"]
            for k, v in n[1]:
                ks = json.dumps(k) if not k.replace("_", "").isalnum() else k
                if v[0] in ("map", "seq") and v[1]:
                    out.append("%s%s:" % (pad, ks))
                    out.extend(self.emit(v, ind + 2))
                elif v[0] in ("map", "seq"):
                    out.append("%s%s: %s" % (pad, ks, "{}" if v[0] == "map" else "[]"))
                else:
                    sl = self.emit_scalar(v, ind)
                    out.append("%s%s: %s" % (pad, ks, sl[0]))
                    out.extend(sl[1:])
            return out
        if n[0] == "seq":
            if not n[1]:
                return [pad + "[]"]
            for v in n[1]:
                if v[0] in ("map", "seq") and v[1]:
                    out.append(pad + "-")
                    out.extend(self.emit(v, ind + 2))
                elif v[0] in ("map", "seq"):
                    out.append("%s- %s" % (pad, "{}" if v[0] == "map" else "[]"))
                else:
                    sl = self.emit_scalar(v, ind)
                    out.append("%s- %s" % (pad, sl[0]))
                    out.extend(sl[1:])
            return out
        raise AssertionError(n)


def gen_doc(rng, odd=False, want_secret=True):
    for _ in range(20):
        g = Gen(rng, odd)
        kind = rng.choice(["map", "map", "seq"])
        n = rng.randint(1, 5)
        if kind == "map":
            root = ("map", [(k, g.node(1)) for k in rng.sample(KEYS, n)])
        else:
            root = ("seq", [g.node(1) for _ in range(n)])
        if want_secret and g.nsecret == 0:
            continue
        if not want_secret and g.nsecret:
            continue
        return "\n".join(g.emit(root, 0)) + "\n"
    return "a: %s\n" % enc_text("old", b"fallback")


CORPUS = [
    # the aliases that Processor._update_node used to miss (fixed: in this branch)
    "l1:\n  - &x %s\nl2:\n  - *x\n" % enc_text("old", b"one"),
    "m: &x %s\nl2:\n  - *x\n  - plain\n" % enc_text("old", b"one"),
    "l1:\n  - &x %s\nm: *x\n" % enc_text("old", b"one"),
    "- &x %s\n- *x\n- &y %s\n- *x\n- *y\n" % (enc_text("old", b"one"), enc_text("old", b"two")),
    "a: %s\nb: %s\n" % (enc_text("old", b"same"), enc_text("old", b"same")),
    "a: plain\nb: [1, 2]\n",
    "a: ' E N C [ not really, but the marker rule says yes'\n",
    "top:\n  f: >\n    %s\n  g: x\n" % enc_text("old", b"folded one"),
    "shared: &c\n  s: %s\nagain: *c\n" % enc_text("old", b"in a shared hash"),
]


def chunks(tier, seed):
    rng = random.Random(seed)
    n = 3000 if tier == "thorough" else 600
    size = 12
    cases = []
    for i in range(n):
        r = i % 10
        if r < 6:
            text = gen_doc(rng)
        elif r < 8:
            text = gen_doc(rng, odd=True)
        else:
            text = gen_doc(rng, want_secret=False)
        cases.append({"text": text, "backup": bool(i % 2)})
    for i in range(0, len(cases), size):
        yield cases[i:i + size]


def corpus_chunks():
    yield [{"text": t, "backup": bool(i % 2)} for i, t in enumerate(CORPUS)]


# ---- encoding a loaded document + the oracle tables -----------------------------------------
def load(text):
    yaml = _ENV["Parsers"].get_yaml_editor()
    with warnings.catch_warnings():
        warnings.simplefilter("error")
        return yaml.load(io.StringIO(text))


def leaves(data, path=()):
    """(location, object) of every scalar reachable through hash values and
    list elements."""
    if isinstance(data, dict):
        for k, v in data.items():
            yield from leaves(v, path + (("K", k),))
    elif isinstance(data, list):
        for i, v in enumerate(data):
            yield from leaves(v, path + (("I", i),))
    else:
        yield path, data


def tables(data):
    dec, enc, lay = {}, {}, {}
    for _, v in leaves(data):
        if not is_eyaml(v):
            continue
        c = clean(str(v)).rstrip()
        for k in ("old", "new"):
            p = dec_bytes(k, c) if c.isascii() else None
            dec[(k, c)] = p
        p = dec[("old", c)]
        if p is None:
            continue
        out = p if p.endswith(b"\n") else p + b"\n"
        try:
            retval = out.decode("ascii").rstrip()
        except UnicodeDecodeError:
            continue
        if not retval:
            continue
        e = enc_text("new", retval.encode("ascii"))
        enc[("new", retval)] = e
        for k in ("old", "new"):        # a value reached twice (shared container) is decrypted again
            dec.setdefault((k, e), dec_bytes(k, e))
        for f in ("string", "block"):
            lay[(f, e)] = layout(f, e)
    rows = lambda t: " ".join("(%s %s %s)" % (k, hexs(a), "none" if r is None else hexs(r)) for (k, a), r in t.items())  # noqa
    return "(%s) (%s) (%s)" % (rows(dec), rows(enc), rows(lay))


def canon_doc(sx):
    """Renumber identities by first occurrence; drop has_anchor_attr and tag of
    leaves (a re-created scalar is a different Python class)."""
    r = docenc.renumber(sx)

    def go(n):
        if n[0] == "L":
            return ["L", n[1], n[2], n[5]]
        if n[0] == "M":
            return ["M", n[1], n[2], [[go(k), go(v)] for k, v in n[5]]]
        return [n[0], n[1], n[2], [go(e) for e in n[5]]]
    return go(r)


def requests(case):
    try:
        data = load(case["text"])
    except Exception:  # noqa
        return ["(is-eyaml none)"]
    sx, e = docenc.encode(data)
    folded = [e.oid(v) for _, v in leaves(data) if isinstance(v, _ENV["Folded"])]
    case["_enc"] = (data, e)
    return ["(rotate %s i%d (%s) %s)" % (sx, len(e.oids), " ".join("i%d" % o for o in sorted(set(folded))), tables(data))]


def run_real(case):
    _COUNTER[0] += 1
    d = os.path.join(_ENV["root"], "r%d" % _COUNTER[0])
    shutil.rmtree(d, ignore_errors=True)
    os.makedirs(d)
    T = os.path.join(d, "secrets.yaml")
    with open(T, "w", encoding="utf-8") as f:
        f.write(case["text"])
    kd = _ENV["keys"]
    argv = ["eyaml-rotate-keys", "-x", STANDIN, "-i", os.path.join(kd, "oldpriv"), "-c", os.path.join(kd, "oldpub"),
            "-r", os.path.join(kd, "newpriv"), "-u", os.path.join(kd, "newpub")] + \
           (["--backup"] if case["backup"] else []) + [T]
    EP = _ENV["EP"]
    calls = []
    real_run = EP.run

    def logged_run(cmd, **kw):
        kw.setdefault("timeout", 120)
        kw.setdefault("stderr", subprocess.DEVNULL)     # the stand-in's complaints are not ours to print
        try:
            r = real_run(cmd, **kw)
        except Exception:
            calls.append((cmd[1], kw.get("input"), None))
            raise
        calls.append((cmd[1], kw.get("input"), r.stdout))
        return r
    EP.run = logged_run
    try:
        r = faultfs.run_tool(_ENV["rotate"], argv, {T: "target", T + ".bak": "bak"})
        files = {n: open(os.path.join(d, n), "rb").read() for n in sorted(os.listdir(d))}
    finally:
        EP.run = real_run
        shutil.rmtree(d, ignore_errors=True)
    return r, calls, files


def observe(case):
    """Line: what the model's rotate request is compared with."""
    if "_enc" not in case:
        return ["false"]
    r, calls, files = run_real(case)
    case["_run"] = (r, calls, files)
    if r["exc"] is not None:
        from yamlpath.exceptions import YAMLPathException
        if isinstance(r["exc"], YAMLPathException):
            return ["(raise ype)"]
        for fam in (ValueError, TypeError, KeyError, IndexError, AttributeError):
            if isinstance(r["exc"], fam):      # UnicodeDecodeError / UnicodeEncodeError are ValueErrors
                return ["(raise (crash %s))" % fam.__name__]
        return ["(raise (crash %s))" % type(r["exc"]).__name__]
    changed = any(x.startswith("(opentrunc target") for x in r["trace"])
    if r["dumped"]:
        sx, _ = docenc.encode(r["dumped"][-1])
    else:
        sx, _ = docenc.encode(load(case["text"]))
    rotated = [hexs(inp) for (what, inp, out) in calls if what == "encrypt" and out]
    return ["(ok ((doc %s) (changed %s) (exit i%d) (rotated (%s))))" % (
        sexp_str(canon_doc(sexp_parse(sx))), "true" if changed else "false", r["status"], " ".join(rotated))]


# ---- the property on the implementation's own files ----------------------------------------------
def strip_secrets(data):
    if isinstance(data, dict):
        return ["M", [[repr(k), getattr(getattr(k, "anchor", None), "value", None), strip_secrets(v)] for k, v in data.items()]]
    if isinstance(data, list):
        return ["S", getattr(getattr(data, "anchor", None), "value", None), [strip_secrets(v) for v in data]]
    anc = getattr(getattr(data, "anchor", None), "value", None)
    if is_eyaml(data):
        return ["SECRET", anc]
    return ["V", anc, repr(data), type(data).__name__ if not isinstance(data, str) else "str"]


def judge(case, obs):
    run = case.get("_run")
    if run is None:
        return None
    r, calls, files = run
    orig_bytes = case["text"].encode("utf-8")
    before = load(case["text"])
    secrets = [(p, v) for p, v in leaves(before) if is_eyaml(v)]
    if not secrets:
        if files.get("secrets.yaml") != orig_bytes:
            return "a file holding no encrypted value was rewritten"
        if "secrets.yaml.bak" in files:
            return "a file holding no encrypted value was backed up"
        return None
    if r["status"] != 0 or r["exc"] is not None:
        return None          # the property speaks about successful runs
    try:
        after = load(files["secrets.yaml"].decode("utf-8"))
    except Exception as e:  # noqa
        return "the rotated file does not load any more: %s" % type(e).__name__
    if strip_secrets(after) != strip_secrets(before):
        return "something other than the encrypted values changed (keys, plain values, order or anchors)"
    after_at = dict(leaves(after))
    for p, v in secrets:
        c = clean(str(v)).rstrip()
        plain = dec_bytes("old", c)
        nv = after_at.get(p)
        if not is_eyaml(nv):
            return "the value at %r is no longer an encrypted value" % (p,)
        nc = clean(str(nv)).rstrip()
        if dec_bytes("new", nc) != plain:
            return "the value at %r does not decrypt under the new keys to its old plaintext" % (p,)
        if dec_bytes("old", nc) is not None:
            return "the value at %r still decrypts under the old keys" % (p,)
    # shared stays shared, and each secret object is encrypted once
    groups = {}
    for p, v in secrets:
        groups.setdefault(id(v), []).append(p)
    for ps in groups.values():
        if len({id(after_at[p]) for p in ps}) != 1:
            return "values shared through an anchor are no longer shared: %r" % (ps,)
    nenc = sum(1 for (what, inp, out) in calls if what == "encrypt")
    if nenc != len(groups):
        return "%d secret object(s) but %d encryptions" % (len(groups), nenc)
    if case["backup"] and files.get("secrets.yaml.bak") != orig_bytes:
        return "--backup: the .bak is not the pre-image"
    return None


def plaintext_is_odd(case, obs):
    """Known limitation of the command line protocol: a plaintext that ends in
    white space (eyaml's own trailing newline cannot be told from the secret's),
    or that itself begins with the ENC[ marker, does not survive."""
    try:
        before = load(case["text"])
    except Exception:  # noqa
        return False
    for _, v in leaves(before):
        if is_eyaml(v):
            p = dec_bytes("old", clean(str(v)).rstrip())
            if p is not None:
                try:
                    t = p.decode("ascii")
                except UnicodeDecodeError:
                    continue
                if t != t.rstrip() or is_eyaml(t):
                    return True
    return False


FINDING_PREDS = {"plaintext_trailing_space_or_marker": plaintext_is_odd}


def classify(case, obs):
    run = case.get("_run")
    if run is None:
        return "unloadable"
    r = run[0]
    try:
        before = load(case["text"])
        n = sum(1 for _, v in leaves(before) if is_eyaml(v))
        shared = len({id(v) for _, v in leaves(before) if is_eyaml(v)})
    except Exception:  # noqa
        n = shared = -1
    return "secrets=%s aliases=%s status=%s%s" % (min(n, 6), min(n - shared, 3), r["status"],
                                                   ":" + r["crash"] if r["crash"] else "")


def nontrivial(case, obs):
    return "ENC[" in clean(case["text"])


def key(case):
    return (case["text"], case["backup"])


def describe(case):
    return {"text": case["text"], "backup": case["backup"]}


def undescribe(d):
    return {"text": d["text"], "backup": d["backup"]}
