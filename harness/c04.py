"""C04: a delete removes exactly the matched nodes, whatever their number or
position; deleting the document root is refused and changes nothing.

Case = (YAML text, YAML Path text).  The real Processor.delete_nodes runs on
the loaded document; the coordinates its read side gathered (captured at the
entry of _delete_nodes) are what the model's delete_nodes is run on.
Observations per case:
  1. the post-state document (identity classes renumbered) or the exception
     family + the post-state;
  2. the declarative expectation computed by the harness from a shadow copy of
     the pre-state (wf flag, every-coordinate-locates-a-node flag, expected
     document) - compared with the extracted Coq spec (delete_spec /
     del_all_located / wf_docb)."""
import random

import docenc
import mutgen
from common import exc_line

CONFIG = {
    "id": "C04",
    "rule": ("seeded random flow-style YAML documents (depth <= 3; repeated equal scalars, interned ints and "
             "one-character strings, anchored scalars aliased as mapping values / sequence elements / keys, empty "
             "containers, nested sequences, sets) x YAML Paths built from the loaded document to match >= 1 node: exact, "
             "negative index, wildcard, searches over the parent's children, **, [name()], slices, the root, and "
             "Collector unions (same node twice, reversed order, node + ancestor, root + other); a quarter of the "
             "documents hold anchored MAPPINGS (&m1 {..}), keys spelled like those anchor names in other mappings, "
             "and mappings that merge them in (<<: *m1).  non-trivial = at "
             "least one coordinate gathered; distinct = distinct (document, path)."),
    "trusted_base": [
        "modelled, not verified: yamlpath/processor.py delete_nodes/delete_gathered_nodes/_delete_nodes "
        "(lines 690-862, after fixes 17f9ea8 and 1c243db: _leaf_node_coords, root refusal while collecting, one entry per place, stable sort by descending list "
        "position - Python's list.sort is modelled as an insertion sort) on the gathered coordinates; the read side (_get_required_nodes) is NOT modelled: its "
        "NodeCoords are captured from the real run and handed to the model",
        "the merge-key REMOVAL of _delete_nodes (`for (midx, merge_node) in parent.merge`) is outside the model; its "
        "entry test IS modelled (Anchors.scan_for_anchors + is_ymk_anchor + `len(parent.merge) > 0`, Mutate.del_step_mg): "
        "cases that enter it, and deletions inside a mapping that others merge in (ruamel propagates them), are skipped",
        "the harness' shadow copy + ShadowEncoder (harness/mutgen.py) as the independent judge",
    ],
    "assumptions": [
        "documents hold every container object once (wf_doc); aliased containers are not generated",
        "coordinates whose (parent, parentref) do not locate the gathered node (slice / Collector-over-list results "
        "of the read side, C02's subject) are classified 'unlocated' and not judged",
    ],
}

_CACHE = {}


def init_worker():
    mutgen.init_env()


def family(e):
    E = mutgen.init_env()
    if isinstance(e, E["YAMLPathException"]):
        return "ype"
    return "(crash %s)" % type(e).__name__


def leaf_order(ncs, doc_ids=None):
    """The innermost NodeCoords in gather order (Processor._leaf_node_coords, re-stated independently).  With
    doc_ids (the identities of the document's containers): an EMPTY list that is no object of the document - the
    virtual result of an Array slice that selects nothing - designates no node and is left out."""
    NC = mutgen.init_env()["NodeCoords"]
    out = []
    for nc in ncs:
        node = nc.node
        if isinstance(node, list) and len(node) > 0 and isinstance(node[0], NC):
            out.extend(leaf_order(node, doc_ids))
        elif isinstance(node, NC):
            out.extend(leaf_order([node], doc_ids))
        elif doc_ids is not None and mutgen.is_empty_virtual(nc, doc_ids):
            continue
        else:
            out.append(nc)
    return out


def run_case(case):
    if case in _CACHE:
        return _CACHE[case]
    if len(_CACHE) > 4000:
        _CACHE.clear()
    E = mutgen.init_env()
    text, path = case
    rec = {"kind": "skip", "why": None}
    try:
        data = mutgen.load(text)
    except Exception as e:  # noqa
        rec["why"] = "load:" + type(e).__name__
        _CACHE[case] = rec
        return rec
    p = E["Processor"](E["log"], data)
    rec = delete_record(p, path)
    _CACHE[case] = rec
    return rec


def delete_record(p, path):
    """Run the real delete_nodes(path) on the live Processor p; returns the
    record the requests / observations / judge are made of."""
    data = p.data
    rec = {"kind": "skip", "why": None}
    try:
        before, enc = docenc.encode(data)
    except docenc.Unsupported:
        rec["why"] = "unsupported"
        return rec
    shadow = mutgen.Shadow(data)
    state = {"top": None}
    orig = p._delete_nodes

    def wrapped(nodes):
        if state["top"] is None:
            state["top"] = list(nodes)
        return orig(nodes)
    p._delete_nodes = wrapped
    exc = None
    try:
        for _ in p.delete_nodes(path):
            pass
    except Exception as e:  # noqa
        exc = e
    finally:
        del p._delete_nodes
    if state["top"] is None:
        rec["why"] = "read:" + (type(exc).__name__ if exc is not None else "nomatch")
        return rec
    coords = state["top"]
    after = docenc.canon_doc_text(docenc.encode(p.data)[0])
    order = leaf_order(coords, shadow.kids)
    # YAML merge keys: the mappings whose .merge list was non-empty go to the model beside the document;
    # outside the model (skipped): a deletion inside a mapping other mappings merge in (ruamel propagates it to
    # the referring mappings), and the merge-key removal branch itself (parent has merge keys and parentref is
    # the anchor name of some node - decided here on the pre-state, independently of the code)
    merged = [x for x in shadow.keep if isinstance(x, dict) and shadow.merged.get(id(x))]
    for nc in order:
        if isinstance(nc.parent, dict):
            if shadow.referred.get(id(nc.parent)):
                rec["why"] = "merge-referent"
                return rec
            if shadow.merged.get(id(nc.parent)) and isinstance(nc.parentref, str) \
                    and str.__str__(nc.parentref) in shadow.anchor_names:
                rec["why"] = "merge-key-removal"
                return rec
    rec["mg_sexp"] = "(%s)" % " ".join("i%d" % enc.oids[id(x)] for x in merged if id(x) in enc.oids)
    rec.update(kind="run", before=before, coords=coords, enc=enc, shadow=shadow, exc=exc, after=after,
               order=order, data=data,
               coords_sexp="(%s)" % " ".join(mutgen.coord_sexp(c, enc) for c in coords))
    # declarative expectation from the shadow: every coordinate that locates a node designates it, however
    # often and in whatever order it was gathered (= C04spec.del_all_located / delete_spec)
    removed = set()
    located = True
    has_root = False
    # shape of the gather, for the input distribution only: a node named twice / the positions of one sequence not
    # strictly increasing in gather order / a negative index that is not the last of its parent (the cases the
    # loop got wrong before fix 17f9ea8)
    shape = set()
    T = {}
    for nc in order:
        if nc.parent is None:
            has_root = True
            located = False
            continue
        ent = shadow.kids.get(id(nc.parent))
        if ent is None:
            located = False
            continue        # parent is not a container of the document
        idx = shadow.child_index(nc.parent, nc.parentref)
        if idx is None:
            located = False
            continue
        seen = T.setdefault(id(nc.parent), [])
        if idx in seen:
            shape.add("dup")
        elif ent[0] == "S":
            if any(k > idx for k in seen):
                shape.add("disorder")
            if seen and seen[-1] < 0:
                shape.add("disorder")
        if ent[0] == "S" and isinstance(nc.parentref, int) and nc.parentref < 0:
            seen.append(idx)
            seen.append(-1)
        else:
            seen.append(idx)
        removed.add((id(nc.parent), idx))
    rec["shape"] = shape
    wf = tree_containers_unique(data, shadow)
    expected = docenc.canon_doc_text(mutgen.ShadowEncoder(shadow, removed).node(data))
    rec.update(located=located, wf=wf, expected=expected, has_root=has_root, removed=removed,
               root_only=all(nc.parent is None for nc in order))
    return rec


def tree_containers_unique(data, shadow):
    seen = set()

    def go(x):
        ent = shadow.kids.get(id(x))
        if ent is None:
            return True
        if id(x) in seen:
            return False
        seen.add(id(x))
        kind, items = ent
        if kind == "M":
            return all(go(v) for _, v in items)
        if kind == "S":
            return all(go(v) for v in items)
        return True
    return go(data)


def requests(case):
    rec = run_case(case)
    if rec["kind"] == "skip":
        return ["(mut-skip)"]
    return ["(delete %s %s %s)" % (rec["before"], rec["coords_sexp"], rec["mg_sexp"]),
            "(delete-spec %s %s)" % (rec["before"], rec["coords_sexp"])]


def observe(case):
    rec = run_case(case)
    if rec["kind"] == "skip":
        return ["(skip)"]
    if rec["exc"] is None:
        first = "(done %s)" % rec["after"]
    else:
        first = "(failed %s %s)" % (family(rec["exc"]), rec["after"])
    second = "(%s %s %s)" % ("true" if rec["wf"] else "false", "true" if rec["located"] else "false", rec["expected"])
    return [first, second]


def unlocated(rec):
    return not all(mutgen.coord_sane_before(nc, rec["shadow"]) for nc in rec["order"])


def judge(case, obs):
    """The property on the implementation's own observations (no model involved)."""
    return judge_record(run_case(case))


def judge_record(rec):
    if rec["kind"] == "skip":
        return None
    if unlocated(rec):
        return None
    before_canon = docenc.canon_doc_text(rec["before"])
    if rec["has_root"]:
        if rec["exc"] is None or family(rec["exc"]) != "ype":
            return "the document root was among the matched nodes but the delete was not refused with a YAML Path error"
        if rec["after"] != before_canon:
            return "deleting the document root was refused but the document changed"
        return None
    if rec["exc"] is not None:
        return "delete raised %s" % exc_line(rec["exc"])
    if rec["after"] != rec["expected"]:
        return "the document after the delete is not the document minus exactly the matched nodes"
    return None


def classify(case, obs):
    rec = run_case(case)
    if rec["kind"] == "skip":
        return "skip:" + str(rec["why"])
    path = case[1]
    if path.startswith("("):
        pk = "collector"
    elif path == "/":
        pk = "root"
    elif "**" in path:
        pk = "traverse"
    elif "[." in path:
        pk = "search"
    elif "name()" in path:
        pk = "name"
    elif ":" in path:
        pk = "slice"
    elif "*" in path:
        pk = "wildcard"
    elif "[-" in path:
        pk = "negidx"
    else:
        pk = "exact"
    n = len(rec["order"])
    out = "done" if rec["exc"] is None else "raise"
    if rec["has_root"] and not rec["root_only"]:
        out += ":rootmix"
    flags = ("".join(":" + x for x in sorted(rec["shape"])) + (":unlocated" if unlocated(rec) else ""))
    return "%s:n=%s:%s%s" % (pk, n if n < 4 else "4+", out, flags)


def nontrivial(case, obs):
    return run_case(case)["kind"] == "run"


def key(case):
    return case


def describe(case):
    return {"doc": case[0], "path": case[1]}


def undescribe(d):
    return (d["doc"], d["path"])


FINDING_PREDS = {}      # F15 (fix 17f9ea8) and F15b (fix 1c243db) are repaired: every located gather is judged

CORPUS = [
    ("{a: [1, 2, 3]}", "(a[0])+(a[0])"),
    ("{a: [1, 2, 3, 4]}", "(a[2])+(a[0])"),
    ("{a: [[1], [2]], b: 1}", "(/)+(b)"),
    ("{a: [[1], [2]], b: 1}", "(b)+(/)"),
    ("{a: [[1], [2]], b: 1}", "(a[0])+((b)+(/))+(a[1])"),
    ("[[], 1]", "[0]"),
    ("{a: {b: 1, c: []}}", "a.*"),
    ("[1, 2, 3]", "[-1]"),
    # former finding F15 (fixed 17f9ea8): duplicates, disorder, negative before positive, a slice and one of its elements
    ("{a: [1, 2, 3, 4]}", "(a[-1])+(a[0])"),
    ("{a: [1, 2, 3, 4]}", "(a[0])+(a[-1])+(a[3])"),
    ("{a: [1, 2, 3, 4, 5]}", "(a[1:3])+(a[0])+(a[2])"),
    ("{s: !!set {x, y}}", "(s.x)+(s.x)"),
    ("{a: {b: 1, c: 2}}", "(a.b)+(a.c)+(a.b)"),
    ("{a: [[1, 2], 3]}", "(a[0][1])+(a[0])+(a[0][0])"),
    ("{a: aa, c: 1}", "**[.^a]"),
    ("{a: 1}", "/"),
    ("{a: [1, [2], 3], b: 5}", "**"),
    ("{s: !!set {x, y}, t: 1}", "s.x"),
    ("[1, 1, 300, 300, x, x]", "[.=1]"),
    ("{a: &n1 x, b: *n1, c: [*n1, y]}", "c[0]"),
    # a key spelled like the anchor of a mapping elsewhere, in a parent without merge keys: an ordinary delete
    ("{base: &m1 {x: 1}, o: {m1: 5, k: 2}}", "o.m1"),
    ("{base: &m1 {x: 1}, u: {<<: *m1, z: 3}, o: {m1: 5, k: 2}}", "o.m1"),
    ("{base: &m1 {x: 1}, u: {<<: *m1, z: 3}, o: {m1: 5, k: 2}}", "u.z"),
    ("{base: &m1 {x: 1}, u: {<<: *m1, z: 3}, o: {m1: 5, k: 2}}", "u.x"),
    ("{l: [&m1 {x: 1}], o: {m1: 5}}", "o.*"),
    ("{m1: 1, base: &m1 {x: 1}}", "m1"),
]


def corpus_chunks():
    yield list(CORPUS)


def chunks(tier, seed):
    rng = random.Random(seed * 1009 + 4)
    n = 400000 if tier == "thorough" else 40000
    size = 300
    buf = []
    i = 0
    while i < n:
        text = mutgen.gen_doc_text(rng, max_depth=rng.choice([2, 3, 3]), map_anchors=rng.random() < 0.25, int_keys=True)
        try:
            data = mutgen.load(text)
        except Exception:  # noqa
            continue
        if not data and rng.random() < 0.9:
            continue
        for _ in range(4):
            buf.append((text, mutgen.gen_path(rng, data)))
            i += 1
        if len(buf) >= size:
            yield buf
            buf = []
    if buf:
        yield buf
