"""C05: merging two documents yields the policy-defined result for every option mix.

Case = (lhs YAML text, rhs YAML text, options dict, rules dict|None, keys dict|None, ini dict|None).
One observation per case: the merged document (data, order, anchors, tags;
object identities erased) or the exception family.
"""
import itertools
import os
import random
import tempfile
from types import SimpleNamespace

from common import hexs, exc_line
import docenc
import oracles

CONFIG = {
    "id": "C05",
    "rule": ("left x right documents enumerated from a grammar over a colliding alphabet (keys a b id, scalars 1 2 x "
             "'1' null, empty containers, duplicates, sets, tagged scalars, arrays of hashes with identity keys): all "
             "ordered pairs of documents with <= 2 nodes (43 documents) x 8 (thorough: 40) option mixes drawn (seeded) "
             "from the 3x4x5x3 = 180 hashes/arrays/aoh/sets combinations plus the all-defaults mix; pairs of the 594 "
             "documents with 3 nodes and the 6808 with 4 nodes sampled under random mixes; a stream of "
             "two or three right-hand Arrays-of-Hashes of EQUAL content under sibling keys with a [keys] entry for exactly one, merged deep; "
             "larger random documents with per-path [rules], [keys] identity keys and INI [defaults]; a malformed "
             "stream (option / rule texts that are no member of the enum).  non-trivial = both documents are "
             "containers; distinct = distinct (lhs, rhs, options, rules) tuple.  Equality used by the reference policy: "
             "data equality of the loaded values; a right-hand element is 'already in' the left Array / Set when it "
             "equals a left element with YAML tags disregarded (the merger's documented tagless comparison), while "
             "the members of ONE Set are the members the loader presents: a tagged scalar (!t x) is a member of its "
             "own beside the plain scalar of the same text (random stream: Sets holding both)."),
    "trusted_base": [
        "modelled, not verified: yamlpath/merger/merger.py (_merge_dicts, _merge_simple_lists, "
        "_merge_arrays_of_hashes, _merge_lists, _merge_sets, _insert_*, merge_with), mergerconfig.py, "
        "merger/enums/*.py from_str",
        "input, not modelled: MergerConfig.prepare resolving [rules]/[keys] paths to nodes with a Processor; the "
        "harness reads the resolved NodeCoords tables off the real MergerConfig and ships them to the model",
        "oracle: ast.literal_eval (Nodes.typed_value on Array-of-Hashes identity values), tabulated per case",
        "ruamel.yaml loading (documents enter the model after loading, with id() classes) and CommentedMap/Seq/Set "
        "container semantics (insert, __eq__, __contains__) as transcribed in coq/Model/Merge.v",
    ],
    "assumptions": [
        "no container object is reachable at two places of a document (no alias of an anchored Hash/Array); "
        "scalars may be shared",
        "no YAML merge keys (<<:); hash keys and set members hold no backslash (the YAML Path texts the merger builds "
        "for its log/exception messages are not modelled and can raise YAMLPathException for such keys)",
        "no string scalar whose ast.literal_eval is a list/dict/tuple; no anchored scalar as a direct element of an "
        "Array-of-Hashes (Nodes.wrap_type re-types those)",
        "the model is the code only as far as the correspondence run shows",
    ],
}

HASHES = ("deep", "left", "right")
ARRAYS = ("all", "left", "right", "unique")
AOH = ("all", "deep", "left", "right", "unique")
SETS = ("left", "right", "unique")

_ENV = {}


def init_worker():
    from yamlpath.merger import Merger, MergerConfig
    from yamlpath.merger.exceptions import MergeException
    from yamlpath.wrappers import ConsolePrinter
    from yamlpath.common import Parsers
    from ruamel.yaml.comments import CommentedMap, CommentedSeq, CommentedSet, TaggedScalar
    log = ConsolePrinter(SimpleNamespace(quiet=True, verbose=False, debug=False))
    _ENV.update(Merger=Merger, MergerConfig=MergerConfig, MergeException=MergeException, log=log,
                Parsers=Parsers, CommentedMap=CommentedMap, CommentedSeq=CommentedSeq,
                CommentedSet=CommentedSet, TaggedScalar=TaggedScalar, tmp=tempfile.mkdtemp(prefix="c05_"))


# ---------------------------------------------------------------- documents
def load(text):
    if not _ENV:
        init_worker()
    y = _ENV["Parsers"].get_yaml_editor()
    return y.load(text)


class OutEncoder(docenc.Encoder):
    """Canonical output form: identities and the hasattr flag erased."""

    def info(self, x):
        full = docenc.Encoder.info(self, x).split(" ")
        return "i0 %s false %s" % (full[1], full[3])


def out_doc(data):
    return OutEncoder().node(data)


def scalars_of(data, acc):
    if isinstance(data, dict):
        for k, v in data.items():
            scalars_of(k, acc)
            scalars_of(v, acc)
    elif isinstance(data, (list, tuple)) or docenc.is_set(data):
        for e in data:
            scalars_of(e, acc)
    else:
        acc.append(data.value if isinstance(data, _ENV["TaggedScalar"]) else data)
    return acc


def opt_sexp(v):
    return "none" if v is None else hexs(v)


def make_config(case):
    lhs_t, rhs_t, opts, rules, keys, ini = case
    E = _ENV
    ns = SimpleNamespace(**opts)
    kw = {}
    if rules is not None:
        kw["rules"] = rules
    if keys is not None:
        kw["keys"] = keys
    if ini is not None:
        path = os.path.join(E["tmp"], "cfg_%d.ini" % os.getpid())
        with open(path, "w") as f:
            f.write("[defaults]\n" + "".join("%s = %s\n" % kv for kv in ini.items()))
        ns.config = path
    return E["MergerConfig"](E["log"], ns, **kw)


def rule_table(enc, table):
    out = []
    for nc, val in table.items():
        ref = nc.parentref
        out.append("(i%d %s %s %s)" % (enc.oid(nc.node),
                                       "none" if nc.parent is None else "i%d" % enc.oid(nc.parent),
                                       "none" if ref is None else docenc.pyval_sexp(ref), hexs(str(val))))
    return "(%s)" % " ".join(out)


def cfg_sexp(case, cfg, enc, rhs):
    lhs_t, rhs_t, opts, rules, keys, ini = case
    has = cfg.config is not None
    if has:
        cfg.prepare(rhs)
    cli = " ".join(opt_sexp(opts.get(k)) for k in ("hashes", "arrays", "aoh", "sets", "anchors"))
    iniv = " ".join(opt_sexp((ini or {}).get(k)) for k in ("hashes", "arrays", "aoh", "sets", "anchors"))
    return "(cfg %s %s %s (%s) (%s))" % ("true" if has else "false", rule_table(enc, cfg.rules),
                                         rule_table(enc, cfg.keys), cli, iniv)


def prepare_case(case):
    """Load both documents, build the real MergerConfig and the model request."""
    lhs = load(case[0])
    rhs = load(case[1])
    cfg = make_config(case)
    enc = docenc.Encoder()
    enc.fresh_oid()                       # oid 0 is reserved for objects the merge creates
    l_s = enc.node(lhs)
    r_s = enc.node(rhs)
    c_s = cfg_sexp(case, cfg, enc, rhs)
    lt = oracles.lit_table(scalars_of(lhs, []) + scalars_of(rhs, []))
    return lhs, rhs, cfg, "(merge %s %s %s %s)" % (c_s, lt, l_s, r_s)


_CACHE = {}


def requests(case):
    lhs, rhs, cfg, req = prepare_case(case)
    _CACHE[case_key(case)] = (lhs, rhs, cfg)
    return [req]


class Timeout(Exception):
    """a merge that did not return within the deadline: observed as (raise (crash Timeout))"""


def with_deadline(fn, secs=20):
    """run fn() under a wall-clock deadline (as harness/c14.py does for the parser)"""
    import signal

    def on_alarm(signum, frame):
        raise Timeout()
    old = signal.signal(signal.SIGALRM, on_alarm)
    signal.setitimer(signal.ITIMER_REAL, secs)
    try:
        return fn()
    finally:
        signal.setitimer(signal.ITIMER_REAL, 0)
        signal.signal(signal.SIGALRM, old)


def observe(case):
    E = _ENV
    got = _CACHE.pop(case_key(case), None)
    if got is None:
        lhs, rhs, cfg, _ = prepare_case(case)
    else:
        lhs, rhs, cfg = got
    try:
        m = E["Merger"](E["log"], lhs, cfg)
        with_deadline(lambda: m.merge_with(rhs))
        return ["(ok %s)" % out_doc(m.data)]
    except Exception as e:  # noqa
        return [exc_line(e)]


# ---------------------------------------------------------------- the property, on plain data
class Impossible(Exception):
    pass


class Unjudged(Exception):
    """outside what the reference policy states (e.g. an invalid option text)"""


def plain(x):
    """Loaded document -> plain comparable data.  A tagged scalar keeps its tag as a
    third component: ("l", text, tag).  p_eq disregards it (the policies compare
    left with right elements "tagless", Nodes.tagless_elements); member identity
    inside ONE set / one de-duplicated list does not (same_member)."""
    E = _ENV
    if isinstance(x, dict):
        return ("m", [(plain(k), plain(v)) for k, v in x.items()])
    if isinstance(x, (list, tuple)):
        return ("s", [plain(e) for e in x])
    if docenc.is_set(x):
        return ("t", [plain(e) for e in x])
    if isinstance(x, E["TaggedScalar"]):
        return ("l", x.value, x.tag.value)
    if isinstance(x, bool) or x is None:
        return ("l", x)
    if isinstance(x, int):
        return ("l", int(x))
    if isinstance(x, float):
        return ("l", float(x))
    return ("l", str(x))


def p_eq(a, b):
    """Python == on plain data (Hash order-insensitive, Set likewise)."""
    if a[0] != b[0]:
        return False
    if a[0] == "l":
        return a[1] == b[1] and (isinstance(a[1], str) == isinstance(b[1], str))
    if a[0] == "s":
        return len(a[1]) == len(b[1]) and all(p_eq(x, y) for x, y in zip(a[1], b[1]))
    if a[0] == "t":
        return len(a[1]) == len(b[1]) and all(any(p_eq(x, y) for y in b[1]) for x in a[1])
    return len(a[1]) == len(b[1]) and all(any(p_eq(k, k2) and p_eq(v, v2) for k2, v2 in b[1]) for k, v in a[1])


def is_tagged(a):
    return a[0] == "l" and len(a) > 2


def same_member(a, b):
    """Are a and b ONE member when they sit in the same set, as the YAML loader
    presents the data?  A tagged scalar (`!t x`) is a member of its own: it is
    equal neither to the plain scalar of the same text nor to another tagged
    scalar object (ruamel's TaggedScalar compares by identity; the C05
    documents hold no aliases)."""
    if is_tagged(a) or is_tagged(b):
        return False
    return p_eq(a, b)


def t_eq(a, b):
    """two sets hold the same members: a one-to-one pairing of members with
    equal value and equal tag"""
    if a[0] != "t" or b[0] != "t" or len(a[1]) != len(b[1]):
        return False
    rest = list(b[1])
    for x in a[1]:
        for i, y in enumerate(rest):
            if p_eq(x, y) and x[2:] == y[2:]:
                del rest[i]
                break
        else:
            return False
    return True


def d_eq(a, b):
    """data equality IN FULL (AoH UNIQUE: "RHS Hashes which do not already exist IN FULL
    within LHS"): values and YAML tags.  `!t 1` and `'1'` are different data.  Whether two
    tagged scalars of equal tag and text are ONE element is left unjudged: ruamel's
    TaggedScalar has no __eq__ (identity), the text does not say (cf. C06 finding F1)."""
    if a[0] != b[0]:
        return False
    if a[0] == "l":
        if is_tagged(a) != is_tagged(b):
            return False
        if not p_eq(a, b) or a[2:] != b[2:]:
            return False
        if is_tagged(a):
            raise Unjudged("equality of two tagged scalars")
        return True
    if a[0] == "s":
        return len(a[1]) == len(b[1]) and all(d_eq(x, y) for x, y in zip(a[1], b[1]))
    if a[0] == "t":
        return len(a[1]) == len(b[1]) and all(any(d_eq(x, y) for y in b[1]) for x in a[1])
    return len(a[1]) == len(b[1]) and all(any(p_eq(k, k2) and d_eq(v, v2) for k2, v2 in b[1]) for k, v in a[1])


def p_get(m, k):
    for k2, v in m[1]:
        if p_eq(k, k2):
            return v
    return None


class Policy:
    """Effective policy at a right-hand path: rule > CLI > [defaults] > built-in."""

    def __init__(self, case):
        lhs_t, rhs_t, opts, rules, keys, ini = case
        self.opts, self.rules, self.keys, self.ini = opts, rules or {}, keys or {}, ini or {}

    def mode(self, kind, path, allowed, default):
        v = self.rules.get(path) or self.opts.get(kind) or self.ini.get(kind) or default
        v = v.lower()
        if v not in allowed:
            raise Unjudged("option text %r is no %s policy" % (v, kind))
        return v

    def from_rule(self, path):
        return bool(self.rules.get(path))


def seg(k):
    return str(k[1])


def typed(v):
    """identity values are compared in their literal type (Nodes.tagless_value)"""
    from ast import literal_eval
    if v[0] != "l" or v[1] is None:
        return v
    s = v[1]
    low = str(s).lower()
    try:
        if low in ("true", "false"):
            return ("l", literal_eval(str(s).title()))
        if isinstance(s, str):
            r = literal_eval(s)
            if isinstance(r, (list, dict, tuple, set)):
                raise Unjudged("container literal")
            return ("l", r)
    except (ValueError, SyntaxError):
        pass
    return v


def ref_array(pol, path, l, r, idkey_path):
    """Array policies (simple arrays and arrays of hashes)."""
    if l[0] != "s":
        raise Impossible("array into non-array")
    if not r[1]:
        return l
    if r[1][0][0] == "m":
        mode = pol.mode("aoh", path, AOH, "all")
        if mode == "left":
            return l
        if mode == "right":
            return r
        out = list(l[1])
        if mode == "all":
            return ("s", out + r[1])
        if mode == "unique":
            for e in r[1]:
                if not any(d_eq(e, x) for x in out):
                    out.append(e)
            return ("s", out)
        # deep: by identity key
        idk = pol.keys.get(idkey_path + "[0]") or pol.keys.get(idkey_path)
        first = r[1][0]
        if idk:
            idk = ("l", idk)
        elif first[1]:
            idk = first[1][0][0]
        else:
            idk = ("l", "")
        for n, e in enumerate(r[1]):
            if e[0] != "m":
                out.append(e)
                continue
            idv = p_get(e, idk)
            if idv is None:
                raise Impossible("record without identity key")
            hit = None
            for i, x in enumerate(out):
                if x[0] == "m" and p_get(x, idk) is not None and p_eq(typed(p_get(x, idk)), typed(idv)):
                    hit = i
                    break
            if hit is None:
                out.append(e)
            else:
                out[hit] = ref_hash_deep(pol, "%s[%d]" % (path, n), out[hit], e)
        return ("s", out)
    mode = pol.mode("arrays", path, ARRAYS, "all")
    if mode == "left":
        return l
    if mode == "right":
        return r
    if mode == "all":
        return ("s", l[1] + r[1])
    out = list(l[1])
    for e in r[1]:
        if any(p_eq(e, x) for x in out):
            out = [e if p_eq(e, x) else x for x in out]
        else:
            out.append(e)
    return ("s", out)


def ref_set(pol, path, l, r):
    if l[0] != "t":
        raise Impossible("set into non-set")
    mode = pol.mode("sets", path, SETS, "unique")
    if mode == "left":
        return l
    if mode == "right":
        return r
    # "Only RHS Set elements not already in LHS Sets are appended": a right-hand member is
    # "already in" the left Set when it equals a LEFT member with tags disregarded; the
    # right-hand members themselves are distinct members of the right-hand Set as the loader
    # presents it (`!t x` and `x` are two members), so each of the remaining ones is appended
    # once.  (r may also be a list / a single scalar wrapped by the caller: equal plain
    # elements are then one member.)
    added = []
    for e in r[1]:
        if any(p_eq(e, x) for x in l[1]):
            continue
        if any(same_member(e, x) for x in added):
            continue
        added.append(e)
    return ("t", list(l[1]) + added)


def ref_hash_deep(pol, path, l, r):
    """hash union: left keys keep their place; right-only keys are added."""
    if l[0] != "m":
        raise Impossible("hash into non-hash")
    vals = {}
    for k, rv in r[1]:
        lv = p_get(l, k)
        if lv is None:
            continue
        vals[id(k)] = ref_value(pol, path.rstrip("/") + "/" + seg(k), lv, rv)
    out = []
    for k, lv in l[1]:
        hit = [k2 for k2, _ in r[1] if p_eq(k, k2)]
        out.append((k, vals[id(hit[0])] if hit else lv))
    for k, rv in r[1]:
        if p_get(l, k) is None:
            out.append((k, rv))
    return ("m", out)


def ref_value(pol, path, l, r):
    """the value at a key both Hashes have"""
    if r[0] == "m":
        mode = pol.mode("hashes", path, HASHES, "deep")
        if mode == "left":
            return l
        if mode == "right":
            return r
        return ref_hash_deep(pol, path, l, r)
    if r[0] == "s":
        if r[1] and r[1][0][0] == "m":
            # the policy may stop before the shape is looked at
            mode = pol.mode("aoh", path, AOH, "all")
            if mode == "left":
                return l
            if mode == "right":
                return r
        elif pol.from_rule(path) and pol.rules[path].lower() in ("left", "right"):
            # a per-path rule left / right speaks for this very node whatever its type and, like the
            # Hash, Set and AoH policies above, decides before the shapes are looked at: nothing is merged
            return l if pol.rules[path].lower() == "left" else r
        return ref_array(pol, path, l, r, path)
    if r[0] == "t":
        mode = pol.mode("sets", path, SETS, "unique")
        if mode == "left":
            return l
        if mode == "right":
            return r
        return ref_set(pol, path, l, r)
    # right-hand scalars override -- unless a per-path rule says left
    if pol.from_rule(path) and pol.rules[path].lower() == "left":
        return l
    return r


def ref_root(pol, l, r):
    if r == ("l", None):
        return l
    if l == ("l", None):
        return r
    if r[0] == "m":
        if l[0] == "s":
            return ref_array(pol, "/", l, ("s", [r]), "/")
        if l[0] != "m":
            raise Impossible("hash into set / scalar")
        mode = pol.mode("hashes", "/", HASHES, "deep")
        return l if mode == "left" else r if mode == "right" else ref_hash_deep(pol, "/", l, r)
    if r[0] == "s":
        if l[0] == "s":
            return ref_array(pol, "/", l, r, "/")
        if l[0] == "t":
            if any(e[0] != "l" for e in r[1]):
                raise Impossible("non-scalars into set")
            # the Array's elements as a Set: equal elements are one member
            members = []
            for e in r[1]:
                if not any(same_member(e, x) for x in members):
                    members.append(e)
            return ref_set(pol, "/", l, ("t", members))
        raise Impossible("array into hash / scalar")
    if r[0] == "t":
        if l[0] == "s":
            return ref_array(pol, "/", l, ("s", r[1]), "/")
        if l[0] == "m":
            return ref_hash_deep(pol, "/", l, ("m", [(e, ("l", None)) for e in r[1]]))
        return ref_set(pol, "/", l, r)
    if l[0] == "s":
        return ("s", l[1] + [r])
    if l[0] == "t":
        if pol.mode("sets", "/", SETS, "unique") != "unique":
            # "RHS Sets replace / do not touch LHS Sets": there is no right-hand Set here; not stated
            raise Unjudged("scalar into set under sets=left|right")
        return ref_set(pol, "/", l, ("t", [r]))
    if l[0] == "m":
        raise Impossible("scalar into hash")
    return r


def same_layout(exp, got):
    """equal data; Hash: equal key sets, per-key values, and the keys of `exp`
    that come from the left keep their relative order (exp lists them first)."""
    if exp[0] != got[0]:
        return False
    if exp[0] == "l":
        return p_eq(exp, got)
    if exp[0] == "s":
        return len(exp[1]) == len(got[1]) and all(same_layout(a, b) for a, b in zip(exp[1], got[1]))
    if exp[0] == "t":
        return t_eq(exp, got)
    if len(exp[1]) != len(got[1]):
        return False
    for k, v in exp[1]:
        g = p_get(got, k)
        if g is None or not same_layout(v, g):
            return False
    return True


def left_order_kept(l, got):
    """every Hash of the left document found again at the same place keeps the
    relative order of its keys (checked at the root and recursively along keys)."""
    if l[0] == "m" and got[0] == "m":
        pos = []
        for k, v in l[1]:
            idx = [i for i, (k2, _) in enumerate(got[1]) if p_eq(k, k2)]
            if not idx:
                return False
            pos.append(idx[0])
            if not left_order_kept(v, got[1][idx[0]][1]):
                pass
        return pos == sorted(pos)
    return True


def invalid_option_text(case):
    """some option / rule text is no member of the enumeration it is given for"""
    lhs_t, rhs_t, opts, rules, keys, ini = case
    allowed = {"hashes": HASHES, "arrays": ARRAYS, "aoh": AOH, "sets": SETS}
    for src in (opts, ini or {}):
        for kind, names in allowed.items():
            v = src.get(kind)
            if v and str(v).lower() not in names:
                return True
    every = set(HASHES) | set(ARRAYS) | set(AOH) | set(SETS)
    return any(str(v).lower() not in every for v in (rules or {}).values() if v)


def rule_scope_failure(case, got):
    """A per-path rule governs only the node its path names.  Checked directly on the merged
    document: a right-hand Scalar under a key both Hashes have, which NO rule names and which the
    default policy lets override, must hold the right-hand value.  If it kept the left-hand value
    although a [rules] entry `left` names a SIBLING under the same parent, the rule leaked (CPython
    shares small ints, one-character strings, booleans and None: `{a: 1, b: 1}` holds ONE object
    twice, so a rule table matching by node identity alone - without the key - governs both)."""
    rules = case[3] or {}
    if not rules or _aoh_default(case) in ("left", "right"):
        return None                 # the second case is F-C05-1's territory: left to the reference policy
    pol = Policy(case)
    l = plain(load(case[0]))
    r = plain(load(case[1]))

    def sibling_rules(parent, own):
        pre = parent.rstrip("/") + "/"
        return [p for p, v in rules.items()
                if v and p != own and p.startswith(pre) and "/" not in p[len(pre):] and "[" not in p[len(pre):]]

    def walk(path, lv, rv, gv):
        if not (lv[0] == rv[0] == gv[0]):
            return None
        if rv[0] == "m":
            for k, rval in rv[1]:
                p = path.rstrip("/") + "/" + seg(k)
                lval, gval = p_get(lv, k), p_get(gv, k)
                if lval is None or gval is None:
                    continue
                if rval[0] == "l":
                    if pol.from_rule(p) or p_eq(lval, rval):
                        continue
                    if not p_eq(gval, rval) and p_eq(gval, lval):
                        sib = [q for q in sibling_rules(path, p) if rules[q].lower() == "left"]
                        if sib:
                            return ("the rule %s = left also governed its sibling %s (which no rule names): "
                                    "it kept %r instead of taking %r" % (sib[0], p, lval[1], rval[1]))
                elif rval[0] == "m":
                    if pol.mode("hashes", p, HASHES, "deep") == "deep":
                        m = walk(p, lval, rval, gval)
                        if m:
                            return m
                elif rval[0] == "s" and rval[1] and rval[1][0][0] == "m":
                    m = walk(p, lval, rval, gval)
                    if m:
                        return m
            return None
        if rv[0] == "s" and rv[1] and rv[1][0][0] == "m":
            if pol.mode("aoh", path, AOH, "all") != "deep":
                return None
            idk = pol.keys.get(path + "[0]") or pol.keys.get(path)
            idk = ("l", idk) if idk else (rv[1][0][1][0][0] if rv[1][0][1] else ("l", ""))

            def rec_of(seq, idv):
                for x in seq[1]:
                    if x[0] == "m" and p_get(x, idk) is not None and p_eq(typed(p_get(x, idk)), typed(idv)):
                        return x
                return None
            for n, e in enumerate(rv[1]):
                if e[0] != "m" or p_get(e, idk) is None:
                    continue
                lrec, grec = rec_of(lv, p_get(e, idk)), rec_of(gv, p_get(e, idk))
                if lrec is not None and grec is not None:
                    m = walk("%s[%d]" % (path, n), lrec, e, grec)
                    if m:
                        return m
        return None
    try:
        if r[0] == "m" and pol.mode("hashes", "/", HASHES, "deep") != "deep":
            return None             # the root Hash is kept / replaced as a whole
        return walk("/", l, r, got)
    except Unjudged:
        return None


def judge(case, obs):
    line = obs[0]
    if line == "(raise (crash NameError))" and invalid_option_text(case):
        return None                # a configuration error (unknown option text), wherever it is noticed
    if line.startswith("(raise (crash"):
        try:
            Policy(case)
            expected(case)
        except Unjudged:
            return None            # an option text outside the enums: a configuration error, not a merge
        except Impossible:
            pass
        return "merge ended in %s (neither a document nor a MergeException)" % line
    try:
        exp = expected(case)
    except Impossible as e:
        if line == "(raise mergeexc)":
            return None
        return "structurally impossible merge (%s) was not reported as MergeException: %s" % (e, line[:80])
    except Unjudged:
        return None
    if line == "(raise mergeexc)":
        return "a possible merge was refused with MergeException"
    if not line.startswith("(ok"):
        return "merge ended in %s" % line
    got = plain_of_line(line)
    leak = rule_scope_failure(case, got)
    if leak:
        return leak
    if not same_layout(exp, got):
        return "merged document differs from the policy-defined result: expected %r got %r" % (exp, got)
    l = plain(load(case[0]))
    if exp is not None and exp[0] == "m" and l[0] == "m" and not hash_replaced(case) and not left_order_kept(l, got):
        return "left-hand keys lost their relative order"
    return None


def hash_replaced(case):
    pol = Policy(case)
    try:
        return pol.mode("hashes", "/", HASHES, "deep") == "right"
    except Unjudged:
        return True


def expected(case):
    pol = Policy(case)
    l = plain(load(case[0]))
    r = plain(load(case[1]))
    return ref_root(pol, l, r)


def plain_of_line(line):
    from common import sexp_parse, unhex
    sx = sexp_parse(line)[1]

    def val(p):
        if p == "none":
            return None
        if p[0] == "b":
            return p[1] == "true"
        if p[0] == "i":
            return int(p[1][1:])
        if p[0] == "f":
            return int(p[1][1:]) / int(p[2][1:])
        return unhex(p[1])

    def go(n):
        if n[0] == "L":
            if n[5][0] == "o" and n[4] != "none":
                return ("l", val(n[5]), unhex(n[4]))      # a TaggedScalar: text and tag
            return ("l", val(n[5]))
        if n[0] == "M":
            return ("m", [(go(k), go(v)) for k, v in n[5]])
        return ("s" if n[0] == "S" else "t", [go(e) for e in n[5]])
    return go(sx)


# ---------------------------------------------------------------- findings
def _aoh_default(case):
    opts, ini = case[2], case[5] or {}
    return (opts.get("aoh") or ini.get("aoh") or "all").lower()


def aoh_default_governs_non_aoh(case, obs):
    """F-C05-1: the aoh option (CLI / [defaults]) is left or right and the two
    documents hold, at a key both Hashes have, a right-hand value that is no
    Array-of-Hashes (a Scalar or a plain Array) and no rule names it."""
    if _aoh_default(case) not in ("left", "right"):
        return False
    return aoh_governs_docs(case, load(case[0]), load(case[1]))


def aoh_governs_docs(case, l, r):
    """the shape test of F-C05-1 on two loaded documents (C10 also applies it to the pair
    the anchor policy hands to the merge proper: replacing an anchored KEY can make a key common)"""
    rules = case[3] or {}

    def walk(lv, rv, path):
        if isinstance(lv, dict) and isinstance(rv, dict):
            for k, v in rv.items():
                if k in lv:
                    p = path.rstrip("/") + "/" + str(k)
                    if not isinstance(v, (dict,)) and not docenc.is_set(v):
                        is_aoh = isinstance(v, list) and len(v) > 0 and isinstance(v[0], dict)
                        if not is_aoh and not rules.get(p):
                            return True
                    if walk(lv[k], v, p):
                        return True
        if isinstance(lv, list) and isinstance(rv, list):
            # a right-hand record is merged (aoh=deep) into a left record or into a right-hand
            # record appended before it
            pool = list(lv)
            for e in rv:
                for x in pool:
                    if isinstance(e, dict) and isinstance(x, dict) and walk(x, e, path):
                        return True
                pool.append(e)
        return False
    if isinstance(l, list) and isinstance(r, dict):
        return any(isinstance(x, dict) and walk(x, r, "/") for x in l)
    if isinstance(l, dict) and docenc.is_set(r):
        # a Set merged into a Hash: its members become keys holding null Scalars (_insert_set)
        return any(m in l for m in r)
    return walk(l, r, "/")


FINDING_PREDS = {"aoh_default_governs_non_aoh": aoh_default_governs_non_aoh}


# ---------------------------------------------------------------- generators
LEAVES = ["1", "2", "x", "'1'", "~"]
KEYS = ["a", "b", "id"]
MEMBERS = ["x", "y", "1"]


def docs_of_size(n, memo={}):
    """flow-style YAML texts of documents with exactly n nodes (keys are free)."""
    if n in memo:
        return memo[n]
    out = []
    if n == 1:
        out = list(LEAVES) + ["{}", "[]", "!!set {}"]
    else:
        # sequences: compositions of n-1 into parts
        for parts in compositions(n - 1, 3):
            for combo in itertools.product(*[docs_of_size(p) for p in parts]):
                out.append("[" + ", ".join(combo) + "]")
        # maps: distinct keys in order
        for parts in compositions(n - 1, 2):
            for ks in itertools.permutations(KEYS, len(parts)):
                for combo in itertools.product(*[docs_of_size(p) for p in parts]):
                    out.append("{" + ", ".join("%s: %s" % kv for kv in zip(ks, combo)) + "}")
        # sets of members
        if n - 1 <= 2:
            for ms in itertools.permutations(MEMBERS, n - 1):
                out.append("!!set {" + ", ".join(ms) + "}")
    memo[n] = out
    return out


def compositions(total, maxparts):
    if total == 0:
        return
    for k in range(1, maxparts + 1):
        for cuts in itertools.combinations(range(1, total), k - 1):
            b = (0,) + cuts + (total,)
            yield tuple(b[i + 1] - b[i] for i in range(k))


ALL_COMBOS = [dict(hashes=h, arrays=a, aoh=o, sets=s)
              for h in HASHES for a in ARRAYS for o in AOH for s in SETS]


def rand_doc(rng, depth=0, want=None):
    kind = want or rng.choice(["m", "m", "s", "s", "aoh", "t", "l", "l"] if depth < 3 else ["l"])
    if kind == "l":
        return rng.choice(LEAVES + ["y", "3", "true", "1.5", "!t x", "!t 1"])
    if kind == "t":
        return "!!set {" + ", ".join(rng.sample(MEMBERS + ["z", "!t x"], rng.randint(0, 3))) + "}"
    if kind == "s":
        return "[" + ", ".join(rand_doc(rng, depth + 1, rng.choice(["l", "l", "l", "s", "m"]))
                               for _ in range(rng.randint(0, 4))) + "]"
    if kind == "aoh":
        recs = []
        for _ in range(rng.randint(1, 3)):
            ks = ["id"] + rng.sample(["a", "b", "n"], rng.randint(0, 2))
            if rng.random() < 0.15:
                ks = ks[1:] or ["a"]
            rng.random() < 0.3 and rng.shuffle(ks)
            recs.append("{" + ", ".join("%s: %s" % (k, rng.choice(["1", "2", "'1'", "x"]) if k == "id"
                                                    else rand_doc(rng, depth + 2)) for k in ks) + "}")
        if rng.random() < 0.15:
            recs.insert(rng.randint(1, len(recs)), rng.choice(["5", "[1]", "~"]))
        return "[" + ", ".join(recs) + "]"
    ks = rng.sample(KEYS + ["c", "1"], rng.randint(0, 4))
    return "{" + ", ".join("%s: %s" % (k, rand_doc(rng, depth + 1)) for k in ks) + "}"


def paths_of(text):
    """YAML Paths of the right-hand document's nodes (for [rules] / [keys])."""
    data = load(text)
    out = []

    def go(x, p):
        out.append((p or "/", x))
        if isinstance(x, dict):
            for k, v in x.items():
                if isinstance(k, str) and k.isalnum():
                    go(v, p + "/" + k)
        elif isinstance(x, list):
            for i, e in enumerate(x):
                go(e, "%s[%d]" % (p, i))
    go(data, "")
    return out


def rand_rules(rng, rhs_text):
    rules = {}
    keys = {}
    for p, x in paths_of(rhs_text):
        if p == "/":
            continue
        if rng.random() < 0.3:
            if isinstance(x, dict):
                rules[p] = rng.choice(HASHES)
            elif docenc.is_set(x):
                rules[p] = rng.choice(SETS)
            elif isinstance(x, list) and x and isinstance(x[0], dict):
                rules[p] = rng.choice(AOH)
            elif isinstance(x, list):
                rules[p] = rng.choice(("all", "left", "right", "unique"))
            else:
                rules[p] = rng.choice(("left", "right"))
        if isinstance(x, list) and x and isinstance(x[0], dict) and rng.random() < 0.5:
            keys[p] = rng.choice(["id", "id", "a", "n"])
    return rules, keys


SHARED = ["1", "2", "0", "x", "y", "~", "true", "false"]     # CPython / ruamel hand out ONE object for each


def shared_sibling_case(rng):
    """A right-hand Hash holding the SAME interned Scalar under two (or three) keys, every one of
    them changing the left-hand value, with a [rules] entry naming exactly one of them and a default
    policy that decides otherwise; the Hash is the merge target itself, sits under a key, or is a
    record of an Array-of-Hashes merged DEEP (with and without a [keys] entry); besides Scalars the
    equal siblings are also equal small Arrays / Hashes / Arrays-of-Hashes (distinct objects)."""
    s = rng.choice(SHARED)
    others = [x for x in SHARED + ["5", "6", "'7'"] if x != s]
    ks = rng.sample(["a", "b", "c"], rng.choice([2, 2, 3]))
    shape = rng.choice(["l", "l", "l", "l", "s", "m", "aoh"])
    wrap = {"l": "%s", "s": "[%s]", "m": "{k: %s}", "aoh": "[{id: 4, v: %s}]"}[shape]
    rvals = {k: wrap % s for k in ks}
    lvals = {k: wrap % rng.choice(others) for k in ks}
    if rng.random() < 0.3:
        extra = rng.choice(["d", "id"])
        rvals[extra] = rng.choice(others)          # a further key with another object
        lvals[extra] = rng.choice(others)
    if rng.random() < 0.2:
        del lvals[ks[-1]]                          # the sibling is new on the left: nothing to observe there
    named = ks[0] if rng.random() < 0.7 else rng.choice(ks)
    ctx = rng.choice(["root", "root", "key", "key2", "aoh", "aohkey", "aohroot"])
    opts = {}
    keys = None

    def hash_text(vals, idv=None):
        items = (["id: %s" % idv] if idv is not None else []) + ["%s: %s" % kv for kv in vals.items()]
        return "{" + ", ".join(items) + "}"
    if ctx == "root":
        lt, rt, base = hash_text(lvals), hash_text(rvals), ""
    elif ctx == "key":
        lt, rt, base = "{p: %s, q: 1}" % hash_text(lvals), "{p: %s}" % hash_text(rvals), "/p"
    elif ctx == "key2":
        lt, rt, base = "{p: {q: %s}}" % hash_text(lvals), "{p: {q: %s}, a: 1}" % hash_text(rvals), "/p/q"
    else:
        idv = rng.choice(["9", "8", "k"])
        lvals.pop("id", None)
        rvals.pop("id", None)
        lrec, rrec = hash_text(lvals, idv), hash_text(rvals, idv)
        more = rng.choice(["", "", ", {id: 3, a: 1}"])
        opts["aoh"] = "deep"
        if ctx == "aohroot":
            lt, rt, base = "[%s]" % lrec, "[%s%s]" % (rrec, more), "/[0]"
        else:
            lt, rt, base = "{l: [%s]}" % lrec, "{l: [%s%s]}" % (rrec, more), "/l[0]"
            if ctx == "aohkey":
                keys = {rng.choice(["/l", "/l[0]"]): "id"}
    path = base + "/" + named
    text = "left"
    if shape == "l":
        if rng.random() < 0.12:
            opts["aoh"] = "left"                   # F-C05-1's territory: the rule says right, the default freezes
            text = "right"
    elif shape == "s":
        opts["arrays"] = rng.choice(["all", "unique", "right"])
        text = rng.choice(["left", "left", "right", "all"])
    elif shape == "m":
        opts["hashes"] = rng.choice(["deep", "right"])
        text = rng.choice(["left", "left", "right"])
    else:
        if "aoh" not in opts:
            opts["aoh"] = rng.choice(["all", "unique", "right", "deep"])
        text = rng.choice(["left", "left", "right", "all"])
    rules = {path: text}
    if rng.random() < 0.15:
        rules[base + "/" + rng.choice(ks)] = rng.choice(["left", "right"])
    return (lt, rt, opts, rules, keys, None)


def equal_aoh_keys_case(rng):
    """Two or three right-hand Arrays-of-Hashes of EQUAL content under sibling keys, a [keys] entry naming exactly
    one of them, merged DEEP: the named one is identified by the entry, every other one by its own first key (seed
    C05_4: the entry leaked to the equal-content Arrays through an == on the parent)."""
    k1, k2 = rng.sample(["n", "id", "a"], 2)       # k1: first key of the records (the default identity); k2: the entry
    v = rng.choice(["1", "x", "7"])
    a, b = rng.sample(["A", "B", "3", "4"], 2)
    rrec = "{%s: %s, %s: %s, v: 1}" % (k1, v, k2, a)
    lrec = "{%s: %s, %s: %s, v: 0}" % (k1, v, k2, b)
    more = rng.choice(["", "", ", {%s: 9, %s: 9}" % (k1, k2)])
    names = rng.sample(["x", "y", "z"], rng.choice([2, 2, 3]))
    named = rng.choice(names)
    lt = "{%s}" % ", ".join("%s: [%s]" % (n, lrec) for n in names)
    rt = "{%s}" % ", ".join("%s: [%s%s]" % (n, rrec, more) for n in names)
    base = ""
    if rng.random() < 0.4:
        lt, rt, base = "{p: %s, q: 1}" % lt, "{p: %s}" % rt, "/p"
    keys = {base + "/" + named + rng.choice(["", "", "[0]"]): k2}
    opts = {"aoh": "deep"}
    rules = None
    if rng.random() < 0.3:
        opts = {}
        rules = {base + "/" + n: "deep" for n in names}
    return (lt, rt, opts, rules, keys, None)


def chunks(tier, seed):
    rng = random.Random(seed)
    size = 400
    buf = []

    def emit(case):
        buf.append(case)
        if len(buf) >= size:
            out = list(buf)
            del buf[:]
            return out
        return None

    core = docs_of_size(1) + docs_of_size(2)
    three = docs_of_size(3)
    four = docs_of_size(4)
    small = core + three
    nmix = 8 if tier == "quick" else 40
    for l in core:
        for r in core:
            mixes = [dict()] + rng.sample(ALL_COMBOS, nmix)
            for o in mixes:
                c = emit((l, r, o, None, None, None))
                if c:
                    yield c
    n3 = 12000 if tier == "quick" else 200000
    for _ in range(n3):
        l = rng.choice(three if rng.random() < 0.7 else core)
        r = rng.choice(three if rng.random() < 0.7 else core)
        c = emit((l, r, rng.choice(ALL_COMBOS), None, None, None))
        if c:
            yield c
    n4 = 6000 if tier == "quick" else 100000
    for _ in range(n4):
        l = rng.choice(four if rng.random() < 0.7 else small)
        r = rng.choice(four if rng.random() < 0.7 else small)
        c = emit((l, r, rng.choice(ALL_COMBOS), None, None, None))
        if c:
            yield c
    nshared = 3000 if tier == "quick" else 40000
    for _ in range(nshared):
        c = emit(shared_sibling_case(rng))
        if c:
            yield c
    for _ in range(600 if tier == "quick" else 6000):
        c = emit(equal_aoh_keys_case(rng))
        if c:
            yield c
    nrand = 12000 if tier == "quick" else 150000
    for i in range(nrand):
        top = rng.choice(["m", "m", "m", "s", "aoh", "t"])
        l = rand_doc(rng, 0, top)
        r = rand_doc(rng, 0, top if rng.random() < 0.85 else None)
        o = dict(rng.choice(ALL_COMBOS))
        for k in list(o):
            if rng.random() < 0.4:
                del o[k]
        rules = keys = ini = None
        if i % 2 == 0:
            rules, keys = rand_rules(rng, r)
        if i % 5 == 0:
            ini = {k: rng.choice({"hashes": HASHES, "arrays": ARRAYS, "aoh": AOH, "sets": SETS}[k])
                   for k in rng.sample(["hashes", "arrays", "aoh", "sets"], 2)}
        if i % 50 == 7:
            # malformed stream: texts that are no member of the enum they reach
            if rng.random() < 0.5:
                o[rng.choice(["hashes", "arrays", "aoh", "sets"])] = rng.choice(["bogus", "unique", "deep", "all", "LEFT"])
            elif rules:
                rules[rng.choice(list(rules))] = rng.choice(["bogus", "deep", "all", "unique", "Right"])
        c = emit((l, r, o, rules, keys, ini))
        if c:
            yield c
    if buf:
        yield buf


def corpus_chunks():
    yield [
        ("{a: 1}", "{a: []}", {}, None, None, None),                       # DESIGN #17
        ("{a: {b: 1}}", "{a: []}", {}, None, None, None),
        ("{x: {k: [0]}, y: {k: [0]}}", "{x: {k: [1]}, y: {k: [1]}}", {}, {"/x/k": "left"}, None, None),
        ("[1]", "[3, 3]", {"arrays": "unique"}, None, None, None),
        ("{a: [{id: 1}]}", "{a: [{id: 1}, 5]}", {"aoh": "deep"}, None, None, None),
        ("{a: [{id: 1}]}", "{a: [{id: 1}, {7: 2}]}", {"aoh": "deep"}, None, None, None),
        ("[{a: 1}]", "[{b: 2}]", {"aoh": "left"}, None, None, None),
        ("[{a: 1}]", "[{b: 2}]", {"aoh": "right"}, None, None, None),
        ("{a: {x: 1}}", "{a: !!set {y}}", {}, None, None, None),
        ("1", "!!set {y}", {}, None, None, None),
        ("!!set {a}", "[[1]]", {}, None, None, None),
        ("5", "6", {}, None, None, None),
        ("5", "{a: 1}", {"hashes": "left"}, None, None, None),
        ("{a: 1}", "{a: 2}", {"aoh": "left"}, None, None, None),           # known finding F-C05-1
        ("{a: [1]}", "{a: [2]}", {"aoh": "right", "arrays": "left"}, None, None, None),
        # a rule names /a only; /b holds the very same interned object under the same parent
        ("{a: 5, b: 6}", "{a: 1, b: 1}", {}, {"/a": "left"}, None, None),
        ("{p: {a: 5, b: 6}}", "{p: {a: x, b: x}}", {}, {"/p/a": "left"}, None, None),
        ("{l: [{id: 9, a: 5, b: 6}]}", "{l: [{id: 9, a: ~, b: ~}]}", {"aoh": "deep"}, {"/l[0]/a": "left"},
         {"/l": "id"}, None),
        ("[{id: 9, a: 5, b: 6}]", "[{id: 9, a: true, b: true}]", {"aoh": "deep"}, {"/[0]/b": "left"}, None, None),
    ]


# ---------------------------------------------------------------- bookkeeping
def case_key(case):
    l, r, o, rules, keys, ini = case
    return (l, r, tuple(sorted(o.items())), tuple(sorted((rules or {}).items())),
            tuple(sorted((keys or {}).items())), tuple(sorted((ini or {}).items())))


key = case_key


def kind_of(text):
    t = text.lstrip()
    return "M" if t.startswith("{") else "S" if t.startswith("[") else "T" if t.startswith("!!set") else "L"


def classify(case, obs):
    o = obs[0]
    res = "ok" if o.startswith("(ok") else "mergeexc" if o == "(raise mergeexc)" else "other"
    return "%s+%s:%s%s" % (kind_of(case[0]), kind_of(case[1]), res, ":rules" if case[3] or case[4] else "")


def nontrivial(case, obs):
    return kind_of(case[0]) != "L" and kind_of(case[1]) != "L"


def describe(case):
    l, r, o, rules, keys, ini = case
    return {"lhs": l, "rhs": r, "options": o, "rules": rules, "keys": keys, "ini": ini}


def undescribe(d):
    return (d["lhs"], d["rhs"], d["options"], d["rules"], d["keys"], d["ini"])
