"""C06: a diff is truthful and complete; it is empty of changes iff the data are equal.

Case = (lhs YAML text, rhs YAML text, same_object flag, optional INI
configuration text).  For every case the real Differ is run in-process under
all 2 x 5 combinations of --arrays {position,value} x --aoh
{position,dpos,value,key,deep} (plus the configuration's rules / keys when
given); the two synchronisers are called directly; print_report gives the exit
state.  Observations per case (one line each, same order as the requests):
  10 x (diff cfg lhs rhs)  ->  (ok i<exit> (<sorted entries>)) | (raise ...)
  (valeq lhs rhs) + (valeq l r) for the facing children: Differ._same_data
  (syncval lhs rhs), (synckey cfg lhs rhs)  when both roots are sequences
  (report ...) for the print_report selection
An entry is (action, path as PARSED SEGMENTS, lhs data, rhs data); entries are
compared as a multiset (sorted), never in the order Python's set differences
happen to produce.
"""
import configparser
import itertools
import json
import random
from types import SimpleNamespace

from common import hexs, exc_line
import docenc

CONFIG = {
    "id": "C06",
    "rule": ("pairs of documents: (i) exhaustive over all pairs of small documents (<= 3 nodes each, <= 5 together; "
             "thorough: <= 4 each, <= 6 together) over leaves {null,1,'a'}, keys {a,b}, maps/seqs/sets; (ii) seeded "
             "random documents (depth <= 4, nulls, empty containers, duplicates, Array-of-Hashes with and without the "
             "identity key, sets, floats/bools/dates) paired as identical (two loads / one object), derived by random "
             "insert-delete-replace-reorder-retype edits, or unrelated; (iii) separate streams for the known-finding "
             "domains and the repaired ones (tagged scalars / tagged mappings and sequences, re-ordered record keys, odd "
             "mapping keys, null facing a container at the root and below it, records without identity key) and for "
             "per-path rules / identity keys from a configuration (incl. a stream of rules naming lists nested directly "
             "inside positionally compared lists, judged by a reading of the configuration text independent of DifferConfig); "
             "every case under all 10 (--arrays x --aoh) combinations.  non-trivial = the two documents are not both "
             "scalars; distinct = distinct (lhs text, rhs text, config) (hash set)."),
    "trusted_base": [
        "modelled, not verified: yamlpath/differ/differ.py (all of Differ except the EYAML decryption branch of "
        "_diff_scalars and DiffEntry's sort index), differconfig.py lookups (array_diff_mode, aoh_diff_mode, "
        "aoh_diff_key, _get_config_for), yaml_diff.py print_report / exit state",
        "DifferConfig.prepare (Processor.get_nodes over the [rules]/[keys] paths) is NOT modelled: its resolved "
        "tables are read from the real object and shipped to the model as input",
        "YAMLPath.__eq__ inside the pop-a-DELETE step is a Section variable in the proofs (any function) and the "
        "parser/printer models (C14) in the executable model",
        "e_loc (structural location) is a ghost field of the model's entries; that the entry's path TEXT resolves to "
        "that location is checked on the real code by the judge (real Processor.get_nodes on each reported path), "
        "not proved",
        "Python == on ruamel nodes (key lookups, set membership, the fall-through of Differ._same_data) is modelled "
        "by Diff.node_eq (dict equality, list equality, abc.Set equality, TaggedScalar identity); Differ._same_data "
        "itself is Diff.val_eq, compared directly on the root pair and the facing children of every case; NaN/inf, "
        "YAML merge keys, anchors/aliases with cycles, tuple keys are outside the generators",
    ],
    "assumptions": [
        "documents are real loaded dicts/sets: unique untagged scalar keys and members, and a CommentedSet carries "
        "no tag (wf_doc; the judge reports a set with a tag as a violation of this assumption)",
        "get_report is a permutation of Differ._diffs (sorting by loader line numbers is not modelled)",
        "invalid --arrays/--aoh/config mode names (NameError in from_str) are outside the compared domain",
    ],
}

ARRAYS = ("position", "value")
AOHS = ("position", "dpos", "value", "key", "deep")
COMBOS = [(a, h) for a in ARRAYS for h in AOHS]

_E = {}


def init_worker():
    from yamlpath.differ import Differ, DifferConfig
    from yamlpath.differ.enums import DiffActions, ArrayDiffOpts, AoHDiffOpts
    from yamlpath.wrappers import ConsolePrinter, NodeCoords
    from yamlpath.common import Parsers
    from yamlpath import Processor, YAMLPath
    from yamlpath.commands import yaml_diff
    from yamlpath.path import SearchTerms, SearchKeywordTerms, CollectorTerms
    from ruamel.yaml.comments import CommentedMap, CommentedSeq, CommentedSet, TaggedScalar
    log = ConsolePrinter(SimpleNamespace(quiet=True, verbose=False, debug=False))
    _E.update(Differ=Differ, DifferConfig=DifferConfig, DiffActions=DiffActions, log=log, Parsers=Parsers,
              Processor=Processor, YAMLPath=YAMLPath, yaml_diff=yaml_diff, CommentedMap=CommentedMap,
              CommentedSeq=CommentedSeq, CommentedSet=CommentedSet, TaggedScalar=TaggedScalar,
              SearchTerms=SearchTerms, SearchKeywordTerms=SearchKeywordTerms, CollectorTerms=CollectorTerms,
              ArrayDiffOpts=ArrayDiffOpts, AoHDiffOpts=AoHDiffOpts, NodeCoords=NodeCoords,
              sym={DiffActions.SAME: "s", DiffActions.CHANGE: "c", DiffActions.DELETE: "d", DiffActions.ADD: "a"})


# --------------------------------------------------------------------------
# generated documents: nested tuples -> YAML text
#   ("m", tag|None, [(key, value), ...])   ("s", tag|None, [value, ...])   ("t", [member, ...])
#   ("x", tag, text)  tagged scalar        ("raw", yaml_text)  e.g. a date
#   None / bool / int / float / str  plain scalars

def yscalar(v):
    if v is None:
        return "null"
    if v is True:
        return "true"
    if v is False:
        return "false"
    if isinstance(v, (int, float)):
        return repr(v)
    if isinstance(v, str):
        return json.dumps(v)
    if isinstance(v, tuple) and v[0] == "x":
        return "!%s %s" % (v[1], json.dumps(v[2]))
    if isinstance(v, tuple) and v[0] == "raw":
        return v[1]
    raise ValueError(v)


def to_yaml(d):
    if isinstance(d, tuple) and d[0] == "m":
        body = "{" + ", ".join("%s: %s" % (yscalar(k), to_yaml(v)) for k, v in d[2]) + "}"
        return ("!%s " % d[1] if d[1] else "") + body
    if isinstance(d, tuple) and d[0] == "s":
        body = "[" + ", ".join(to_yaml(v) for v in d[2]) + "]"
        return ("!%s " % d[1] if d[1] else "") + body
    if isinstance(d, tuple) and d[0] == "t":
        return "!!set {" + ", ".join(yscalar(v) for v in d[1]) + "}"
    return yscalar(d)


def load(text):
    return _E["Parsers"].get_yaml_editor().load(text)


class Enc(docenc.Encoder):
    """The shared encoder marks a ScalarBoolean (an anchored boolean) with the
    YAML bool tag - a convention of the evaluator models.  The Differ asks
    `hasattr(node, "tag")`, which a ScalarBoolean does not have: encode it as
    the untagged int-valued leaf it is for ==."""

    def info(self, x):
        if type(x).__name__ == "ScalarBoolean":
            anc = None
            try:
                anc = x.anchor.value
            except Exception:  # noqa
                anc = None
            return "i%d %s true none" % (self.oid(x), "none" if anc is None else hexs(anc))
        return docenc.Encoder.info(self, x)


# --------------------------------------------------------------------------
# canonical observation forms

def kind(x):
    E = _E
    if isinstance(x, E["CommentedMap"]) or isinstance(x, dict):
        return "M"
    if isinstance(x, E["CommentedSeq"]) or isinstance(x, list):
        return "S"
    if isinstance(x, E["CommentedSet"]) or isinstance(x, (set, frozenset)):
        return "T"
    return "L"


def data_sexp(x):
    k = kind(x)
    if k == "M":
        return "(M (%s))" % " ".join("(%s %s)" % (data_sexp(a), data_sexp(b)) for a, b in x.items())
    if k == "S":
        return "(S (%s))" % " ".join(data_sexp(e) for e in x)
    if k == "T":
        return "(T (%s))" % " ".join(data_sexp(e) for e in x)
    return "(L %s)" % docenc.pyval_sexp(x)


def seg_line(seg):
    E = _E
    t, a = seg
    tn = "NONE" if t is None else t.name
    if isinstance(a, E["SearchTerms"]):
        av = "(search %s %s %s %s)" % ("true" if a.inverted else "false", a.method.name,
                                       hexs(a.attribute), hexs(a.term))
    elif isinstance(a, E["SearchKeywordTerms"]):
        av = "(kw %s %s %s)" % ("true" if a.inverted else "false", a.keyword.name, hexs(a._parameters))
    elif isinstance(a, E["CollectorTerms"]):
        av = "(coll %s %s)" % (a.operation.name, hexs(a.expression))
    elif a is None:
        av = "none"
    elif isinstance(a, bool):
        av = "?bool"
    elif isinstance(a, int):
        av = "i%d" % a
    elif isinstance(a, str):
        av = hexs(a)
    else:
        av = "?%s" % type(a).__name__
    return "(%s %s)" % (tn, av)


def path_sexp(p):
    from yamlpath.exceptions import YAMLPathException
    try:
        return "(ok (%s))" % " ".join(seg_line(s) for s in p.escaped)
    except YAMLPathException:
        return "(raise ype)"
    except Exception as e:  # noqa
        return exc_line(e)


def entry_sexp(e):
    return "(%s %s %s %s)" % (_E["sym"][e.action], path_sexp(e.path), data_sexp(e.lhs), data_sexp(e._rhs))


class _ReportLog:
    """Stand-in for the ConsolePrinter handed to print_report."""

    def __init__(self):
        self.printed = []

    def info(self, x):
        if not isinstance(x, str):
            self.printed.append(x)


def make_config(arrays, aoh, cfgtext):
    cfg = _E["DifferConfig"](_E["log"], SimpleNamespace(arrays=arrays, aoh=aoh))
    if cfgtext is not None:
        cp = configparser.ConfigParser()
        cp.read_string(cfgtext)
        if cp.sections():          # as DifferConfig._load_config does
            cfg.config = cp
    return cfg


def cfg_sexp(cfg, arrays, aoh, enc):
    def opt(s):
        return "none" if s is None else hexs(str(s))

    def table(d):
        out = []
        for nc, val in d.items():
            out.append("(%s %s %s %s)" % (enc.node(nc.node), "none" if nc.parent is None else enc.node(nc.parent),
                                          docenc.pyval_sexp(nc.parentref), hexs(str(val))))
        return "(" + " ".join(out) + ")"
    has = cfg.config is not None
    da = dh = None
    if has and "defaults" in cfg.config:
        if "arrays" in cfg.config["defaults"]:
            da = cfg.config["defaults"]["arrays"]
        if "aoh" in cfg.config["defaults"]:
            dh = cfg.config["defaults"]["aoh"]
    return "(cfg %s %s %s %s %s %s %s)" % ("true" if has else "false", opt(arrays), opt(aoh), opt(da), opt(dh),
                                           table(cfg.rules), table(cfg.keys))


# --------------------------------------------------------------------------
# the property evaluated on the real entries and the two real documents

def is_tagged(x):
    return isinstance(x, _E["TaggedScalar"])


def tagval(x):
    t = getattr(x, "tag", None)
    v = getattr(t, "value", None)
    return v if isinstance(v, str) and v else None


def deq(a, b):
    """Equal as data: mapping key order is not data, sequence order is, tags are."""
    ka, kb = kind(a), kind(b)
    if ka != kb:
        return False
    if ka == "L":
        if is_tagged(a) or is_tagged(b):
            return is_tagged(a) and is_tagged(b) and tagval(a) == tagval(b) and a.value == b.value
        return bool(a == b)
    if tagval(a) != tagval(b):
        return False
    if ka == "M":
        return len(a) == len(b) and all(k in b and deq(a[k], b[k]) for k in a)
    if ka == "S":
        return len(a) == len(b) and all(deq(x, y) for x, y in zip(a, b))
    return len(a) == len(b) and all(k in b for k in a)


def bag_eq(a, b, eq):
    rest = list(b)
    for x in a:
        for i, y in enumerate(rest):
            if eq(x, y):
                del rest[i]
                break
        else:
            return False
    return not rest


def is_aoh(seq):
    return len(seq) > 0 and all(kind(e) == "M" for e in seq)


def equiv(a, b, fam):
    """Equal as data with sequence order disregarded the way mode family `fam`
    documents it: 'value' = every sequence is a bag of whole (exactly compared)
    elements; 'key' / 'deep' = every Array-of-Hashes is a bag of records
    (compared exactly / recursively), other sequences positional."""
    ka, kb = kind(a), kind(b)
    if ka != kb:
        return False
    if ka == "L" or ka == "T":
        return deq(a, b)
    if tagval(a) != tagval(b):
        return False
    if ka == "M":
        return len(a) == len(b) and all(k in b and equiv(a[k], b[k], fam) for k in a)
    if fam == "value":
        return bag_eq(a, b, deq)
    if is_aoh(a) and is_aoh(b):
        if fam == "key":
            return bag_eq(a, b, deq)
        return bag_eq(a, b, lambda x, y: equiv(x, y, fam))
    return len(a) == len(b) and all(equiv(x, y, fam) for x, y in zip(a, b))


class _Undecided(Exception):
    pass


def ruled_equiv(lhs, rhs, arrays, aoh, cfgtext):
    """Equal as data under the readings the CONFIGURATION TEXT asks for, decided
    without DifferConfig: a [rules] entry names, by its YAML Path in the
    right-hand document, the list it applies to - wherever that list sits,
    directly inside another list included - and takes precedence over the
    command-line mode, which takes precedence over [defaults], which takes
    precedence over `position`.  Readings: position = element by element (an
    Array-of-Hashes under --aoh position: whole records); value = a bag of
    whole elements.  Returns True / False, or None when this judge does not
    decide: an identity-key mode (key / deep, finding F4's territory) is met,
    a mode name is invalid, two rules name one list, or a ruled list has an
    equal twin at equal coordinates (the lookup of the code compares with ==)."""
    cp = configparser.ConfigParser()
    try:
        cp.read_string(cfgtext)
    except Exception:  # noqa
        return None
    if not cp.sections():
        return None
    targets = []
    if "rules" in cp:
        for path, text in cp["rules"].items():
            if "=" in text:
                return None
            try:
                found = resolve(rhs, _E["YAMLPath"](path))
            except Exception:  # noqa
                continue            # the rule matches nothing
            targets.extend((f, text) for f in found if kind(f.node) == "S")
    da = cp["defaults"].get("arrays") if "defaults" in cp else None
    dh = cp["defaults"].get("aoh") if "defaults" in cp else None

    def rule_for(r, parent, ref):
        hits = [t for f, t in targets if f.node is r]
        twins = [t for f, t in targets if f.node is not r and f.node == r and f.parent == parent and _refeq(f.parentref, ref)]
        if len(hits) > 1 or twins:
            raise _Undecided()
        return hits[0] if hits else ""

    def valid(name, names):
        if name.lower() not in names:
            raise _Undecided()
        return name.lower()

    def arr_mode(rule):
        if rule and rule.lower() in ARRAYS:
            return rule.lower()
        return valid(arrays or da or "position", ARRAYS)

    def aoh_mode(rule):
        return valid(rule or aoh or dh or "position", AOHS)

    def eqv(a, b, parent, ref):
        ka, kb = kind(a), kind(b)
        if ka != kb:
            return False
        if ka == "L" or ka == "T":
            return deq(a, b)
        if tagval(a) != tagval(b):
            return False
        if ka == "M":
            return len(a) == len(b) and all(k in b and eqv(a[k], b[k], b, k) for k in a)
        rule = rule_for(b, parent, ref)
        deep = True
        if len(b) > 0 and kind(b[0]) == "M":
            hm = aoh_mode(rule)
            if hm in ("key", "deep"):
                raise _Undecided()
            if hm == "value":
                return bag_eq(a, b, deq)
            deep = hm == "dpos"
        if arr_mode(rule) == "value":
            return bag_eq(a, b, deq)
        if not deep:
            return deq(a, b)
        return len(a) == len(b) and all(eqv(x, y, b, i) for i, (x, y) in enumerate(zip(a, b)))

    try:
        return eqv(lhs, rhs, None, None)
    except _Undecided:
        return None


def loose_eq(a, b):
    """The loosest reading: every sequence is a bag, recursively."""
    ka, kb = kind(a), kind(b)
    if ka != kb:
        return False
    if ka == "L" or ka == "T":
        return deq(a, b)
    if tagval(a) != tagval(b):
        return False
    if ka == "M":
        return len(a) == len(b) and all(k in b and loose_eq(a[k], b[k]) for k in a)
    return bag_eq(a, b, loose_eq)


def leaves(x, out):
    k = kind(x)
    if k == "M":
        for v in x.values():
            leaves(v, out)
    elif k == "S" or k == "T":
        for v in x:
            leaves(v, out)
    else:
        out.append(x)
    return out


def leaf_key(x):
    if is_tagged(x):
        return "!%s %s" % (tagval(x), x.value)
    return docenc.pyval_sexp(x)


def leaf_chains(doc):
    """Every leaf of the document as (ids of its ancestor containers, root
    first; (id of parent, parentref) or None for a root scalar)."""
    out = []

    def go(x, chain, pr):
        k = kind(x)
        if k == "M":
            for key, v in x.items():
                go(v, chain + [id(x)], (id(x), key))
        elif k == "S":
            for i, v in enumerate(x):
                go(v, chain + [id(x)], (id(x), i))
        elif k == "T":
            for v in x:
                go(v, chain + [id(x)], (id(x), v))
        else:
            out.append((chain, pr))
    go(doc, [], None)
    return out


def resolve(doc, path):
    """What the document holds at the path, by the real Processor."""
    if len(path.escaped) == 0:
        return [SimpleNamespace(node=doc, parent=None, parentref=None)]
    return list(_E["Processor"](_E["log"], doc).get_nodes(path, mustexist=True))


FAMILY = {("position", "position"): "positional", ("position", "dpos"): "positional",
          ("value", "value"): "value", ("position", "key"): "key", ("position", "deep"): "deep"}


def same_data_verdict(lhs, rhs):
    """Differ._same_data is data equality (same tag, same value) on every pair
    (left sub-node, right sub-node); a loaded set carries no tag."""
    sd = getattr(_E["Differ"], "_same_data", None)
    if sd is None:
        return None     # no such helper in this code: the entries themselves are judged (same / change / iff)
    L, R = subnodes(lhs, []), subnodes(rhs, [])
    for doc in (L, R):
        for n in doc:
            if kind(n) == "T" and tagval(n) is not None:
                return ("assume", "a loaded set carries the tag %r" % tagval(n))
    if len(L) * len(R) > 900:
        L, R = L[:30], R[:30]
    for a in L:
        for b in R:
            try:
                got = sd(a, b)
            except Exception as ex:  # noqa
                return ("crash", "Differ._same_data raised %s on %r / %r" % (type(ex).__name__, a, b))
            if bool(got) != deq(a, b):
                return ("same" if got else "change",
                        "Differ._same_data(%r, %r) is %r but the values are %s as data" % (a, b, got, "different" if got else "equal"))
    return None


def judge_run(lhs, rhs, arrays, aoh, has_rules, entries, cfgtext=None):
    """Returns None or (kind, text).  Kinds: crash, truth, same, change, cover, iff, account."""
    A = _E["DiffActions"]
    fam = FAMILY.get((arrays, aoh)) if not has_rules else None
    tagp = "%s/%s: " % (arrays, aoh)
    if isinstance(entries, str):
        return ("crash", tagp + "no diff produced: " + entries)
    nonsame = any(e.action is not A.SAME for e in entries)
    if fam == "positional":
        cov = {"l": [], "r": []}
        for e in entries:
            for side, doc, val, acts in (("l", lhs, e.lhs, (A.SAME, A.CHANGE, A.DELETE)),
                                         ("r", rhs, e._rhs, (A.SAME, A.CHANGE, A.ADD))):
                if e.action not in acts:
                    continue
                try:
                    found = resolve(doc, e.path)
                except Exception as ex:  # noqa
                    return ("truth", tagp + "%s entry at %r: path does not resolve in the %s document (%s)"
                            % (e.action, str(e.path), side, type(ex).__name__))
                if len(found) != 1 or not deq(found[0].node, val):
                    return ("truth", tagp + "%s entry at %r: the %s document holds %r there, the entry says %r"
                            % (e.action, str(e.path), side, [f.node for f in found], val))
                cov[side].append(found[0])
            if e.action is A.SAME and not deq(e.lhs, e._rhs):
                return ("same", tagp + "SAME entry at %r with different values %r / %r" % (str(e.path), e.lhs, e._rhs))
            if e.action is A.CHANGE and deq(e.lhs, e._rhs):
                return ("change", tagp + "CHANGE entry at %r with equal values %r / %r" % (str(e.path), e.lhs, e._rhs))
        for side, doc in (("l", lhs), ("r", rhs)):
            whole = any(f.parent is None and f.node is doc for f in cov[side])
            cont = set(id(f.node) for f in cov[side] if kind(f.node) != "L")
            direct = [(id(f.parent), f.parentref) for f in cov[side] if f.parent is not None]
            for chain, pr in leaf_chains(doc):
                if whole or any(c in cont for c in chain):
                    continue
                if pr is not None and any(p == pr[0] and _refeq(r, pr[1]) for p, r in direct):
                    continue
                return ("cover", tagp + "a leaf of the %s document (under %r) is covered by no entry"
                        % ("left" if side == "l" else "right", pr[1] if pr else None))
    # non-SAME iff the documents differ
    if fam is not None:
        eq = deq(lhs, rhs) if fam == "positional" else equiv(lhs, rhs, fam)
        if nonsame and eq:
            return ("iff", tagp + "the documents are equal as data (%s reading) but the diff has a non-SAME entry" % fam)
        if not nonsame and not eq:
            return ("iff", tagp + "the documents differ as data (%s reading) but the diff has no non-SAME entry" % fam)
    else:
        # a rule naming a list - a nested one included - is honoured
        req = ruled_equiv(lhs, rhs, arrays, aoh, cfgtext) if cfgtext is not None else None
        if req is not None and nonsame and req:
            return ("iff", tagp + "the documents are equal as data under the readings the configuration asks for (a rule naming "
                    "a list, nested lists included, is to be honoured) but the diff has a non-SAME entry")
        if req is not None and not nonsame and not req:
            return ("iff", tagp + "the documents differ as data under the readings the configuration asks for (a rule naming "
                    "a list, nested lists included, is to be honoured) but the diff has no non-SAME entry")
        if nonsame and deq(lhs, rhs):
            return ("iff", tagp + "the documents are exactly equal but the diff has a non-SAME entry")
        if not nonsame and not loose_eq(lhs, rhs):
            return ("iff", tagp + "the documents differ even with all sequence order disregarded but the diff has no "
                    "non-SAME entry")
    # accounting: every leaf of the left document lies in exactly one entry with a left side, same on the right
    for side, doc, acts in (("left", lhs, (A.SAME, A.CHANGE, A.DELETE)), ("right", rhs, (A.SAME, A.CHANGE, A.ADD))):
        want = sorted(leaf_key(x) for x in leaves(doc, []))
        got = []
        for e in entries:
            if e.action in acts:
                leaves(e.lhs if side == "left" else e._rhs, got)
        got = sorted(leaf_key(x) for x in got)
        if want != got:
            return ("account", tagp + "%s leaves %s are accounted for as %s" % (side, want, got))
    return None


def _refeq(a, b):
    try:
        return type(a) is type(b) and a == b or (not isinstance(a, (bool,)) and a == b)
    except Exception:  # noqa
        return False


# --------------------------------------------------------------------------
_CACHE = {}


def key(case):
    return (case["l"], case["r"], case.get("same", False), case.get("cfg"))


def prepare(case):
    k = key(case)
    if k in _CACHE:
        return _CACHE[k]
    if len(_CACHE) > 64:
        _CACHE.clear()
    E = _E
    res = {"req": [], "obs": [], "verdicts": []}
    if case.get("kind") == "fromstr":
        for which, enum in (("arrays", E["ArrayDiffOpts"]), ("aoh", E["AoHDiffOpts"])):
            res["req"].append("(fromstr %s %s)" % (which, hexs(case["l"])))
            try:
                res["obs"].append("(ok %s)" % enum.from_str(case["l"]).name)
            except NameError:
                res["obs"].append("(raise (crash ValueError))")   # the model's stand-in for NameError
            except Exception as e:  # noqa
                res["obs"].append(exc_line(e))
        _CACHE[k] = res
        return res
    lhs = load(case["l"])
    rhs = lhs if case.get("same") else load(case["r"])
    enc = Enc()
    try:
        lt = enc.node(lhs)
        rt = enc.node(rhs)
    except docenc.Unsupported:
        _CACHE[k] = res
        return res
    cfgtext = case.get("cfg")
    first_entries = None
    for arrays, aoh in COMBOS:
        cfg = make_config(arrays, aoh, cfgtext)
        d = E["Differ"](cfg, E["log"], lhs)
        try:
            d.compare_to(rhs)
            entries = list(d.get_report())
            rl = _ReportLog()
            changed = E["yaml_diff"].print_report(
                rl, SimpleNamespace(verbose=False, debug=False, quiet=True, onlysame=False, same=False, pathsep="auto"), d)
            obs = "(ok (i%d (%s)))" % (1 if changed else 0, " ".join(sorted(entry_sexp(e) for e in entries)))
        except Exception as e:  # noqa
            entries = exc_line(e)
            obs = entries
        # the tables prepare() resolved (config.prepare has run inside compare_to, or run it now)
        if isinstance(entries, str) and cfg.config is not None:
            try:
                cfg.prepare(rhs)
            except Exception:  # noqa
                pass
        res["req"].append("(diff %s %s %s)" % (cfg_sexp(cfg, arrays, aoh, enc), lt, rt))
        res["obs"].append(obs)
        has_rules = cfg.config is not None
        res["verdicts"].append(judge_run(lhs, rhs, arrays, aoh, has_rules, entries, cfgtext))
        if first_entries is None and not isinstance(entries, str):
            first_entries = (d, entries)
    # Differ._same_data on the root pair and on the facing children
    pairs = [(lhs, rhs)]
    if kind(lhs) == "M" and kind(rhs) == "M":
        pairs += [(lhs[k], rhs[k]) for k in lhs if k in rhs][:6]
    elif kind(lhs) == "S" and kind(rhs) == "S":
        pairs += list(zip(lhs, rhs))[:6]
        pairs += [(a, b) for a in list(lhs)[:3] for b in list(rhs)[:3]]
    for a, b in pairs:
        res["req"].append("(valeq %s %s)" % (enc.node(a), enc.node(b)))
        try:
            sd = getattr(E["Differ"], "_same_data", None)
            res["obs"].append("(missing)" if sd is None else _b(sd(a, b)))
        except Exception as e:  # noqa
            res["obs"].append(exc_line(e))
    res["verdicts"].append(same_data_verdict(lhs, rhs))
    if kind(lhs) == "S" and kind(rhs) == "S":
        res["req"].append("(syncval %s %s)" % (lt, rt))
        try:
            pairs = E["Differ"].synchronize_lists_by_value(lhs, rhs)
            res["obs"].append(pairs_sexp(pairs))
        except Exception as e:  # noqa
            res["obs"].append(exc_line(e))
        cfg = make_config("position", "key", cfgtext)
        d = E["Differ"](cfg, E["log"], lhs)
        cfg.prepare(rhs)
        res["req"].append("(synckey %s %s %s)" % (cfg_sexp(cfg, "position", "key", enc), lt, rt))
        try:
            pairs = d.synchronize_lods_by_key(E["YAMLPath"](), lhs, rhs)
            res["obs"].append(pairs_sexp(pairs))
        except Exception as e:  # noqa
            res["obs"].append(exc_line(e))
    if first_entries is not None:
        d, entries = first_entries
        acts = [E["sym"][e.action] for e in entries]
        n = len(acts) + len(case["l"])
        q, o, s = bool(n & 1) and bool(n & 8), bool(n & 2), bool(n & 4)
        rl = _ReportLog()
        changed = E["yaml_diff"].print_report(
            rl, SimpleNamespace(verbose=False, debug=False, quiet=q, onlysame=o, same=s, pathsep="auto"), d)
        res["req"].append("(report %s %s %s (%s))" % (_b(q), _b(o), _b(s), " ".join(acts)))
        res["obs"].append("(%s (%s))" % (_b(changed), " ".join(E["sym"][e.action] for e in rl.printed)))
    _CACHE[k] = res
    return res


def _b(x):
    return "true" if x else "false"


def pairs_sexp(pairs):
    def oi(i):
        return "none" if i is None else "i%d" % i
    return "(%s)" % " ".join("(%s %s %s %s)" % (oi(li), data_sexp(le), oi(ri), data_sexp(re))
                             for (li, le, ri, re) in pairs)


def requests(case):
    return prepare(case)["req"]


def observe(case):
    return prepare(case)["obs"]


def first_verdict(case):
    for v in prepare(case)["verdicts"]:
        if v is not None:
            return v
    return None


def judge(case, obs):
    v = first_verdict(case)
    return None if v is None else "%s: %s" % v


# --------------------------------------------------------------------------
# known findings: predicates over the failing input (and the kind of failure)

def subnodes(x, out):
    out.append(x)
    k = kind(x)
    if k == "M":
        for kk, v in x.items():
            subnodes(v, out)
    elif k == "S":
        for v in x:
            subnodes(v, out)
    return out


def _docs(case):
    lhs = load(case["l"])
    rhs = lhs if case.get("same") else load(case["r"])
    return lhs, rhs


def plain_key(k):
    return (isinstance(k, str) and k != "" and k == k.strip() and not k.startswith(("/", "&", "!"))
            and not any(c in k for c in "*"))


def has_odd_key(case):
    lhs, rhs = _docs(case)
    for doc in (lhs, rhs):
        for n in subnodes(doc, []):
            if kind(n) == "M" and any(not plain_key(k) for k in n):
                return True
            if kind(n) == "T" and any(not plain_key(k) for k in n):
                return True
    return False


def null_document_vs_container(case):
    """What is left of finding F3: one DOCUMENT is null (Python None at the
    root = no document) and the other a container that has content."""
    lhs, rhs = _docs(case)
    for a, b in ((lhs, rhs), (rhs, lhs)):
        if a is None and kind(b) != "L" and len(b) > 0:
            return True
    return False


def failing_combo(case):
    """(arrays, aoh) of the first run of the case whose verdict is not None."""
    for combo, v in zip(COMBOS, prepare(case)["verdicts"]):
        if v is not None:
            return combo
    return None


def key_mode_sites(lhs, rhs, cfg):
    """The sequences that configuration `cfg` (already prepared on `rhs`)
    compares in key / deep mode, found by walking the RIGHT document the way
    the modes are documented (the mode of a list and its identity key are
    decided from the right-hand list and its first element): a list of
    (right-hand sequence, [left-hand values it may be compared with]).  Left
    partners are followed by mapping key, by position under a positional
    comparison, and any element of the partner lists under a synchronised
    one.  Below a list whose elements are compared whole (--aoh position, key)
    nothing is compared, so nothing is collected."""
    NC = _E["NodeCoords"]
    A, H = _E["ArrayDiffOpts"], _E["AoHDiffOpts"]
    sites = []

    def go(r, parent, pref, cands):
        k = kind(r)
        if k == "M":
            for key, v in r.items():
                go(v, r, key, [c[key] for c in cands if kind(c) == "M" and key in c])
            return
        if k != "S":
            return
        lists = [c for c in cands if kind(c) == "S"]
        if not lists:
            return                      # a type clash: the list is added / deleted whole
        nc = NC(r, parent, pref)
        synced, deep = False, True
        if len(r) > 0 and kind(r[0]) == "M":
            hm = cfg.aoh_diff_mode(nc)
            if hm is H.KEY or hm is H.DEEP:
                sites.append((r, lists))
                if hm is H.KEY:
                    return
                synced = True
            elif hm is H.VALUE:
                synced = True
            else:
                deep = hm is H.DPOS
                synced = cfg.array_diff_mode(nc) is A.VALUE
        else:
            synced = cfg.array_diff_mode(nc) is A.VALUE
        if not synced and not deep:
            return
        for i, e in enumerate(r):
            if synced:
                sub = [x for c in lists for x in c]
            else:
                sub = [c[i] for c in lists if i < len(c)]
            go(e, r, i, sub)

    go(rhs, None, None, [lhs])
    return sites


def site_trouble(site, cfg):
    """The call-site condition of finding F4: the sequence pair cannot be read
    as two bags of records named by the identity key in force (from [keys], or
    the first key of the first right-hand record)."""
    NC = _E["NodeCoords"]
    r, lists = site
    for s in [r] + lists:
        if any(kind(e) != "M" for e in s):
            return True                 # a non-mapping element
    key_attr, user0 = cfg.aoh_diff_key(NC(r[0], r, 0))
    if not user0 and len(r[0]) == 0:
        return True                     # the first record is empty: no identity key at all
    keys = set([key_attr])
    for i, e in enumerate(r):
        alt, is_user = cfg.aoh_diff_key(NC(e, r, i))
        use = alt if (is_user and alt) else key_attr
        keys.add(use)
        if use not in e:
            return True                 # a right-hand record lacks the key in force for it
    for s in [r] + lists:
        for k in keys:
            vals = []
            for e in s:
                if k not in e:
                    return True         # a record lacks an identity key in force
                if kind(e[k]) != "L":
                    return True         # an identity value is a container (the guard kguard asks for a scalar):
                                        # records are matched by exact equality of that value
                vals.append(e[k])
            for i in range(len(vals)):
                for j in range(i + 1, len(vals)):
                    if deq(vals[i], vals[j]):
                        return True     # two records of one list share an identity value
    return False


def aoh_identity_trouble(case):
    """In the failing run some sequence pair is compared in key / deep mode
    although a record lacks the identity key in force there (configured through
    [keys], or the first key of the first right-hand record), two records of
    one list share an identity value, an identity value is not a scalar, or an
    element is not a mapping."""
    combo = failing_combo(case)
    if combo is None:
        return False
    lhs, rhs = _docs(case)
    cfg = make_config(combo[0], combo[1], case.get("cfg"))
    try:
        cfg.prepare(rhs)
    except Exception:  # noqa
        return False
    return any(site_trouble(s, cfg) for s in key_mode_sites(lhs, rhs, cfg))


def _kind_is(case, *kinds):
    v = first_verdict(case)
    return v is not None and v[0] in kinds


FINDING_PREDS = {
    "odd_key_path": lambda case, obs: _kind_is(case, "truth", "cover") and has_odd_key(case),
    "null_document_vs_container": lambda case, obs: _kind_is(case, "cover", "account") and null_document_vs_container(case),
    "aoh_identity_key": lambda case, obs: _kind_is(case, "iff") and aoh_identity_trouble(case),
}


# --------------------------------------------------------------------------
# generators

LEAVES0 = [None, 1, "a"]


def small_docs(n, cache={}):
    """All documents with exactly n nodes (containers + leaves + set members)."""
    if n in cache:
        return cache[n]
    out = []
    if n == 1:
        out.extend(LEAVES0)
    # maps with 0, 1 or 2 entries over keys a, b (both orders)
    if n == 1:
        out.append(("m", None, []))
        out.append(("s", None, []))
        out.append(("t", []))
    else:
        for k in ("a", "b"):
            for v in small_docs(n - 1):
                out.append(("m", None, [(k, v)]))
        for n1 in range(1, n - 1):
            for v1 in small_docs(n1):
                for v2 in small_docs(n - 1 - n1):
                    out.append(("m", None, [("a", v1), ("b", v2)]))
                    out.append(("m", None, [("b", v1), ("a", v2)]))
        # seqs
        for parts in compositions(n - 1):
            for els in itertools.product(*[small_docs(p) for p in parts]):
                out.append(("s", None, list(els)))
        # sets over members 1, 'a'
        if n == 2:
            out.append(("t", ["b"]))
            out.append(("t", ["a"]))
        if n == 3:
            out.append(("t", ["b", "a"]))
            out.append(("t", ["a", "b"]))
    cache[n] = out
    return out


def compositions(n):
    if n == 0:
        return []
    out = []

    def go(rest, acc):
        if rest == 0:
            out.append(acc)
            return
        for f in range(1, rest + 1):
            go(rest - f, acc + [f])
    go(n, [])
    return out


class Gen:
    def __init__(self, rng, mode="clean"):
        self.r = rng
        self.mode = mode

    def scalar(self):
        r = self.r
        if self.mode == "tags" and r.random() < 0.2:
            return ("x", r.choice(["t", "u"]), r.choice(["a", "b"]))
        c = r.random()
        if c < 0.18:
            return None
        if c < 0.45:
            return r.choice([0, 1, 2, 3, 300, -1])
        if c < 0.8:
            return r.choice(["a", "b", "c", "x y", "", "null", "1", "long text"])
        if c < 0.86:
            return r.choice([True, False])
        if c < 0.93:
            return r.choice([1.5, 1.0, -0.25])
        if self.mode == "tags" or c > 0.985:
            return ("x", r.choice(["t", "u"]), r.choice(["a", "b"])) if self.mode == "tags" else ("raw", "2001-01-01")
        return r.choice(["a", 1])

    def keyname(self):
        r = self.r
        if self.mode == "oddkeys" and r.random() < 0.5:
            return r.choice(["", " a", "a ", "/x", "&a", "a*", "*", 1, True, None, 1.5, "a.b", "a b", "[0]", "a/b", "x\\y"])
        return r.choice(["a", "b", "c", "id", "name", "k1", "a.b", "a b", "x/y"]) if r.random() < 0.9 else r.choice(
            ["k[0]", "it's", "q\"q", "(p)", "50%", "$v", "^w"])

    def mapping(self, depth, width=None):
        r = self.r
        n = r.randint(0, 3) if width is None else width
        seen = []
        items = []
        for _ in range(n):
            k = self.keyname()
            if any(type(k) is type(s) and k == s or k == s for s in seen):
                continue
            seen.append(k)
            items.append((k, self.node(depth - 1)))
        tag = r.choice(["t", "u"]) if self.mode == "tags" and r.random() < 0.3 else None
        return ("m", tag, items)

    def record(self, depth, idkey, idval):
        r = self.r
        items = []
        if idkey is not None:
            items.append((idkey, idval))
        for k in r.sample(["v", "w", "z"], r.randint(0, 2)):
            items.append((k, self.node(depth - 1)))
        if self.mode == "keyorder" and len(items) > 1 and r.random() < 0.5:
            r.shuffle(items)
        return ("m", None, items)

    def aoh(self, depth):
        r = self.r
        n = r.randint(1, 4)
        idkey = r.choice(["id", "name"])
        if self.mode == "aohtrouble":
            vals = [r.choice([1, 2, "a"]) for _ in range(n)]
            recs = [self.record(depth, idkey if r.random() < 0.7 else None, v) for v in vals]
            if r.random() < 0.3:
                recs.insert(r.randint(0, len(recs)), self.scalar())
            return ("s", None, recs)
        vals = r.sample([1, 2, 3, 4, "a", "b", "c"], n)
        return ("s", None, [self.record(depth, idkey, v) for v in vals])

    def seq(self, depth):
        r = self.r
        n = r.randint(0, 4)
        els = [self.node(depth - 1) for _ in range(n)]
        if els and isinstance(els[0], tuple) and els[0][0] == "m" and self.mode not in ("aohtrouble",):
            # a list starting with a mapping is an Array-of-Hashes for the differ: keep it a clean one
            return self.aoh(depth)
        if n and r.random() < 0.3:
            els.append(r.choice(els))       # duplicates
        tag = r.choice(["t", "u"]) if self.mode == "tags" and r.random() < 0.2 else None
        return ("s", tag, els)

    def node(self, depth):
        r = self.r
        if depth <= 0:
            return self.scalar()
        c = r.random()
        if c < 0.35:
            return self.scalar()
        if c < 0.6:
            return self.mapping(depth)
        if c < 0.8:
            return self.seq(depth)
        if c < 0.92:
            return self.aoh(depth)
        pool = ["a", "b", "c", 1, 2] if self.mode == "oddkeys" else ["a", "b", "c", "d", "e f"]
        ms = r.sample(pool, r.randint(0, 3))
        return ("t", ms)

    def root(self):
        r = self.r
        c = r.random()
        d = r.randint(1, 4)
        if c < 0.45:
            return self.mapping(d, width=r.randint(1, 4))
        if c < 0.7:
            return self.seq(d)
        if c < 0.85:
            return self.aoh(d)
        return self.node(d)

    # ---- derive the right document by random edits
    def edit(self, d, budget):
        r = self.r
        if budget <= 0 or r.random() < 0.35:
            return d
        if isinstance(d, tuple) and d[0] == "m":
            items = list(d[2])
            op = r.random()
            if items and op < 0.2:
                del items[r.randrange(len(items))]
            elif op < 0.4:
                k = self.keyname()
                if not any(k == kk for kk, _ in items):
                    items.insert(r.randint(0, len(items)), (k, self.node(1)))
            elif items and op < 0.5 and self.mode == "keyorder":
                r.shuffle(items)
            elif items:
                i = r.randrange(len(items))
                items[i] = (items[i][0], self.edit(items[i][1], budget - 1))
            return ("m", d[1], items)
        if isinstance(d, tuple) and d[0] == "s":
            els = list(d[2])
            op = r.random()
            if els and op < 0.15:
                del els[r.randrange(len(els))]
            elif op < 0.3:
                els.insert(r.randint(0, len(els)), self.node(1) if not els or r.random() < 0.4 else r.choice(els))
            elif els and op < 0.5:
                r.shuffle(els)
            elif els and op < 0.6:
                els[r.randrange(len(els))] = self.node(1)
            elif els:
                i = r.randrange(len(els))
                els[i] = self.edit(els[i], budget - 1)
            return ("s", d[1], els)
        if isinstance(d, tuple) and d[0] == "t":
            ms = list(d[1])
            if ms and r.random() < 0.5:
                del ms[r.randrange(len(ms))]
            else:
                m = r.choice(["a", "b", "d", 1, 3] if self.mode == "oddkeys" else ["a", "b", "d", "g"])
                if m not in ms:
                    ms.append(m)
            return ("t", ms)
        c = r.random()
        if c < 0.5:
            return self.scalar()
        if c < 0.7:
            return self.node(1)        # retype
        return r.choice([None, ("m", None, []), ("s", None, []), ("t", [])])


def random_case(rng, mode):
    g = Gen(rng, mode)
    lhs = g.root()
    c = rng.random()
    case = {}
    if c < 0.12:
        rhs = lhs
        if rng.random() < 0.4:
            case["same"] = True
    elif c < 0.85:
        rhs = lhs
        for _ in range(rng.randint(1, 3)):
            rhs = g.edit(rhs, 3)
    else:
        rhs = g.root()
    case["l"] = to_yaml(lhs)
    case["r"] = to_yaml(rhs)
    case["mode"] = mode
    return case


CONFIG_CASES = [
    # (lhs, rhs, ini)
    ("{x: [1, 2, 3], y: [1, 2, 3]}", "{x: [3, 1, 2], y: [3, 1, 2]}", "[rules]\n/x = value\n"),
    ("{x: [1, 2, 3], y: [[1, 2], [3]]}", "{x: [3, 1], y: [[3], [2, 1]]}", "[defaults]\narrays = value\n[rules]\n/y = position\n"),
    ("{r: [{id: 1, v: a}, {id: 2, v: b}]}", "{r: [{id: 2, v: b}, {id: 1, v: c}]}", "[defaults]\naoh = key\n"),
    ("{r: [{n: x, id: 1}, {n: y, id: 2}]}", "{r: [{n: z, id: 2}, {n: x, id: 1}]}", "[defaults]\naoh = deep\n[keys]\n/r = id\n"),
    ("{r: [{n: x, id: 1}, {n: y, id: 2}]}", "{r: [{n: z, id: 2}, {n: x, id: 1}]}", "[rules]\n/r = key\n[keys]\n/r = id\n"),
    ("{r: [{n: x, id: 1}, {n: y, id: 2}]}", "{r: [{n: z, id: 2}, {n: x, id: 1}]}", "[rules]\n/r = deep\n[keys]\n/r[1] = n\n"),
    ("{r: [{n: x, id: 1}, {n: y}]}", "{r: [{n: y}, {n: x, id: 1}]}", "[rules]\n/r = key\n[keys]\n/r = id\n/r[0] = n\n"),
    ("[[1, 2], [3, 4]]", "[[2, 1], [3, 4]]", "[rules]\n/[0] = value\n"),
    ("[[1, 2], [3, 4]]", "[[2, 1], [4, 3]]", "[rules]\n/[1] = value\n"),
    ("{a: {r: [{id: 1}, {id: 2}]}, b: {r: [{id: 1}, {id: 2}]}}", "{a: {r: [{id: 2}, {id: 1}]}, b: {r: [{id: 2}, {id: 1}]}}",
     "[rules]\n/a/r = key\n"),
    ("{x: [1, 2]}", "{x: [2, 1]}", "[rules]\n/nothing = value\n"),
    # a rule naming a list nested DIRECTLY inside a positionally compared list (repaired: parentref was index + 1)
    ("{a: [[1, 2, 3], [4, 5, 6]]}", "{a: [[3, 1, 2], [6, 4, 5]]}", "[rules]\n/a[0] = value\n"),
    ("{a: [[1, 2, 3], [4, 5, 6]]}", "{a: [[3, 1, 2], [4, 5, 6]]}", "[rules]\n/a[0] = value\n"),
    ("{a: [[1, 2, 3], [4, 5, 6]]}", "{a: [[1, 2, 3], [6, 4, 5]]}", "[rules]\n/a[1] = value\n"),
    ("{a: [[1, 2], [3, 4]]}", "{a: [[2, 1], [4, 3]]}", "[rules]\n/a[0] = value\n/a[1] = value\n"),
    ("{a: [[1, 2], [3, 4]]}", "{a: [[2, 1], [3, 4]]}", "[defaults]\narrays = value\n[rules]\n/a = position\n/a[1] = position\n"),
    ("{a: [{k: 1}, [1, 2]]}", "{a: [{k: 1}, [2, 1]]}", "[rules]\n/a = dpos\n/a[1] = value\n"),
    ("{a: [{k: [1, 2]}, {k: [3, 4]}]}", "{a: [{k: [2, 1]}, {k: [3, 4]}]}", "[rules]\n/a = dpos\n/a[0]/k = value\n"),
    ("[[[1, 2], [3, 4]]]", "[[[1, 2], [4, 3]]]", "[rules]\n/[0][1] = value\n"),
    ("[[1, 2], [1, 2]]", "[[2, 1], [2, 1]]", "[rules]\n/[0] = value\n"),
    ("{x: [1, 2]}", "{x: [2, 1]}", "[defaults]\narrays = VALUE\naoh = Deep\n"),
]


def corpus_chunks():
    """Defect witnesses (now fixed) and finding witnesses, run first."""
    cases = []
    for l, r in [("[a, null]", "[a, null]"), ("[1, 2]", "[]"), ("[null]", "[null]"), ("[null]", "[1]"),
                 ("[{a: 1}]", "[{a: 1}]"), ("[1]", "[{a: 1}]"), ("[{a: 1}, 2]", "[{a: 1}, 2]"), ("[a]", "[{a: 1}]"),
                 ("{a: {}}", "{a: []}"), ("{}", "[]"), ("{a: {}}", "{a: null}"), ("", "{}"),
                 ("a: !x b", "a: !x b"), ("[{a: 1, b: 2}]", "[{b: 2, a: 1}]"), ("a: null", "a: {b: 1}"),
                 ("[{a: 1}, {b: 2}]", "[{a: 1}, {b: 2}]"), ("[{id: 1, v: a}, {id: 1, v: b}]", "[{id: 1, v: b}, {id: 1, v: a}]"),
                 ("[{w: [{v: 1}, {v: 2}]}]", "[{w: [{v: 2}, {v: 1}]}]"),
                 ("{'': 1}", "{'': 2}"), ("{'/x': 1}", "{'/x': 2}"), ("{1: a}", "{true: b}"), ("!a {x: 1}", "!b {x: 1}"),
                 ("[!a {x: 1}]", "[!b {x: 1}]"), ("[[1, 2]]", "[[2, 1]]"), ("[1, [2, 3]]", "[[2, 3], 1]"),
                 ("!!set {a, b}", "!!set {b, c}"), ("x: !!set {a}", "x: [a]"), ("[1, 1]", "[1]"), ("2001-01-01", "2001-01-01"),
                 # finding F1, repaired: tags take part in the comparison of values
                 ("a: !x b", "a: !y b"), ("a: !x b", "a: b"), ("!a [1]", "!b [1]"), ("!a [1]", "!a [1]"), ("x: !a [1]", "x: [1]"),
                 ("[{x: !t 1}]", "[{x: !t 1}]"), ("[!t 1, 2]", "[2, !t 1]"), ("[!a {x: 1}]", "[!a {x: 1}]"),
                 ("[{id: !t 1, v: a}, {id: !t 2, v: b}]", "[{id: !t 2, v: b}, {id: !t 1, v: a}]"),
                 # finding F3, repaired below the root; the root case is what is left of it
                 ("a: null", "a: [1]"), ("a: {b: 1}", "a: null"), ("[null]", "[[1]]"), ("a: null", "a: {}"),
                 ("a: null", "a: !!set {x}"), ("[[1], null]", "[null, [1]]"), ("null", "{a: 1}"), ("{a: 1}", "null"), ("", "[1]")]:
        cases.append({"l": l, "r": r, "mode": "corpus"})
    cases.append({"l": "a: !x b", "r": "a: !x b", "same": True, "mode": "corpus"})
    for l, r, ini in CONFIG_CASES:
        cases.append({"l": l, "r": r, "cfg": ini, "mode": "config"})
    for name in ("position", "VALUE", "Value", "deep", "DPOS", "Key", "value", "dpos", "key", "DEEP", "Position"):
        cases.append({"kind": "fromstr", "l": name, "r": "", "mode": "fromstr"})
    yield cases


def chunks(tier, seed):
    size = 150
    buf = []
    each, together = (4, 6) if tier == "thorough" else (3, 5)
    docs = []
    for n in range(1, each + 1):
        docs.extend((n, to_yaml(d)) for d in small_docs(n))
    for (n1, a) in docs:
        for (n2, b) in docs:
            if n1 + n2 <= together:
                buf.append({"l": a, "r": b, "mode": "small"})
                if len(buf) >= size:
                    yield buf
                    buf = []
    rng = random.Random(seed * 31 + 6)
    nrand = 60000 if tier == "thorough" else 6000
    streams = ["clean"] * 5 + ["tags", "tags", "keyorder", "oddkeys", "aohtrouble"]
    for i in range(nrand):
        buf.append(random_case(rng, streams[i % len(streams)]))
        if len(buf) >= size:
            yield buf
            buf = []
    # configuration stream: fixed shapes, randomised content under the ruled paths
    g = Gen(rng, "clean")
    for i in range(600 if tier == "thorough" else 120):
        l, r, ini = CONFIG_CASES[i % len(CONFIG_CASES)]
        if i >= len(CONFIG_CASES):
            x = g.seq(2)
            y = g.edit(x, 2)
            recs = g.aoh(2)
            recs2 = g.edit(recs, 2)
            l = to_yaml(("m", None, [("x", x), ("r", recs), ("y", x)]))
            r = to_yaml(("m", None, [("x", y), ("r", recs2), ("y", y)]))
            ini = rng.choice(["[rules]\n/x = value\n", "[rules]\n/r = key\n[keys]\n/r = id\n", "[rules]\n/r = deep\n/x = value\n",
                              "[defaults]\narrays = value\naoh = value\n[rules]\n/y = position\n/r = dpos\n",
                              "[keys]\n/r = name\n", "[rules]\n/r = value\n"])
        buf.append({"l": l, "r": r, "cfg": ini, "mode": "config"})
        if len(buf) >= size:
            yield buf
            buf = []
    # rules naming lists nested directly inside lists: the elements A, B of n and, on the right, a shuffle or an
    # edit of each; every rule table below names one or both of them (or the list inside the record of a dpos list)
    for i in range(600 if tier == "thorough" else 150):
        def inner():
            return ("s", None, rng.sample([1, 2, 3, 4, "a", "b", "c d"], rng.randint(1, 4)))

        def other(x):
            els = list(x[2])
            op = rng.random()
            if op < 0.55:
                rng.shuffle(els)
            elif op < 0.7 and els:
                els[rng.randrange(len(els))] = rng.choice([7, "z"])
            elif op < 0.8 and els:
                del els[rng.randrange(len(els))]
            return ("s", None, els)
        A, B = inner(), inner()
        shape = i % 3
        if shape == 0:
            l = to_yaml(("m", None, [("n", ("s", None, [A, B]))]))
            r = to_yaml(("m", None, [("n", ("s", None, [other(A), other(B)]))]))
            ini = rng.choice(["[rules]\n/n[0] = value\n", "[rules]\n/n[1] = value\n", "[rules]\n/n[0] = value\n/n[1] = value\n",
                              "[defaults]\narrays = value\n[rules]\n/n = position\n/n[1] = position\n",
                              "[defaults]\narrays = value\n[rules]\n/n = position\n/n[0] = position\n/n[1] = position\n"])
        elif shape == 1:
            l = to_yaml(("m", None, [("n", ("s", None, [("m", None, [("k", A)]), B]))]))
            r = to_yaml(("m", None, [("n", ("s", None, [("m", None, [("k", other(A))]), other(B)]))]))
            ini = rng.choice(["[rules]\n/n = dpos\n/n[1] = value\n", "[rules]\n/n = dpos\n/n[0]/k = value\n",
                              "[defaults]\naoh = dpos\n[rules]\n/n[1] = value\n/n[0]/k = value\n"])
        else:
            l = to_yaml(("s", None, [("s", None, [A, B]), A]))
            r = to_yaml(("s", None, [("s", None, [other(A), other(B)]), other(A)]))
            ini = rng.choice(["[rules]\n/[0][1] = value\n", "[rules]\n/[0][0] = value\n/[1] = value\n", "[rules]\n/[1] = value\n",
                              "[rules]\n/[0][0] = value\n/[0][1] = value\n/[1] = value\n"])
        buf.append({"l": l, "r": r, "cfg": ini, "mode": "nestedrule"})
        if len(buf) >= size:
            yield buf
            buf = []
    if buf:
        yield buf


def classify(case, obs):
    if case.get("kind") == "fromstr":
        return "fromstr"
    v = first_verdict(case)
    n = len(case["l"]) + len(case["r"])
    return "%s:%s:%s" % (case.get("mode", "?"), "len<40" if n < 40 else ("len<120" if n < 120 else "len>=120"),
                         "ok" if v is None else v[0])


def nontrivial(case, obs):
    return case.get("kind") != "fromstr" and (case["l"][:1] in "{[!" or case["r"][:1] in "{[!")


def describe(case):
    return dict(case)


def undescribe(d):
    return dict(d)
