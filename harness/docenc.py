"""Encode loaded ruamel.yaml documents for the model (wire format of
ocaml/wire.ml) with CPython object identities, and decode / canonicalise
documents coming back."""
import math

from common import hexs, sexp_parse, sexp_str, unhex


class Unsupported(Exception):
    pass


def pyval_sexp(x):
    if x is None:
        return "none"
    if type(x) is bool:
        return "(b %s)" % ("true" if x else "false")
    if isinstance(x, int):
        return "(i i%d)" % int(x)
    if isinstance(x, float):
        f = float(x)
        if math.isnan(f) or math.isinf(f):
            raise Unsupported("nan/inf")
        n, d = f.as_integer_ratio()
        return "(f i%d i%d %s)" % (n, d, hexs(repr(f)))
    if isinstance(x, str):
        return "(s %s)" % hexs(str.__str__(x))
    return "(o %s)" % hexs(str(x))


def is_set(x):
    from ruamel.yaml.comments import CommentedSet
    return isinstance(x, (set, frozenset, CommentedSet))


class Encoder:
    """Numbers object identities by first occurrence (preorder, key before
    value) and keeps every encoded object alive so ids stay unique."""

    def __init__(self):
        self.oids = {}
        self.keep = []
        self.locs = {}     # oid -> first location (tuple of refs) for debugging

    def oid(self, x):
        k = id(x)
        if k not in self.oids:
            self.oids[k] = len(self.oids)
            self.keep.append(x)
        return self.oids[k]

    def fresh_oid(self):
        """An oid no encoded object has (for objects created by the model)."""
        n = len(self.oids)
        self.oids[("fresh", n)] = n
        return n

    def info(self, x):
        has = hasattr(x, "anchor")
        anc = None
        if has:
            try:
                anc = x.anchor.value
            except Exception:  # noqa
                anc = None
        tag = None
        if type(x).__name__ == "ScalarBoolean":
            # convention of coq/Lib/Doc.v (is_sbool): an int-valued leaf carrying the YAML bool tag
            return "i%d %s %s %s" % (self.oid(x), "none" if anc is None else hexs(anc),
                                     "true" if has else "false", hexs("tag:yaml.org,2002:bool"))
        t = getattr(x, "tag", None)
        if t is not None:
            tv = getattr(t, "value", None)
            if isinstance(tv, str) and tv:
                tag = tv
        return "i%d %s %s %s" % (self.oid(x), "none" if anc is None else hexs(anc),
                                 "true" if has else "false", "none" if tag is None else hexs(tag))

    def node(self, x):
        if isinstance(x, dict):
            head = self.info(x)
            items = " ".join("(%s %s)" % (self.leaf(k), self.node(v)) for k, v in x.items())
            return "(M %s (%s))" % (head, items)
        if isinstance(x, (list, tuple)):
            head = self.info(x)
            return "(S %s (%s))" % (head, " ".join(self.node(e) for e in x))
        if is_set(x):
            head = self.info(x)
            return "(T %s (%s))" % (head, " ".join(self.leaf(e) for e in x))
        return self.leaf(x)

    def leaf(self, x):
        return "(L %s %s)" % (self.info(x), pyval_sexp(x))


def encode(data):
    e = Encoder()
    return e.node(data), e


def renumber(sx):
    """Canonical form of a document S-expression (parsed): oids renumbered by
    first occurrence, so that fresh objects compare equal."""
    m = {}

    def go(n):
        kind = n[0]
        o = n[1]
        if o not in m:
            m[o] = "i%d" % len(m)
        head = [kind, m[o], n[2], n[3], n[4]]
        if kind == "L":
            return head + [n[5]]
        if kind == "M":
            return head + [[[go(k), go(v)] for k, v in n[5]]]
        return head + [[go(e) for e in n[5]]]
    return go(sx)


def canon_doc_text(text):
    return sexp_str(renumber(sexp_parse(text)))


def strip_identity(sx):
    """Data only: drop oid / anchor / has_attr / tag."""
    kind = sx[0]
    if kind == "L":
        return ["L", sx[5]]
    if kind == "M":
        return ["M", [[strip_identity(k), strip_identity(v)] for k, v in sx[5]]]
    return [kind, [strip_identity(e) for e in sx[5]]]


def merge_table(enc, data):
    """Side table for YAML merge keys (C07): for every CommentedMap object with a
    non-empty `.merge`, the positions (in items() order) of the keys that came
    through `<<:` (ruamel keeps them physically in the map; `_ok` holds the
    map's own keys) and the referenced maps.  Call after enc.node(data) so
    that every object already has its oid.  Wire: ((i<oid> (i<pos> ...) (<node> ...)) ...)"""
    from ruamel.yaml.comments import CommentedMap
    out = []
    done = set()

    def go(x):
        if isinstance(x, CommentedMap):
            if id(x) not in done:
                done.add(id(x))
                refs = list(getattr(x, "merge", None) or [])
                ok = getattr(x, "_ok", None)
                if refs and ok is not None:
                    poss = [i for i, k in enumerate(x.keys()) if k not in ok]
                    out.append("(i%d (%s) (%s))" % (enc.oid(x), " ".join("i%d" % p for p in poss),
                                                    " ".join(enc.node(r[1]) for r in refs)))
                for r in refs:
                    go(r[1])
            for v in x.values():
                go(v)
        elif isinstance(x, (list, tuple)):
            for e in x:
                go(e)
    go(data)
    return "(%s)" % " ".join(out)
