"""Texts of the MANIFEST entries (tools/mkmanifest.py assembles MANIFEST.json from them)."""

NOTE_COMMON = ("Trusted: Coq kernel (coqchk in the thorough tier), extraction (ExtrOcamlBasic/ExtrOcamlString), the "
               "OCaml driver, the Python harness, tables.py.  The theorems speak about the model; the model equals "
               "the code only as far as the differential correspondence run shows (zero disagreements required on "
               "every run).  External libraries (ast.literal_eval, re, ruamel load/dump, json, argparse) are oracles.")

DEFAULT_UNCLAIMED = ("not claimed yet: model, theorems and correspondence check are still under construction "
                     "(DESIGN.md section 10); the technique applies, nothing is declared inapplicable")
UNCLAIMED = {}

NOTES = ("Every check is ./check Cxx: rebuild the Coq closure of the property from /repo's current source tables, "
         "re-check Properties/Cxx.v (Print Assumptions recorded), run the extracted model against the real "
         "implementation, evaluate the property on the implementation's own observations.  See DESIGN.md section 0.")

CLAIMED = {
    "C14": {
        "text": ("Theorems C14_total / C14_str_total / C14_params_total (Coq, no axioms): for every string, separator "
                 "setting and escape mode the parser model ends in a segment list or a YAMLPathException value, never "
                 "a Python crash; termination is structural recursion over the text.  The model is a literal "
                 "rule-list transcription of the if/elif chain of YAMLPath._parse_path, tied to /repo on every run by "
                 "a differential check of the extracted model against the real parser (all strings up to length 4 "
                 "over the 27 significant characters, plus random) and by tables regenerated from the source."),
        "design_ref": "DESIGN.md section 4 (C14), docs/C14.md",
        "note": NOTE_COMMON,
        "technique": "Coq proof (invariant over a rule-list parser model) + differential correspondence of the extracted model",
    },
    "C12": {
        "text": ("17 theorems (Coq, no axioms) for all values, terms and oracle instances: each of the nine operators "
                 "of the Searches.search_matches model equals the documented typed rule (numeric equality for same-kind "
                 "numbers, case-insensitive boolean spellings, numeric ordering and false against non-numeric terms, "
                 "lexicographic text ordering, prefix/suffix/substring on the value's text, unanchored regex), never "
                 "raises for a well-formed term, and the candidate loops of _get_nodes_by_search are pointwise and "
                 "complementary under inversion (the multi-descendant hash case is a guarded _partial theorem with a "
                 "_refuted witness = known finding F12a).  Tie: the complete operator x haystack x needle grid "
                 "(real ruamel-loaded scalars included) plus the loops through Processor.get_nodes on every run."),
        "design_ref": "DESIGN.md section 4 (C12), docs/C12.md",
        "note": NOTE_COMMON,
        "technique": "Coq proof (case analysis over typed-value kinds; loop lemmas) + exhaustive-grid differential correspondence",
    },
    "C13": {
        "text": ("14 theorems (Coq, no axioms): max/min (plain and inverted) over lists of same-kind numbers and over "
                 "any Array-of-Hashes by attribute (present, absent, repeated, null) select exactly the extremal "
                 "members / exactly the others, by a loop invariant over the scanned prefix; has_child selects "
                 "exactly the hashes having / lacking the key; parent(n) is the n-th ancestor and refuses to climb "
                 "above the root; name() is the parent reference.  unique / distinct / hash-of-hashes max-min / text "
                 "collections are covered by the model, the correspondence run and the judge but have no theorem "
                 "yet (stated in docs/C13.md).  Tie: every keyword x inversion x parameter form through "
                 "KeywordSearches.search_matches and end to end through Processor.get_nodes."),
        "design_ref": "DESIGN.md section 4 (C13), docs/C13.md",
        "note": NOTE_COMMON,
        "technique": "Coq proof (loop invariants over a model of keywordsearches.py) + differential correspondence",
    },
    "C15": {
        "text": ("Theorems C15_required_only_ype / C15_exists_only_ype / C15_optional_only_ype (Coq, no axioms): for "
                 "every document, every prepared path of the collector-free fragment and all answering oracles the "
                 "stream of a required query, of exists() and of an optional query ends normally or with a "
                 "YAMLPathException (optional: or at the node creation reported by the creator parameter) -- never "
                 "IndexError/TypeError/KeyError/AttributeError/NotImplementedError and never out of fuel (path fuel "
                 "S(pweight p) and data fuel S(vsize v) proved sufficient).  Model: processor.py query side after six "
                 "fix: commits, generators as streams.  Collectors and keyword segments are covered by the "
                 "correspondence run and the judge only (F25 known finding: '(a)b' raises NotImplementedError)."),
        "design_ref": "DESIGN.md section 4 (C15), docs/C15.md",
        "note": NOTE_COMMON,
        "technique": "Coq proof (stream invariant over a fuelled evaluator model, fuel sufficiency) + differential correspondence",
    },
    "C01": {
        "text": ("Segment-level theorems (Coq, no axioms): the key-on-hash, anchor and wildcard handlers of the "
                 "evaluator model select exactly the nodes of the declarative segment semantics (same objects, "
                 "order, multiplicity); exists() <-> the required query yields a node.  The path-level statement "
                 "required = sem is NOT proved: it is evaluated on every run by an independent reference of the "
                 "documented semantics against the real Processor (identity, order, multiplicity, both notations, "
                 "optional == required on existing paths), next to the model/implementation correspondence.  "
                 "Refuted with witnesses: optional query stops at a null intermediate (F10), descendant searches "
                 "reaching several nodes (F12a)."),
        "design_ref": "DESIGN.md section 4 (C01), docs/C01.md",
        "note": NOTE_COMMON,
        "technique": "Coq proof (segment handlers vs declarative spec) + reference-semantics judge + differential correspondence",
    },
    "C09": {
        "text": ("Purity half only.  Theorems C09_required_pure_partial / C09_exists_pure_partial (Coq, no axioms): for "
                 "every document and every path without a subtraction collector (collectors with + and & included) "
                 "no stream of a required query or of exists() ends in a write to the document; "
                 "C09_subtraction_refuted: (h)-(h.a) deletes h.a from the loaded document (known finding F16).  The "
                 "model is a pure function of the document with the single writing statement of the read path "
                 "explicit; a deep snapshot of the real document around every query of the run checks that nothing "
                 "else writes.  The creation half is another module's."),
        "design_ref": "DESIGN.md section 4 (C09), docs/C09.md",
        "note": NOTE_COMMON,
        "technique": "Coq proof (no-mutation invariant over the evaluator model) + snapshot differential correspondence",
    },
    "C02": {
        "text": ("Theorems (Coq, no axioms) for the key-on-hash and wildcard handlers: parent[parentref] is the node "
                 "and the ancestry is the context's chain plus that link.  The remaining handlers and the "
                 "re-resolution of reported paths are NOT proved; they are checked on every run: model vs real code "
                 "on parent identity, parentref, reported path and full ancestry of every result, and a judge that "
                 "indexes the real parent, walks the real ancestry and re-queries str(path) in both notations.  "
                 "Three coordinate defects fixed (#12, #20, set members); known findings F26 (keys the path syntax "
                 "cannot name) and F27 ([&anchor] paths matching other nodes)."),
        "design_ref": "DESIGN.md section 4 (C02), docs/C02.md",
        "note": NOTE_COMMON,
        "technique": "Coq proof (handler-level coordinate lemmas) + differential correspondence + re-resolution judge",
    },
}
