"""Texts of the MANIFEST entries (tools/mkmanifest.py assembles MANIFEST.json from them)."""

NOTE_COMMON = ("Trusted: Coq kernel (coqchk in the thorough tier), extraction (ExtrOcamlBasic/ExtrOcamlString), the "
               "OCaml driver, the Python harness, tables.py.  The theorems speak about the model; the model equals "
               "the code only as far as the differential correspondence run shows (zero disagreements required on "
               "every run).  External libraries (ast.literal_eval, re, ruamel load/dump, json, argparse) are oracles.")

DEFAULT_UNCLAIMED = ("not claimed yet: model, theorems and correspondence check are still under construction "
                     "(DESIGN.md section 10); the technique applies, nothing is declared inapplicable")
UNCLAIMED = {}

NOTES = ("Every check is ./check Cxx: rebuild the Coq closure of the property from /repo's current source tables, "
         "re-check Properties/Cxx.v (Print Assumptions recorded), run the extracted model against the real "
         "implementation, evaluate the property on the implementation's own observations.  See DESIGN.md section 0.")

CLAIMED = {
    "C14": {
        "text": ("Theorems C14_total / C14_str_total / C14_params_total (Coq, no axioms): for every string, separator "
                 "setting and escape mode the parser model ends in a segment list or a YAMLPathException value, never "
                 "a Python crash; termination is structural recursion over the text.  "
                 "C14_collector_segments_have_terms / C14_segments_paired (an invariant over the rule chain relating "
                 "the demarcation stack to collector_level and segment_type, after the repair of F30): every ACCEPTED "
                 "text consists of typed segments whose COLLECTOR / KEYWORD_SEARCH / SEARCH types carry collector / "
                 "keyword / search terms - the shapes the evaluator has handlers for.  The model is a literal "
                 "rule-list transcription of the if/elif chain of YAMLPath._parse_path, tied to /repo on every run by "
                 "a differential check of the extracted model against the real parser (all strings up to length 4 "
                 "over the 27 significant characters, plus random) and by tables regenerated from the source."),
        "design_ref": "DESIGN.md section 4 (C14), docs/C14.md",
        "note": NOTE_COMMON,
        "technique": "Coq proof (invariant over a rule-list parser model) + differential correspondence of the extracted model",
    },
    "C12": {
        "text": ("30 theorems (Coq, no axioms) for all values, terms and oracle instances: each of the nine operators "
                 "of the Searches.search_matches model equals the documented typed rule (numeric equality for same-kind "
                 "numbers, case-insensitive boolean spellings, numeric ordering and false against non-numeric terms, "
                 "lexicographic text ordering, prefix/suffix/substring on the value's text, unanchored regex), never "
                 "raises for a well-formed term, and the candidate loops of _get_nodes_by_search are pointwise and "
                 "complementary under inversion (the multi-descendant hash case is a guarded _partial theorem with a "
                 "_refuted witness = known finding F12a).  The inversion clause is also stated over DOCUMENTS: the "
                 "candidate list is a Coq function of the document (SearchCands.v), the evaluator model's by_search "
                 "is proved to refine the loops on it, and C12_inversion_doc says that the inverted search yields "
                 "exactly the candidates the plain one does not, in candidate order.  The same is proved for EVERY "
                 "data shape by_search is handed (SpecC12data.v: a list the evaluator built -- slice, Collector "
                 "result -- is searched by the list loop and needs no guard; a NodeCoords is one candidate compared "
                 "through the node it wraps; C12_inversion_data / _list_data / _coords_data / _data_dispatch), and "
                 "C12_search_stream_data gives the stream of a search exactly however it ends: when a comparison "
                 "raises, both searches raise the same exception at the same candidate k, the items yielded before "
                 "it stay in the stream, and on the candidates before k the inverted search has yielded exactly "
                 "those the plain one has not (C12_inversion_doc_raises / C12_inversion_data_raises).  Not covered: "
                 "an exception out of the attribute path itself (not out of a comparison).  Tie: the complete operator x "
                 "haystack x needle grid (real ruamel-loaded scalars included); the loops through "
                 "Processor.get_nodes; the extracted candidate function against the harness's candidates and, "
                 "composed with the loops, against the real yields, on every run."),
        "design_ref": "DESIGN.md section 4 (C12), docs/C12.md",
        "note": NOTE_COMMON,
        "technique": "Coq proof (case analysis over typed-value kinds; loop lemmas) + exhaustive-grid differential correspondence",
    },
    "C13": {
        "text": ("58 theorems (Coq, no axioms) over a model of all of keywordsearches.py: max/min (plain and inverted) "
                 "select exactly the extremal members / exactly the others for lists of ints, of floats, of words "
                 "(lexicographic) -- the hypothesis 'is its own typed reading' is discharged for ints and floats and, "
                 "for text, reduced to 'ast.literal_eval rejects it' --, for any Array-of-Hashes and any "
                 "hash-of-hashes by attribute (present, absent, repeated, null), by a loop invariant generic in the "
                 "order; unique = the members whose value occurs once (inverted: more than once), distinct = the "
                 "first member of each group in order of first occurrence, by a grouping invariant under Python "
                 "equality; has_child, parent(n) incl. refusal above the root, name(), and the refusal branches.  "
                 "Lists mixing ints with floats are outside the property's quantifier ('same-kind'); what the code "
                 "selects on them is pinned by C13_max_min_mixed_selects (the first extremal member and the later "
                 "members of the same numeric type with an equal value), the property's statement holds under the "
                 "guard no_cross_equal (_partial) and fails without it ([5, 5.0]: _refuted).  Collections mixing "
                 "numbers with text, booleans or numeric-looking text (also outside the quantifier; the comparison "
                 "search_matches makes across kinds is no order) are pinned for every mix, lists / Array-of-Hashes / "
                 "hash-of-hashes, by C13_max_min_kinds_selects (+_attr, _hoh): no text member ever takes the lead and "
                 "the first numeric extremum by typed reading is selected, or from the first text member that beats "
                 "str() of the leading number on the first lexicographic extremum of the text members is; plus the "
                 "later members EQUALS deems equal; the split is proved unique; oracle facts (literal_eval reads "
                 "'True'/'False', rejects the plain text, reads the numeric-looking text as the number) are "
                 "hypotheses; the Examples are replayed on the real code.  Tie: every keyword x "
                 "inversion x parameter form through KeywordSearches.search_matches and end to end through "
                 "Processor.get_nodes."),
        "design_ref": "DESIGN.md section 4 (C13), docs/C13.md",
        "note": NOTE_COMMON,
        "technique": "Coq proof (loop invariants over a model of keywordsearches.py) + differential correspondence",
    },
    "C04": {
        "text": ("14 theorems (Coq, no axioms) over a model of Processor._delete_nodes (after the repairs 17f9ea8 and "
                 "1c243db) acting on the coordinates the read side gathered (parents addressed by object identity; "
                 "Collector results flattened, the root refused before anything is deleted, one entry per (parent, "
                 "parentref) place, list elements by descending position, dict / list / set branches): "
                 "C04_delete_exact - FULL: whatever was gathered, however often and in whatever order, if every "
                 "gathered coordinate locates a node the result is the document with exactly those locations "
                 "removed, every other node, value and relative order kept (C04_plan_ordered: the order the code "
                 "chooses always satisfies the invariant of the deletion loop); C04_root_refused - FULL: a root "
                 "coordinate anywhere among the gathered ones => YAML Path error, document unchanged; the former "
                 "_refuted witnesses of findings F15 / F15b are Examples of the repaired behaviour.  Tie: the real "
                 "delete_nodes with the coordinates captured at the entry of _delete_nodes, model vs implementation "
                 "vs an independent judge over a shadow copy.  C04_delete_exact_end_to_end composes the "
                 "evaluator model with the delete model (hypothesis: every coordinate of the query's own answer "
                 "locates a node; `**` + filter answers that name a node twice are inside it); "
                 "C04_delete_end_to_end_full discharges that hypothesis from C02 (C04_gathered_located: every gathered "
                 "coordinate is the root coordinate or locates a node) for every path of the C01 fragment without "
                 "slice segments: the delete is refused with the document unchanged when the root was matched and "
                 "otherwise removes exactly the gathered nodes - negative indexes, anchors, duplicates, disorder included.  "
                 "An Array slice that selects nothing deletes nothing (C04_empty_slice_deletes_nothing, "
                 "C04_empty_slice_end_to_end; before the repair f20b613 a[2:1] removed a[2])."),
        "design_ref": "DESIGN.md section 4 (C04), docs/C04.md",
        "note": NOTE_COMMON + "  The matched coordinates are an input of this model (obtained from the real Processor); the read side is C01/C02.",
        "technique": "Coq proof (reverse-order index lemmas over an identity-addressed document model) + differential correspondence",
    },
    "C17": {
        "text": ("29 theorems (Coq, no axioms) over a model of the save sequences of yaml-set, yaml-merge and "
                 "eyaml-rotate-keys as call lists on an abstract file system (Target/Bak/Output/Tmp x "
                 "Orig/Stale/New/Partial) and of every exit of main() before the single write: a run that ends "
                 "before the write performs no call (file system identical, no .bak, no output); a document the "
                 "serialiser refuses is found before any file is touched (yaml-set JSON, yaml-merge) or undone by "
                 "yaml-set's restore path (dump failing with ANY Exception: the target holds the original bytes "
                 "again); an existing --output is never replaced; with --backup the .bak is the pre-image; for "
                 "every tool, start state and ANY single fault (every position, before/mid effect, OSError / "
                 "AssertionError / other Exception / KeyboardInterrupt; plus a second fault inside the restore "
                 "path) target or .bak still holds the original - also as a general lemma over arbitrary call "
                 "lists of the shape pre ++ Copy2 Target Bak :: post.  eyaml-rotate-keys dumps straight into the "
                 "truncated file and restores nothing: a failing dump leaves the target Partial and, with --backup, the "
                 ".bak = the original (C17_rotate_dump_failure_with_backup); without --backup the file is lost, exactly "
                 "at the truncating open (mid) or the dump (C17_rotate_no_backup_losses, _refuted witness) - the "
                 "property promises target-or-backup only with --backup and that is what holds.  The implicit close() of "
                 "the `with` blocks of yaml-merge / eyaml-rotate-keys / yaml-set's JSON save is a call of its own "
                 "(Sv.close_out): one copy survives any failing call FOLLOWED by a failing close() "
                 "(C17_one_copy_survives_close_fault, C17_merge_one_copy_survives_two_faults).  Tie: fault enumeration on the real main() "
                 "functions in-process with the I/O calls wrapped in the command modules' namespaces, including "
                 "documents the real dumper / json refuse: traces and surviving bytes compared with the model for "
                 "every fault position, close() failures (alone and as the second failure) injected on the real tools.  OS/disk-level atomicity cannot be exhibited (Partial is the pessimistic "
                 "stand-in)."),
        "design_ref": "DESIGN.md section 4 (C17), docs/C17.md",
        "note": NOTE_COMMON,
        "technique": "Coq proof (fault-indexed run of a call-list model) + fault-injection correspondence on the real tools",
    },
    "C19": {
        "text": ("29 theorems (Coq, no axioms) over a model of EYAMLProcessor.is_eyaml_value / find_eyaml_paths and the "
                 "rotation of eyaml_rotate_keys.py (per-file loop with seen_anchors, save/backup decision, and the "
                 "loop over the files of one invocation), the cipher being Section variables with the three cipher "
                 "laws and a layout law as hypotheses: the ENC[ marker rule for every value; a file without "
                 "secrets is neither rewritten nor backed up; under the invariant Inv (same oid = same tree and "
                 "anchor; fresh oids are fresh), preserved by every replacement step, the written document is "
                 "the input with exactly the encrypted leaves substituted (C19_frame), aliases of one anchored "
                 "secret stay one object and the cipher is asked at most once per anchor (C19_shared_once), and "
                 "at every encrypted position of every document the new ciphertext decrypts under the new key to "
                 "the old plaintext and not under the old key (C19_rekeyed_partial / C19_old_key_dead_partial, "
                 "guard plain_ok = listed finding F19a with _refuted witnesses).  The run over several files is proved: a "
                 "file inside a run is rotated exactly as that file alone, only the exit status is carried "
                 "(C19_file_in_run_is_file_alone, C19_files_independent: per-file results, the status as the fold 2 / 3 "
                 "/ carried, a run left by an exception has done the files before it), and the document-level "
                 "theorems hold for every file of every run (C19_run_*).  'Once' is also a count over the encryption "
                 "log: seen_anchors = exactly the anchor names of the secrets; status 0 => at least one encryption per "
                 "anchor name and per unanchored secret position (full), exactly one and every call reaching the "
                 "cipher under the F19a guard on the whole document (C19_encrypt_calls_partial, _refuted witness "
                 "replayed on the real tool).  The hypothesis loaded_doc (Inv, keys_ok) has a sound boolean version "
                 "that the harness evaluates on every encoded document of every case.  Tie: whole invocations of the "
                 "real main() with 1-3 files against a keyed reversible stand-in eyaml executable (the "
                 "hiera-eyaml gem is absent); the judge decides 'encrypted' by the property's own rule."),
        "design_ref": "DESIGN.md section 4 (C19), docs/C19.md",
        "note": NOTE_COMMON + "  The real hiera-eyaml/PKCS7 is replaced by harness/eyaml_standin.py; the save of a changed file between two files of a run is C17's model (Sv.CRotate), not part of Ey.rotate_files.",
        "technique": "Coq proof (identity-consistency invariant over leaf substitution; cipher laws as hypotheses) + differential correspondence with a stand-in eyaml",
    },
    "C07": {
        "text": ("23 theorems (Coq, no axioms) over a model of yaml_paths.search_for_paths / yield_children / "
                 "record_anchors / search_anchor / process_yaml_file / print_results: the search is sound (only "
                 "satisfying places are reported), complete for value search on ANY document (a lone-scalar document "
                 "included: its place is the root; F-C07-3 repaired) and complete up to the listed finding F-C07-1 with "
                 "key-name search (a matching key deliberately hides what lies beneath it), reports each place at most once "
                 "in EVERY mode (all alias modes, key modes, expansion; C07_once_any_mode); "
                 "under each of the four alias-option combinations every visible satisfying place is reported and "
                 "no excluded aliased repeat is (guard: anchor names not redefined = F-C07-4, with a _refuted witness; "
                 "plus the document well-formedness doc_wf - same oid = same tree among anchored occurrences, scalar keys "
                 "- from which the former assumption shared_closed is "
                 "PROVED and which the harness evaluates, as extracted, on every encoded document of every run; "
                 "its former third part merged_closed (false for an inline merge source that first defines an anchor: the "
                 "former witness C07_inline_merge_refuted, a: {<<: {k: &v hit}} / b: *v reported b) is gone since the "
                 "repair d5ba308 - a hidden merged-in entry is walked by record_anchors - and the witness is the positive "
                 "Example C07_inline_merge_repaired; the "
                 "former guard `exposed` is gone since record_anchors keeps the anchors of unsearched subtrees on "
                 "record); --expand reports exactly the leaf descendants; printing emits "
                 "exactly the de-duplicated results; C07_resolves_text_partial - the reported text is the built "
                 "path of the matched location, str() leaves it unchanged, and the required query of the "
                 "evaluator model on it yields exactly the node there (guards pb_safe = F-C07-2 and no anchored "
                 "sequence element = F-C07-4; _refuted witnesses); also judged on the real Processor for every "
                 "reported path of every case.  Tie: documents incl. anchors/aliases/merge keys x nine "
                 "operators x inversion x options x both notations."),
        "design_ref": "DESIGN.md section 4 (C07), docs/C07.md",
        "note": NOTE_COMMON + "  Merge-key membership of map keys is taken from ruamel (side table from docenc.merge_table).",
        "technique": "Coq proof (structural induction over the document with the seen-anchors list threaded) + differential correspondence",
    },
    "C18": {
        "text": ("19 theorems (Coq, no axioms) over a model of merge_condense_all / merge_across / merge_matrix / merge_docs stated "
                 "over an abstract pairwise merge (a Section variable, instantiated with the C05 model for "
                 "execution): condense-all is the left fold over both streams and yields one document; "
                 "merge-across yields max(|ls|,|rs|) documents, the i-th being merge2 l_i r_i, surplus right "
                 "documents appended in order, stopping at the first error; matrix yields |ls| documents, each the "
                 "fold over all right documents; count and order depend on mode and lengths only.  At the command line "
                 "(over C16's glue model of main(), tied by ./check C16): the loop over the YAML_FILEs and the waiting "
                 "STDIN, sources that do not load included, is run_streams over merge_docs - the first source with "
                 "documents supplies the left-hand documents, an unloadable source is state 4 (left-hand) or 3 (later), "
                 "the FIRST non-zero state in command-line order is the exit status and nothing is delivered "
                 "(C18_cli_main_is_streams for merge_across / matrix_merge, C18_cli_first_error_wins).  Tie: the real "
                 "merge_docs with real Merger objects on streams of 1-4 documents x 3 modes x policies."),
        "design_ref": "DESIGN.md section 4 (C18), docs/C18.md",
        "note": NOTE_COMMON,
        "technique": "Coq proof (list inductions over an abstract merge2) + differential correspondence",
    },
    "C11": {
        "text": ("Theorems (Coq, no axioms) over a model of Merger.merge_with with a mergeat path (per-target "
                 "dispatch, the returned merge result stored at the target, the per-target _apply_change route for "
                 "a Scalar into a Scalar): C11_frame - nothing outside the matched subtrees changes, for all inputs; "
                 "C11_targets_merged - EVERY matched node (single or multi-target path, any kind of target, any "
                 "policy; no guard since the repairs 6840572 / c8dbfd9 of the former findings F-C11-1/2) holds what "
                 "the per-target dispatch makes of its old content, and C11_target_is_policy_merge - that is the node "
                 "C05's insert returns; C11_unmatched_is_error; a missing path: C11_created_target_holds_rhs (a created "
                 "path holding the right-hand document keeps it; full) and C11_missing_created_partial (composition "
                 "with C09's creation model for straight key/index paths and Scalar right-hand documents under C09's "
                 "guard: the path holds the value afterwards, everything that existed is still in place).  The target "
                 "locations and the document after path creation are inputs obtained from the real Processor.  The former "
                 "finding F-C11-5 (a missing path that goes on with a wildcard / search / slice / anchor made path "
                 "creation store the right-hand document and merge it into its own children) is repaired in path "
                 "creation: such a path is refused before anything is built, also for an empty left document.  Tie: "
                 "left documents x target paths (single, wildcard/search multi, missing, uncreatable, missing and going "
                 "on with a segment nothing can be built for) x right documents of every root type x policies."),
        "design_ref": "DESIGN.md section 4 (C11), docs/C11.md",
        "note": NOTE_COMMON + "  Processor.get_nodes results are an input of this model.",
        "technique": "Coq proof (frame lemma over identity-addressed targets) + differential correspondence",
    },
    "C08": {
        "text": ("25 theorems (Coq, no axioms) over the parser/printer models (the same models C14 ties to the code): "
                 "C08_parse_render - for every well-formed segment list of every kind (KEY escaped or quoted, index, "
                 "slice, anchor, all nine search operators with inversion and quoted/escaped terms - also quoted with "
                 "nested pairs of the other quote - and regex "
                 "delimiters, keywords, collectors with nested expressions, * and **) in both notations, parsing the "
                 "documented rendering gives back exactly the segments; py_int (str_of_Z n) = n for all integers; "
                 "ensure_escaped characterised as a left-to-right scan; the canonical string re-parses to the same "
                 "segments in either notation and is a fixed point (guards: wfc, and the property's own exclusion "
                 "of dot texts that begin with '/'); == is the comparison of the parsed segments for ANY two texts "
                 "that parse (C08_eq_parsed) and == iff equal segments on the writer's texts (guards wf and the "
                 "exclusion only); append-then-pop restores the segments of the path for EVERY kind and style of tail "
                 "(C08_append_pop_all_partial; C08_appended_parse characterises the text append writes for a tail "
                 "with its own demarcation, e.g. x.[0], and its parse - the intersection collector &(b) reads as (b) "
                 "after a separator; the guard 'canonical tail or no suffix match' is discharged; guards left: wfc, "
                 "the exclusion, a non-blank rebuilt dot text) and the path TEXT when the tail is canonical; "
                 "__add__ is append on a copy (C08_add_is_append_on_copy); strip_path_prefix gives the remaining "
                 "segments when the remainder starts with a key / * / ** (C08_strip_prefix_partial, _root, _other; "
                 "C08_strip_prefix_refuted: a remainder starting with a bracket is re-read in dot notation, and a "
                 "prefix of the TEXT that is no prefix of the segments is stripped - outside the property text, "
                 "reported).  Both halves of finding F21 (an escaped or "
                 "regex search term that starts and ends with the same quote was stripped of them by the parser; "
                 "str() did not escape the quotes of a term) and finding F23 (== compared texts in which an escaped "
                 "dot kept its back-slash) are repaired: no listed finding is left, the former witnesses are "
                 "positive Examples (C08_parse_render_F21, C08_canon_F21, C08_eq_iff_F23).  Side conditions over the regenerated "
                 "character tables are closed by vm_compute, so editing an escape list in the source re-opens a "
                 "proof obligation.  Tie: all segment sequences of length <= 2 (quick) / 3 (thorough) over a "
                 "grammar of every kind, rendered by the reference writer and by str()."),
        "design_ref": "DESIGN.md section 4 (C08), Appendix B, docs/C08.md",
        "note": NOTE_COMMON,
        "technique": "Coq proof (per-token lemmas over the rule-list parser, closed over all 256 characters; induction over segment lists) + differential correspondence",
    },
    "C06": {
        "text": ("44 theorems (Coq, no axioms) over a model of differ.py (type dispatch, dicts, lists in all 2 x 5 "
                 "array/AoH modes, the zip_longest loop, the pop-a-DELETE-to-make-a-CHANGE step, both synchronisers, "
                 "sets, purge/add-everything, the value comparison Differ._same_data, DifferConfig lookups, print "
                 "selection and exit state): truthful entries, SAME equal / CHANGE differs as data for ALL document "
                 "pairs, tags included (full since the repair of finding F1: values are compared as YAML data, not with "
                 "Python ==), leaf coverage and leaf-level accounting as permutations in every mode and configuration "
                 "(guard root_guard: not (one DOCUMENT is null and the other a container with content) - what is left "
                 "of finding F3 after its repair below the root; document-vs-nothing is deliberate and pinned by the "
                 "CLI tests), non-SAME iff the documents differ as data, full for the six uniform mode pairs without "
                 "identity keys and, with the guard well-keyed lists = F4, for all ten incl. key/deep; reflexivity, "
                 "exit state = 1 iff a non-SAME entry; an entry's path text resolves (evaluator model) to the value "
                 "the truthfulness theorem speaks about (guard = F5); every remaining guard with a _refuted witness "
                 "and a non-vacuity Example, every repaired finding with a positive Example.  ARBITRARY resolved "
                 "configurations (per-path [rules], per-list / per-record [keys]) are covered by "
                 "C06_nonsame_iff_differ_cfg_partial: non-SAME iff the documents differ under the equivalence the "
                 "configuration induces (modes chosen per list by the model's own lookup), guard kguard_c = F4 only "
                 "(one-to-one identities, identity values of any kind), no guard at all when key/deep is never "
                 "selected; the coordinates at which the lookup is made are those of the named list, also for a list nested "
                 "directly inside a positionally compared list (repaired off-by-one parentref, positive Example); data equality is proved an equivalence relation and the greedy bag comparison proved to "
                 "decide multiset equality; C06_truthful_sync states what an entry's path and values mean in the "
                 "synchronised modes (left / right index per list), with the witness that positional truthfulness "
                 "fails under --aoh deep.  Tie: pairs identical / derived by edits / unrelated x all mode pairs x "
                 "configurations (rules naming nested lists included; the judge reads the configuration text itself and demands that such a rule is honoured); entries compared as multisets of (action, parsed path, lhs, rhs); "
                 "Differ._same_data compared directly on the root pair and the facing children."),
        "design_ref": "DESIGN.md section 4 (C06), docs/C06.md",
        "note": NOTE_COMMON + "  Python set iteration order is not modelled (entries are compared as multisets); resolved [rules]/[keys] tables are inputs taken from the real DifferConfig.",
        "technique": "Coq proof (structural induction over both trees; keyed-join lemma modulo Python key equality) + differential correspondence",
    },
    "C03": {
        "text": ("38 theorems (Coq, no axioms) over a model of set_value / _apply_change / _update_node with its "
                 "whole-document identity-driven recursion and Nodes.make_new_node / wrap_type: the recursion "
                 "equals a pointwise substitution at the addressed position plus true aliases - as mapping values, "
                 "sequence elements and (since the repair 7612ed9) mapping KEYS (C03_set_exact, frame and pointwise "
                 "lemmas); a change that would rename an alias key onto an existing key is refused with a "
                 "DuplicateKey YAML Path error and modifies nothing (C03_key_collision_refused, every document; "
                 "formerly known finding F24); a [name()] key rename files the entry at the first key == parentref "
                 "under the new name, place and value kept, and refuses an existing name with DuplicateKey "
                 "(C03_rename_exact, every case of the CommentedMap branch); a failing "
                 "change leaves the document as it was, and any completed history of Set (renames included) / "
                 "Create / Delete operations refines a plain-data model over Doc.erase (C03_history: replacements at "
                 "locations, re-filed keys, removals, appended children).  The invariants of a loaded document "
                 "(doc_inv: containers carry the anchor attribute and sit at one place, keys pairwise different, "
                 "keys / set members scalars) are a hypothesis on the FIRST document only and proved to survive "
                 "every Set, Delete (C03_wf_preserved_delete) and Create (C03_wf_preserved_create: fresh "
                 "identities); the guard that remains per change is alias_clean (the matched node is no set member "
                 "and is one object) and, per Delete, that every coordinate locates a node.  End to end with the "
                 "evaluator model (C03_set_end_to_end, C03_history_end_to_end_inv: the coordinates of every step "
                 "are the locations of the nodes the path semantics selects there; guards inherited from C01 / C02 "
                 "and, for a Create step, a bound of the model's identity counter).  An Array slice that selects "
                 "nothing (a[5:9], a[2:1]; since the repair f20b613) is gathered as an empty virtual list and changes "
                 "nothing, under either mustexist (C03_empty_slice_changes_nothing, C03_empty_slice_end_to_end; formerly a "
                 "bare IndexError, or the element at the start of the slice replaced).  Tie: "
                 "histories of length <= 4 (quick) / 6 (thorough) step by step against the real code, with a "
                 "ruamel dump and strict reload after every step, plus a structured stream for aliases used as keys; "
                 "every step a second time with the coordinates gathered by the evaluator model instead of the real read side."),
        "design_ref": "DESIGN.md section 4 (C03), docs/C03.md",
        "note": NOTE_COMMON + "  ruamel's dump/reload is exercised by the judge on every step, not modelled; float() and literal_eval are oracles.",
        "technique": "Coq proof (substitution lemma over an identity-addressed document model; refinement to plain data by induction over the history) + differential correspondence",
    },
    "C16": {
        "text": ("34 theorems (Coq, no axioms) over a model of the glue of the six console entry points as total "
                 "functions of the parsed options, the loader's outcome per input and the library-level results "
                 "(abstract inputs): yaml-get exit 0 iff >= 1 node and one rendering per matched node in order; "
                 "yaml-diff exit 0 iff no non-SAME entry and prints the selected entries; yaml-validate exit 0 iff "
                 "every document of every file (and a waiting STDIN) loads; yaml-merge delivers the fold of the "
                 "pairwise merges or nothing on any non-zero ending; yaml-set delivers exactly the library "
                 "post-state or nothing; yaml-paths prints exactly the results; main is a function of the loaded "
                 "documents, so file vs STDIN delivery cannot change the outcome (empty-stream witness kept as "
                 "_refuted).  End-to-end corollaries instantiate the abstract results with the library MODELS: "
                 "yaml-get's lines = one rendering per item of the evaluator model's required query, exit 0 iff "
                 "non-empty; yaml-diff exit 0 iff the two documents are data-equal (positional options, real documents; tagged nodes included since C06's F1 was repaired); "
                 "merge_across / matrix deliver what MultiDoc.v's drivers return (reusing C18); yaml-paths prints "
                 "PathsPrint's lines.  JSON/YAML text and argparse are oracles.  Tie: the real main() "
                 "functions in-process (and the installed console scripts in the thorough tier) vs glue model "
                 "applied to the real library's results."),
        "design_ref": "DESIGN.md section 4 (C16), docs/C16.md",
        "note": NOTE_COMMON + "  Partial by nature: argparse, ruamel's emitter and json.dumps text are exercised, not modelled.",
        "technique": "Coq proof (case analysis / list induction over a glue model with abstract library results) + differential correspondence on the real entry points",
    },
    "C05": {
        "text": ("33 theorems (Coq, no axioms) over a model of merger.py (_merge_dicts with its insertion buffer, "
                 "_merge_simple_lists, _merge_arrays_of_hashes, _merge_lists dispatch, _merge_sets, the _insert_* "
                 "root dispatch, merge_with) and MergerConfig (rule > CLI option > INI default > built-in default, "
                 "rules matched by node identity): precedence for all four option kinds, a rule governs only the "
                 "node it was resolved to, left-hand content not named by the right keeps value and relative "
                 "order (loop invariant over the insertion buffer), array all/left/right, AoH all/left/right, set "
                 "left/right/unique, structurally impossible merges raise MergeException at the target and nested "
                 "for every configuration, C05_no_crash (every pair, every configuration: a document, MergeException or "
                 "the NameError of an exhibited bad policy text - no fuel), C05_hash_union (left keys in order, "
                 "right-only keys in right order, per-key value by policy; key set = union; the exact index of every "
                 "right-only key: C05_hash_union_position), arrays/AoH UNIQUE "
                 "and AoH DEEP by identity key as declarative statements, sets UNIQUE declaratively (result = left members ++ the right-hand "
                 "members equal to nothing present, in order), Python == transitive on plain documents (guard: no "
                 "TaggedScalar; _refuted witness without it) which turns the UNIQUE-array chain into one equality, "
                 "scalar override over the whole loop "
                 "(_partial/_refuted around listed finding F-C05-1).  The regenerated enum names are proof obligations (GenTables).  Tie: all pairs of "
                 "small documents over a colliding alphabet x the 3x4x5x3 policy grid on a core, sampled beyond, "
                 "with per-path rules and identity keys."),
        "design_ref": "DESIGN.md section 4 (C05), docs/C05.md",
        "note": NOTE_COMMON + "  Per-path rules are taken as the table the real MergerConfig resolved (node identities).",
        "technique": "Coq proof (loop invariants over the merge model; case analysis over the policy grid) + differential correspondence + reference judge",
    },
    "C10": {
        "text": ("30 theorems (Coq, no axioms) over a model of anchors.py (scan_for_anchors, rename_anchor, "
                 "replace_anchor, the unique-name loop with explicit fuel |known|+1 PROVED sufficient) and "
                 "Merger._resolve_anchor_conflicts + merge_with: stop refuses (exactly when a common name differs, "
                 "under plain keys); equal values are no conflict and leave the right document untouched; left / "
                 "right / rename / unique names are proved of the resolved pair AND of the document merge_with "
                 "returns (C10_left_final, C10_right_final, C10_rename_final, C10_unique_names_final: the merge "
                 "proper INCLUDING its root dispatch creates no anchored Scalar and changes none; set members carry "
                 "no anchor in a tidy document); the guards are computable (an_doc_tidy, one_node_per_name_b, "
                 "an_heap_ok_b, proved equivalent to the Prop-level conditions) and evaluated by the extracted model "
                 "and on the real object graph for every case; C10_no_crash_partial (plain keys, every "
                 "configuration: a pair, MergeException under stop, or NameError of a bad policy text - no "
                 "KeyError / AttributeError / OutOfFuel) with C10_no_crash_refuted (listed finding F-C10-3: an "
                 "anchored key replaced by an anchored container ends in TypeError); _refuted witnesses for F-C10-1 "
                 "and F-C10-2.  Tie: pairs of documents defining/aliasing scalar anchors from a 3-name pool x "
                 "4 anchor policies x merge policies, compared after conflict resolution, after merge_with and on "
                 "the theorems' guards; "
                 "the judge dumps the real result with ruamel, scans for duplicate/undefined anchors and reloads "
                 "it with yamlpath's loader."),
        "design_ref": "DESIGN.md section 4 (C10), docs/C10.md",
        "note": NOTE_COMMON + "  ruamel's serializer/loader are exercised by the judge, not modelled; anchored containers run in an implementation-only stream.",
        "technique": "Coq proof (fuel sufficiency; loop invariant over common anchor names) + differential correspondence + dump/reload judge",
    },
    "C15": {
        "text": ("20 theorems (Coq, no axioms) over the evaluator model with the keyword model plugged in "
                 "(EvalKw.v): for every document, every prepared path of the fragment INCLUDING keyword-search "
                 "segments at any position, and all answering oracles, the stream of a required query, of exists() "
                 "and of an optional query ends normally or with a YAMLPathException (optional: or at the node "
                 "creation reported by the creator parameter) - never IndexError / TypeError / KeyError / "
                 "AttributeError / NotImplementedError and never out of fuel (path fuel and data fuel proved "
                 "sufficient); C15_kw_handler_clean discharges the former assumption about the keyword handler "
                 "for all data, contexts and parameter texts (unhashable members end in YPE after the repair); "
                 "collectors: the same under the computable guard kc_fragment (leading collector chain whose "
                 "operands select scalars - the property's own restriction), with C15_collector_nonscalar_refuted; "
                 "text glued to a collector ('(a)b', the former finding F25) parses like '(a).b' since the "
                 "repair and is inside the guard; brackets / parentheses that close each other and collectors "
                 "opened inside a [...] segment ('[(a)]', '(][max(())]', the former finding F30) are refused by the "
                 "repaired parser (C15_bracket_collector_refused); for paths prepared from a TEXT the fragment's "
                 "type/attribute pairing demands are theorems now (C15_prepared_in_fragment[_kw], from the parser "
                 "invariant C14_segments_paired) and C15_*_only_ype_text state the property for every text without a "
                 "collector segment (a keyword parameter text that does not split, '[max(\\')]', the former finding F31, is a "
                 "YAMLPathException since the repair: C15_kw_params_refused; C15_kw_handler_clean holds for every parameter text).  Tie: exhaustive small documents x paths "
                 "with indexes / slice bounds negative, in range, out of range, all search forms, keyword "
                 "segments at every position, scalar collectors; required / optional / exists()."),
        "design_ref": "DESIGN.md section 4 (C15), docs/C15.md",
        "note": NOTE_COMMON + "  Python's recursion limit cannot be exhibited by a Gallina model (deep documents are run on the implementation only).",
        "technique": "Coq proof (stream invariant over a fuelled evaluator model with the keyword model plugged in; fuel sufficiency) + differential correspondence",
    },
    "C01": {
        "text": ("18 theorems (Coq, no axioms) over the evaluator model Eval.v (processor.py's query side, Python "
                 "generators as streams): C01_required_sem_partial - for every non-null document and every path of "
                 "the fragment (key incl. Array-of-Hashes pass-through, index, slice, anchor, all five candidate "
                 "loops of a search on '.', a named attribute or a descendant path, all nine operators, inversion, "
                 "*, ** with and without a following filter) the items of the required query equal the documented "
                 "meaning sem_doc of Spec/SpecC01.v (one declarative sel_* clause per segment kind composed by "
                 "flat_map): same node objects, same order, none missing, none extra, and the stream ends Done "
                 "(or Unmatched when empty); guard = the strict reading marks nothing, i.e. outside the listed "
                 "finding F12a (descendant search reaching several nodes), with a _refuted witness and "
                 "non-vacuity Examples (F29, wildcard + filter over a set, is repaired and inside the "
                 "theorem); C01_optional_on_existing_partial "
                 "(optional = required as streams, nothing created; guard excludes F16b, a branch lacking a creatable "
                 "segment; F10 - the walk stopping at an intermediate null - is repaired and its clause gone); exists() iff the "
                 "required query yields a node; C01_notation - dot and slash texts of the same segments (every "
                 "segment list C08's wf accepts, all kinds) prepare alike and the required query and exists() give "
                 "EQUAL streams: same results, order, coordinates (equal escaped segments from C08; the unescaped "
                 "twin parse is read by the required driver for the segment type / collector attributes only); "
                 "C01_results_doc_ordered_partial - with ** only as the last segment the results' locations are "
                 "pairwise in strict document order (each node once, none with a descendant; ** + another segment "
                 "is the _refuted witness).  Tie: model vs "
                 "implementation on (location, identity) lists, plus the EXTRACTED spec and an independent "
                 "Python reference as further opinions, on every case."),
        "design_ref": "DESIGN.md section 4 (C01), Appendix C, docs/C01.md",
        "note": NOTE_COMMON,
        "technique": "Coq proof (one lemma per segment handler vs a declarative spec; induction on path fuel and data) + differential correspondence + reference-semantics judge",
    },
    "C09": {
        "text": ("Two parts, both run by ./check C09.  Purity (Properties/C09.v, evaluator model Eval.v): for every "
                 "document and EVERY path (collectors with +, - and & included, at any nesting) no stream of a "
                 "required query or of exists() ends in a write to the document (C09_required_pure / "
                 "C09_exists_pure, full theorems since the repair of F16: (h)-(h.a) used to delete h.a from the "
                 "loaded document, the subtraction now reduces a shallow copy).  Creation (Properties/C09b.v, models Create.v / "
                 "Mutate.v): for all well-formed documents and all straight key/index paths with an existing prefix "
                 "and a missing tail of any lengths, every node that existed before keeps its place, info and value - "
                 "except, when the existing prefix ends at a null with segments to go, that null, which becomes a "
                 "new container holding the tail (C09_create_frame, no guard, states exactly this) -, the path "
                 "resolves in the new document to the supplied value and "
                 "sequences are padded exactly to the requested index (C09_create_resolves_partial / "
                 "C09_create_pads_document_partial; guard = listed finding F25 tail below "
                 "a set, _refuted witness; F10b null in the prefix is repaired and inside the theorems); a tail nothing can be "
                 "built for (on a straight path: a negative index beneath a missing element) is refused before anything "
                 "is built (C09_create_unbuildable_tail_refused / _beneath_null_refused, since the repair of F-C11-5); in SET mode the "
                 "creation composes with _update_node on the yielded coordinate: walking the path in the final document "
                 "reaches the node make_new_node built, holding the value in the requested format "
                 "(C09_create_set_composes_partial, same guard).  Tie: a deep snapshot (structure + identities + anchors) of the real "
                 "document around every query; creation compared node by node with object identities."),
        "design_ref": "DESIGN.md section 4 (C09), docs/C09.md, docs/C09b.md",
        "note": NOTE_COMMON + "  Optional queries that create nodes are F16b / the creation half.",
        "technique": "Coq proof (no-mutation stream invariant; embedding/frame lemma for creation) + snapshot differential correspondence",
    },
    "C02": {
        "text": ("19 theorems (Coq, no axioms) over the evaluator model and the path builder: for every real result of every path of the "
                 "C01 fragment (slices only as the last segment) the parent holds the node under the parentref "
                 "(hash: membership of the pair with an equal key; sequence: the element at the index; set: "
                 "membership) and the ancestry chain walks from the document root, each link a child step, to the "
                 "node (C02_results_located, C02_parentref, C02_ancestry); for documents whose mapping keys are pairwise "
                 "unequal (every loaded document) in the Doc.child form parent[parentref] = node (C02_parentref_child).  "
                 "Path text: C02_path_resolves_partial - "
                 "for every location whose keys are safe (computable guard pb_safe = exactly the complement of "
                 "listed finding F26: non-empty, no *, no leading &, no back-slash before a back-slash / "
                 "separator / ( [ ] blank quote, integer keys without a string twin, no leading / in dot "
                 "notation; keys with EVERY escapable character are safe) the text the library builds "
                 "(escape_path_section per key, [n] per index), fed back, parses to one KEY/INDEX segment per "
                 "step and the required query yields exactly the node there, in both notations, also for "
                 "str() of the reported path; seven _refuted witnesses, one per failing clause.  "
                 "C02_reported_path_is_built_partial: EVERY handler's reported path (key incl. pass-through, index, "
                 "hash / set slices, all search loops, * and ** with and without a following segment) IS that text "
                 "for the result's location (read off the ancestry), and the whole NodeCoords is the straight walk's; "
                 "guards: no [&anchor] segment (F27), no index counted from the end, no integer-looking key spelled "
                 "differently from str(int) - witnesses of what is reported instead.  Hence "
                 "C02_every_reported_path_resolves_partial: re-evaluating the reported path of ANY real result, in "
                 "either notation, yields exactly that result (guards: pb_safe of its location and the two above).  Tie: "
                 "parent identity, parentref, reported path, full ancestry of every result; the judge "
                 "indexes the real parent, walks the real ancestry and re-queries str(path) in both notations; "
                 "F27 ([&anchor] paths matching other nodes)."),
        "design_ref": "DESIGN.md section 4 (C02), docs/C02.md",
        "note": NOTE_COMMON,
        "technique": "Coq proof (coordinate invariant through every handler, induction on path fuel and data) + differential correspondence + re-resolution judge",
    },
}
