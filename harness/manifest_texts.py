"""Texts of the MANIFEST entries (tools/mkmanifest.py assembles MANIFEST.json from them)."""

NOTE_COMMON = ("Trusted: Coq kernel (coqchk in the thorough tier), extraction (ExtrOcamlBasic/ExtrOcamlString), the "
               "OCaml driver, the Python harness, tables.py.  The theorems speak about the model; the model equals "
               "the code only as far as the differential correspondence run shows (zero disagreements required on "
               "every run).  External libraries (ast.literal_eval, re, ruamel load/dump, json, argparse) are oracles.")

DEFAULT_UNCLAIMED = ("not claimed yet: model, theorems and correspondence check are still under construction "
                     "(DESIGN.md section 10); the technique applies, nothing is declared inapplicable")
UNCLAIMED = {}

NOTES = ("Every check is ./check Cxx: rebuild the Coq closure of the property from /repo's current source tables, "
         "re-check Properties/Cxx.v (Print Assumptions recorded), run the extracted model against the real "
         "implementation, evaluate the property on the implementation's own observations.  See DESIGN.md section 0.")

CLAIMED = {
    "C14": {
        "text": ("Theorems C14_total / C14_str_total / C14_params_total (Coq, no axioms): for every string, separator "
                 "setting and escape mode the parser model ends in a segment list or a YAMLPathException value, never "
                 "a Python crash; termination is structural recursion over the text.  The model is a literal "
                 "rule-list transcription of the if/elif chain of YAMLPath._parse_path, tied to /repo on every run by "
                 "a differential check of the extracted model against the real parser (all strings up to length 4 "
                 "over the 27 significant characters, plus random) and by tables regenerated from the source."),
        "design_ref": "DESIGN.md section 4 (C14), docs/C14.md",
        "note": NOTE_COMMON,
        "technique": "Coq proof (invariant over a rule-list parser model) + differential correspondence of the extracted model",
    },
    "C12": {
        "text": ("17 theorems (Coq, no axioms) for all values, terms and oracle instances: each of the nine operators "
                 "of the Searches.search_matches model equals the documented typed rule (numeric equality for same-kind "
                 "numbers, case-insensitive boolean spellings, numeric ordering and false against non-numeric terms, "
                 "lexicographic text ordering, prefix/suffix/substring on the value's text, unanchored regex), never "
                 "raises for a well-formed term, and the candidate loops of _get_nodes_by_search are pointwise and "
                 "complementary under inversion (the multi-descendant hash case is a guarded _partial theorem with a "
                 "_refuted witness = known finding F12a).  Tie: the complete operator x haystack x needle grid "
                 "(real ruamel-loaded scalars included) plus the loops through Processor.get_nodes on every run."),
        "design_ref": "DESIGN.md section 4 (C12), docs/C12.md",
        "note": NOTE_COMMON,
        "technique": "Coq proof (case analysis over typed-value kinds; loop lemmas) + exhaustive-grid differential correspondence",
    },
    "C13": {
        "text": ("14 theorems (Coq, no axioms): max/min (plain and inverted) over lists of same-kind numbers and over "
                 "any Array-of-Hashes by attribute (present, absent, repeated, null) select exactly the extremal "
                 "members / exactly the others, by a loop invariant over the scanned prefix; has_child selects "
                 "exactly the hashes having / lacking the key; parent(n) is the n-th ancestor and refuses to climb "
                 "above the root; name() is the parent reference.  unique / distinct / hash-of-hashes max-min / text "
                 "collections are covered by the model, the correspondence run and the judge but have no theorem "
                 "yet (stated in docs/C13.md).  Tie: every keyword x inversion x parameter form through "
                 "KeywordSearches.search_matches and end to end through Processor.get_nodes."),
        "design_ref": "DESIGN.md section 4 (C13), docs/C13.md",
        "note": NOTE_COMMON,
        "technique": "Coq proof (loop invariants over a model of keywordsearches.py) + differential correspondence",
    },
}
