"""Per-property configuration of ./check, assembled from the CONFIG dict of
every harness/cNN.py module (claimed properties only)."""
import glob
import importlib
import os
import sys

_HERE = os.path.dirname(os.path.abspath(__file__))
if _HERE not in sys.path:
    sys.path.insert(0, _HERE)

COMMON_TB = [
    "Coq 8.16.1 kernel (coqc; coqchk in the thorough tier); vm_compute for finite side conditions; no native_compute",
    "axioms: none declared; what Print Assumptions prints under each theorem is recorded in coverage.print_assumptions",
    "extraction: ExtrOcamlBasic + ExtrOcamlString (bool/option/unit/prod/list/sumbool -> OCaml, ascii -> char, "
    "string -> char list); Z/N/nat/Q kept as Coq inductives; OCaml 4.13.1; hand-written ocaml/sexp.ml wire.ml "
    "drv_*.ml driver.ml",
    "correspondence harness (Python): generators, canonical forms, exception -> family mapping, object-identity "
    "numbering via id()",
    "harness/tables.py (Python ast, fail-closed) regenerating coq/Gen/Generated.v from /repo",
]

PROPS = {}
for _f in sorted(glob.glob(os.path.join(_HERE, "c[0-9][0-9]*.py"))):
    _name = os.path.basename(_f)[:-3]
    _m = importlib.import_module(_name)
    if not hasattr(_m, "CONFIG"):
        continue
    _c = dict(_m.CONFIG)
    _c["module"] = _name
    _c["trusted_base"] = COMMON_TB + list(_c.get("trusted_base", []))
    PROPS[_c["id"]] = _c
