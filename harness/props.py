"""Per-property configuration of ./check (claimed properties only)."""

COMMON_TB = [
    "Coq 8.16.1 kernel (coqc; coqchk in the thorough tier); vm_compute for finite side conditions; no native_compute",
    "no axioms: Print Assumptions output is recorded in coverage.print_assumptions",
    "extraction: ExtrOcamlBasic + ExtrOcamlString (bool/option/unit/prod/list/sumbool -> OCaml, ascii -> char, string -> char list); Z/N/nat kept as Coq inductives; OCaml 4.13.1; hand-written ocaml/sexp.ml wire.ml drv_*.ml driver.ml",
    "correspondence harness (Python): generators, canonical forms, exception -> family mapping",
    "harness/tables.py (Python ast, fail-closed) regenerating coq/Gen/Generated.v from /repo",
]

PROPS = {
    "C14": {
        "module": "c14",
        "rule": ("every string of length <= 4 (thorough adds length 5 over rotating 12-symbol "
                 "sub-alphabets) over the 27-symbol alphabet of all syntactically significant characters plus a b 1, "
                 "then seeded random strings (character-level, token-level, printable ASCII and non-ASCII) up to "
                 "length 40; each under auto/dot/slash separator x escaped parse, unescaped parse, str(); plus "
                 "SearchKeywordTerms.parameters.  non-trivial = length >= 2; distinct = distinct text (measured with a hash set)."),
        "trusted_base": COMMON_TB + [
            "modelled, not verified: yamlpath/yamlpath.py _parse_path/_expand_splats/original setter/"
            "_stringify_yamlpath_segments/ensure_escaped, path/*.py __str__ and parameters, enums' str()",
            "Python str modelled as UTF-8 byte strings: int() on non-ASCII digits, non-ASCII whitespace in strip(), "
            "and non-ASCII case mapping are outside the modelled domain (generators avoid them)",
        ],
        "assumptions": [
            "the model is the code only as far as the correspondence run shows (zero disagreements on the inputs listed in coverage)",
            "forced separator settings are installed by assigning YAMLPath._separator, the field the parser reads "
            "(the constructor argument is overwritten by the `original` setter)",
        ],
    },
}
