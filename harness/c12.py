"""C12: search operators compare values by the documented typed rules; an
inverted search yields exactly the candidates the plain search does not.

Case kinds
  ("sm", method, needle, hay)   Searches.search_matches(method, needle, haystack) and
                                Nodes.typed_value(haystack), against Searches.v
  ("loop", yaml_text, attr, method, term)
                                Processor.get_nodes over the five candidate loops of
                                _get_nodes_by_search, plain and inverted, against
                                SearchLoops.v (which candidates are yielded) on the
                                candidates the harness reads off the real document;
                                the harness's candidates against the EXTRACTED
                                SearchCands.sc_cands_doc on the encoded document; and
                                the real yields against sc_run . sc_cands_doc
                                (document -> candidates -> loop, all in Coq)
A haystack `hay` is ("py", tagged-value) -- a plain Python value -- or
("yaml", text) -- the scalar ruamel.yaml really loads from `text`.
"""
import datetime
import itertools
import math
import random
import re
from ast import literal_eval

from common import hexs, exc_line
from docenc import pyval_sexp, Unsupported, is_set
import oracles

CONFIG = {
    "id": "C12",
    "rule": ("complete grid 9 operators x 56 plain-Python haystacks + 40 ruamel-loaded haystacks x 64 needles "
             "(null, booleans in several spellings, anchored booleans, ints incl. negative/zero/2**70, floats, numeric "
             "strings, text, empty string, look-alike literals 0x10 1_0 1e3 (1) [1] None {[1]: 2}, dates, "
             "ScalarInt/ScalarFloat/ScalarBoolean/HexInt/OctalInt/PlainScalarString objects), enumerated completely on "
             "every run; then seeded random scalar pairs (typed generators: ints near each other, floats, numeric "
             "text with blanks/signs/underscores, words sharing prefixes, regex fragments); then the five candidate "
             "loops of Processor._get_nodes_by_search (list elements, AoH, hash keys on '.', hash attribute, hash "
             "descendant, set members, scalar self) on generated documents x attribute x operator x term, plain and "
             "inverted -- three ties per document: the loops of SearchLoops.v on the candidates the harness reads "
             "off the real document; those candidates against the extracted SearchCands.sc_cands_doc on the "
             "encoded document (every loop case: list '.', AoH key-name shortcut incl. null elements, named "
             "attribute, descendant path, hash keys / attribute / descendants, set, scalar); and the real yields "
             "against sc_run . sc_cands_doc (document -> candidates -> loop entirely in Coq).  non-trivial = haystack is not None and needle non-empty (sm) / at least one candidate "
             "(loop); distinct = distinct (operator, needle, haystack) or (document, attribute, operator, term)."),
    "trusted_base": [
        "modelled, not verified: yamlpath/common/searches.py Searches.search_matches, yamlpath/common/nodes.py "
        "Nodes.typed_value, the candidate loops of yamlpath/processor.py Processor._get_nodes_by_search",
        "oracles (Section variables in Coq; finite tables of the real library's answers in the correspondence run): "
        "ast.literal_eval, re.compile(p).search(s), str() of containers; the nodes Processor._get_required_nodes yields "
        "for a descendant attribute path are computed by the evaluator model (Eval.ev) inside SearchCands.sc_cands_doc "
        "and compared with the real evaluator's on every case",
        "floats are exact rationals carrying their repr(); NaN and +-inf are outside the generators; str.lower() is "
        "ASCII lower-casing (no non-ASCII character lower-cases to a letter of 'true'/'false')",
    ],
    "assumptions": [
        "the model is the code only as far as the correspondence run shows (zero disagreements on the inputs listed in coverage)",
        "bool is a kind of int, as in Python: True = 1 for numeric equality and ordering (the property text does not say otherwise)",
    ],
}

METHODS = ["EQUALS", "STARTS_WITH", "ENDS_WITH", "CONTAINS", "GREATER_THAN", "LESS_THAN",
           "GREATER_THAN_OR_EQUAL", "LESS_THAN_OR_EQUAL", "REGEX"]
OPS = {"EQUALS": "=", "STARTS_WITH": "^", "ENDS_WITH": "$", "CONTAINS": "%", "GREATER_THAN": ">", "LESS_THAN": "<",
       "GREATER_THAN_OR_EQUAL": ">=", "LESS_THAN_OR_EQUAL": "<=", "REGEX": "=~"}

BIG = 2 ** 70

PY_HAYS = [
    ("none",), ("bool", True), ("bool", False),
    ("int", 0), ("int", 1), ("int", -1), ("int", 5), ("int", 10), ("int", 16), ("int", 42), ("int", 1000),
    ("int", BIG), ("int", -BIG),
    ("float", 0.0), ("float", 1.0), ("float", 1.5), ("float", -2.5), ("float", 1000.0), ("float", 1e22),
    ("float", 0.1), ("float", 5.0),
    ("str", ""), ("str", "abc"), ("str", "ABC"), ("str", "ab"), ("str", "true"), ("str", "True"), ("str", "TRUE"),
    ("str", "false"), ("str", "tRuE"), ("str", "yes"), ("str", "5"), ("str", "05"), ("str", "5.0"), ("str", " 5"),
    ("str", "5 "), ("str", "-1"), ("str", "+1"), ("str", "1_0"), ("str", "0x10"), ("str", "1e3"), ("str", "(1)"),
    ("str", "[1]"), ("str", "None"), ("str", "{[1]: 2}"), ("str", "{1: 2}"), ("str", "'a'"), ("str", "1,2"),
    ("str", "2001-01-01"), ("date", "2001-01-01"), ("str", "null"), ("str", "ab c"), ("str", "a.b"),
    ("str", "Zebra"), ("str", "ß日"), ("str", "1.5"),
]
YAML_HAYS = [
    "true", "&a true", "&a false", "False", "TRUE", "5", "&a 5", "0x10", "0o14", "1_0", "-7", "0", "&z 0", "012",
    "1.5", "&f 1.5", "1e3", "1.0e+3", ".5", "-2.5", "~", "null", '"12"', "'true'", "abc", "&s abc", "2001-01-01",
    "2001-01-01T12:00:00Z", '""', '"0x10"', "yes", "|\n  multi\n  line", "'5.0'", "+1", "1000", "&b True",
    '"[1]"', '"(1)"', "1.", "ABC",
]
NEEDLES = [
    "", "true", "True", "TRUE", "false", "False", "tRuE", "0", "1", "-1", "5", "05", "10", "16", "42", "1000",
    "1_0", "0x10", "1e3", "1000.0", "1.5", "1.50", "-2.5", ".5", "5.0", "0.0", " 5", "5 ", "(1)", "[1]", "None",
    "{[1]: 2}", "abc", "ab", "bc", "b", "ABC", "abd", "a.c", "^a", "c$", ".*", "(", "[", "a|5", "2001-01-01", "2001",
    str(BIG), str(BIG + 1), "-%d" % BIG, "1e22", "yes", "null", "12", "multi", "\\d+", "^\\d+$", "'a'", "a", "1,2",
    "ß", "00:00", "Zebra", "e",
]

_ENV = {}


def init_worker():
    from ruamel.yaml import YAML
    from yamlpath.common import Searches, Nodes
    from yamlpath.enums import PathSearchMethods
    from yamlpath import Processor, YAMLPath
    from yamlpath.wrappers import ConsolePrinter
    from types import SimpleNamespace
    log = ConsolePrinter(SimpleNamespace(quiet=True, verbose=False, debug=False))
    _ENV.update(YAML=YAML, Searches=Searches, Nodes=Nodes, M=PathSearchMethods, Processor=Processor,
                YAMLPath=YAMLPath, log=log, cache={})


def load_yaml(text):
    y = _ENV["YAML"]()
    return y.load(text)


def hay_value(hay):
    if hay[0] == "yaml":
        c = _ENV["cache"]
        if hay[1] not in c:
            c[hay[1]] = load_yaml("- " + hay[1].replace("\n", "\n  "))[0]
        return c[hay[1]]
    t = hay[1]
    if t[0] == "none":
        return None
    if t[0] == "date":
        return datetime.date.fromisoformat(t[1])
    return t[1]


# ---------------------------------------------------------------- the property, independently of the model
def is_boolean(v):
    """A boolean scalar: Python bool, or ruamel's ScalarBoolean (an anchored YAML boolean)."""
    return type(v) is bool or type(v).__name__ == "ScalarBoolean"


def spec_typed(v):
    """The typed reading of a scalar: YAML/Python literal text is read as its literal, true/false in any
    letter case as the boolean, everything else stays what it is."""
    if v is None:
        return None
    if is_boolean(v):
        return bool(v)
    if isinstance(v, str):
        if v.lower() in ("true", "false"):
            return v.lower() == "true"
        try:
            return literal_eval(str.__str__(v))
        except Exception:  # noqa  -- text that is no literal stays text
            return v
    return v


def kind(v):
    if type(v) is bool:
        return "bool"
    if isinstance(v, int):
        return "int"
    if isinstance(v, float):
        return "float"
    return "text"


def spec_answer(method, needle, hay):
    """The documented answer, or None where the documentation is silent (literal_eval itself fails abnormally)."""
    th = spec_typed(hay)
    tn = spec_typed(needle)
    kh, kn = kind(th), kind(tn)
    text = str(th)
    if method == "EQUALS":
        if kh == "bool" and kn == "bool":
            return th == tn
        if kh in ("bool", "int") and kn == "int":
            return th == tn
        if kh == "float" and kn == "float":
            return th == tn
        return text == needle
    if method == "STARTS_WITH":
        return text.startswith(needle)
    if method == "ENDS_WITH":
        return text.endswith(needle)
    if method == "CONTAINS":
        return needle in text
    if method == "REGEX":
        return re.compile(needle).search(text) is not None
    if kh != "text":
        if kn == "text":
            return False
        return {"GREATER_THAN": th > tn, "LESS_THAN": th < tn, "GREATER_THAN_OR_EQUAL": th >= tn,
                "LESS_THAN_OR_EQUAL": th <= tn}[method]
    return {"GREATER_THAN": text > needle, "LESS_THAN": text < needle, "GREATER_THAN_OR_EQUAL": text >= needle,
            "LESS_THAN_OR_EQUAL": text <= needle}[method]


def well_formed(method, needle, hay):
    """Terms for which the property promises an answer: a regular expression must compile."""
    if method == "REGEX":
        try:
            re.compile(needle)
        except re.error:
            return False
    return True


# ---------------------------------------------------------------- requests / observations
def finite(v):
    return not (isinstance(v, float) and (math.isnan(v) or math.isinf(v)))


def supported_text(s):
    """literal_eval(s) must be encodable (no inf/nan)."""
    try:
        v = literal_eval(s)
    except Exception:  # noqa
        return True
    return finite(v)


def hay_sexp(h):
    """Wire form of a haystack: ruamel's ScalarBoolean is told apart from a plain int."""
    if type(h).__name__ == "ScalarBoolean":
        return "(sb %s)" % ("true" if h else "false")
    return pyval_sexp(h)


def sm_requests(case):
    _, method, needle, hay = case
    h = hay_value(hay)
    lt = oracles.lit_table([h, needle])
    pairs = []
    if method == "REGEX":
        for f in (spec_typed_impl, spec_typed):
            try:
                pairs.append((needle, str(f(h))))
            except Exception:  # noqa
                pass
    rt = oracles.re_table(pairs)
    return ["(typed-value %s %s)" % (hay_sexp(h), lt),
            "(search-matches %s %s %s %s %s)" % (method, hexs(needle), hay_sexp(h), lt, rt)]


def spec_typed_impl(h):
    """str() argument of the implementation's regex search: the typed value as the code computes it (used
    only to decide which (pattern, text) pair the re table must contain)."""
    if h is None:
        return None
    if isinstance(h, str) or type(h) is bool:
        return spec_typed(h)
    return h


def sm_observe(case):
    _, method, needle, hay = case
    E = _ENV
    h = hay_value(hay)
    out = []
    try:
        out.append("(ok %s)" % pyval_sexp(E["Nodes"].typed_value(h)))
    except Exception as e:  # noqa
        out.append(exc_line(e))
    try:
        r = E["Searches"].search_matches(E["M"][method], needle, h)
        out.append("(ok %s)" % ("true" if r is True else "false" if r is False else "?" + repr(r)))
    except Exception as e:  # noqa
        out.append(exc_line(e))
    return out


def sm_judge(case, obs):
    _, method, needle, hay = case
    h = hay_value(hay)
    if not well_formed(method, needle, h):
        return None
    line = obs[1]
    if not line.startswith("(ok"):
        return "search_matches(%s, %r, %r) raised: %s" % (method, needle, h, line)
    want = spec_answer(method, needle, h)
    got = line == "(ok true)"
    if want != got:
        return ("search_matches(%s, %r, %r [%s]) answered %s; the documented rules give %s"
                % (method, needle, h, type(h).__name__, got, want))
    return None


def requests(case):
    if case[0] == "sm":
        return sm_requests(case)
    return loop_requests(case)


def observe(case):
    if case[0] == "sm":
        return sm_observe(case)
    return loop_observe(case)


def judge(case, obs):
    if case[0] == "sm":
        return sm_judge(case, obs)
    return loop_judge(case, obs)


def classify(case, obs):
    if case[0] == "sm":
        _, method, needle, hay = case
        h = hay_value(hay)
        try:
            kh, kn = kind(spec_typed(h)), kind(spec_typed(needle))
        except Exception:  # noqa
            kh = kn = "litcrash"
        res = "T" if obs[1] == "(ok true)" else "F" if obs[1] == "(ok false)" else "X"
        return "sm:%s:%s:%s/%s:%s" % (hay[0], method, kh if h is not None else "none", kn, res)
    return loop_classify(case, obs)


def nontrivial(case, obs):
    if case[0] == "sm":
        return case[2] != "" and hay_value(case[3]) is not None
    return loop_nontrivial(case, obs)


def key(case):
    return repr(case)


def describe(case):
    return {"case": repr(case)}


def undescribe(d):
    return eval(d["case"], {"__builtins__": {}}, {})  # tuples of literals only


# ---------------------------------------------------------------- the candidate loops
def loop_path(attr, method, term, invert):
    op = OPS[method]
    t = "/%s/" % term if method == "REGEX" else term
    return "/top[%s%s%s%s]" % ("!" if invert else "", attr, op, t)


def loop_setup(case):
    """(data, kind, n) for a loop case; cached per worker."""
    _, text, attr, method, term = case
    c = _ENV["cache"]
    k = ("doc", text)
    if k not in c:
        c[k] = load_yaml("top: " + text.replace("\n", "\n  "))
    doc = c[k]
    data = doc["top"]
    if isinstance(data, list):
        kind, n = "list", len(data)
    elif isinstance(data, dict):
        if attr == ".":
            kind, n = "keys", len(data)
        elif attr in data:
            kind, n = "attr", 1
        else:
            kind, n = "desc", 1
    elif is_set(data):
        kind, n = "set", len(data)
    else:
        kind, n = "self", 1
    return doc, data, kind, n


def desc_nodes(ele, attr):
    """What the descendant search looks at: the nodes the attribute path reaches in `ele` (the evaluator's
    answer; public API Processor.get_nodes(mustexist=True) = _get_required_nodes)."""
    E = _ENV
    from yamlpath.exceptions import YAMLPathException
    try:
        return [n.node for n in E["Processor"](E["log"], ele).get_nodes(E["YAMLPath"](attr), mustexist=True)]
    except YAMLPathException:
        return []


def loop_candidates(case):
    """The candidates as SearchLoops.v takes them, plus every value handed to search_matches."""
    _, text, attr, method, term = case
    doc, data, kind, n = loop_setup(case)
    vals = []

    def hv(x):
        vals.append(x)
        return hay_sexp(x)
    if kind == "list":
        is_aoh = all(isinstance(e, dict) or e is None for e in data)
        out = []
        for ele in data:
            if attr == ".":
                if is_aoh:
                    out.append("(key %s %s)" % ("true" if (ele is not None and term in ele) else "false", hv(ele)))
                else:
                    out.append("(key none %s)" % hv(ele))
            elif isinstance(ele, dict) and attr in ele:
                out.append("(attr %s)" % hv(ele[attr]))
            else:
                out.append("(desc (%s))" % " ".join(hv(d) for d in desc_nodes(ele, attr)))
        return kind, out, vals
    if kind in ("keys", "set"):
        return kind, [hv(k) for k in data], vals
    if kind == "attr":
        return kind, [hv(data[attr])], vals
    if kind == "desc":
        return kind, [hv(d) for d in desc_nodes(data, attr)], vals
    return kind, [hv(data)], vals


def loop_requests(case):
    _, text, attr, method, term = case
    kind, cands, vals = loop_candidates(case)
    scal = [v for v in vals if not isinstance(v, (dict, list)) and not is_set(v)]
    lt = oracles.lit_table(scal + [term])
    pairs = []
    if method == "REGEX":
        for v in vals:
            for f in (spec_typed_impl, spec_typed):
                try:
                    pairs.append((term, str(f(v))))
                except Exception:  # noqa
                    pass
    rt = oracles.re_table(pairs)
    doc_sexp, nstr = loop_doc_tables(case)
    return (["(search-loop %s %s %s %s (%s) %s %s)" % (kind, inv, method, hexs(term), " ".join(cands), lt, rt)
             for inv in ("false", "true")]
            + ["(search-cands %s %s %s %s %s %s)" % (hexs(attr), hexs(term), doc_sexp, lt, rt, nstr)]
            + ["(search-doc %s %s %s %s %s %s %s %s)" % (inv, method, hexs(attr), hexs(term), doc_sexp, lt, rt, nstr)
               for inv in ("false", "true")])


def loop_doc_tables(case):
    """The searched node encoded for the model (object identities, anchors, tags) and str() of its containers."""
    import docenc
    doc, data, kind, n = loop_setup(case)
    c = _ENV["cache"]
    k = ("enc", case[1])
    if k not in c:
        sexp, enc = docenc.encode(data)
        ents = []

        def walk(x):
            if isinstance(x, dict):
                ents.append("(i%d %s)" % (enc.oids[id(x)], hexs(str(x))))
                for v in x.values():
                    walk(v)
            elif isinstance(x, (list, tuple)):
                ents.append("(i%d %s)" % (enc.oids[id(x)], hexs(str(x))))
                for v in x:
                    walk(v)
            elif is_set(x):
                ents.append("(i%d %s)" % (enc.oids[id(x)], hexs(str(x))))
        walk(data)
        c[k] = (sexp, "(%s)" % " ".join(ents), enc)
    return c[k][0], c[k][1]


class _DescRaised(Exception):
    pass


def desc_nodes_strict(ele, attr, first_only):
    """The nodes of the descendant search as the loops consume them: the list loop stops the generator after
    its first item (a later exception is never seen), the hash loop may run it to its end."""
    E = _ENV
    from yamlpath.exceptions import YAMLPathException
    items = []
    try:
        for n in E["Processor"](E["log"], ele).get_nodes(E["YAMLPath"](attr), mustexist=True):
            items.append(n.node)
    except YAMLPathException as ex:
        if "Required YAML Path does not match" in str(ex) and not items:
            return []                      # get_nodes(mustexist=True) reports an empty result this way
        if first_only and items:
            return items
        raise _DescRaised()
    return items


def cands_line(case):
    """The harness's own candidate computation in the output format of ocaml/drv_sc.ml."""
    _, text, attr, method, term = case
    doc, data, kind, n = loop_setup(case)
    try:
        if kind == "list":
            is_aoh = all(isinstance(e, dict) or e is None for e in data)
            out = []
            for ele in data:
                if attr == ".":
                    if is_aoh:
                        out.append("(key %s %s)" % ("true" if (ele is not None and term in ele) else "false",
                                                    hay_sexp(ele)))
                    else:
                        out.append("(key none %s)" % hay_sexp(ele))
                elif isinstance(ele, dict) and attr in ele:
                    out.append("(attr %s)" % hay_sexp(ele[attr]))
                else:
                    out.append("(desc (%s))" % " ".join(hay_sexp(d) for d in desc_nodes_strict(ele, attr, True)))
        elif kind in ("keys", "set"):
            out = [hay_sexp(k) for k in data]
        elif kind == "attr":
            out = [hay_sexp(data[attr])]
        elif kind == "desc":
            out = [hay_sexp(d) for d in desc_nodes_strict(data, attr, False)]
        else:
            out = [hay_sexp(data)]
    except _DescRaised:
        return "(raise ype)"
    return "(ok (%s))" % " ".join([kind] + out)


def impl_yields(doc, data, kind, path):
    """Indices of the candidates Processor.get_nodes yields for `path`."""
    E = _ENV
    res = []
    for nc in E["Processor"](E["log"], doc).get_nodes(E["YAMLPath"](path), mustexist=True):
        if kind == "list":
            res.append(int(nc.parentref))
        elif kind == "keys":
            res.append([id(k) for k in data.keys()].index(id(nc.parentref)) if any(
                k is nc.parentref for k in data.keys()) else list(data.keys()).index(nc.parentref))
        elif kind == "set":
            res.append(list(data).index(nc.parentref))
        else:
            res.append(0)
    return res


def loop_observe(case):
    from yamlpath.exceptions import YAMLPathException
    _, text, attr, method, term = case
    doc, data, kind, n = loop_setup(case)
    out = []
    for inv in (False, True):
        try:
            r = impl_yields(doc, data, kind, loop_path(attr, method, term, inv))
            out.append("(ok (%s))" % " ".join("i%d" % i for i in r))
        except YAMLPathException:
            out.append("(ok ())")          # mustexist: no result at all
        except Exception as e:  # noqa
            out.append(exc_line(e))
    # the harness's candidates (read off the real document, descendants by the real evaluator) for the
    # extracted SearchCands.sc_cands_doc; the real yields once more for sc_run . sc_cands_doc
    return out + [cands_line(case)] + out


def parse_ok(obs_line):
    if not obs_line.startswith("(ok"):
        return None
    return [int(x[1:]) for x in obs_line[4:].strip("()").split()]


def loop_ndesc(case):
    doc, data, kind, n = loop_setup(case)
    return len(desc_nodes(data, case[2])) if kind == "desc" else 0


def loop_judge(case, obs):
    """Inverted = complement of plain over the candidates; and on lists the verdict on an element does not
    depend on its neighbours (the same element searched alone gets the same verdict)."""
    _, text, attr, method, term = case
    if method == "REGEX":
        try:
            re.compile(term)
        except re.error:
            return None
    doc, data, kind, n = loop_setup(case)
    plain, inv = parse_ok(obs[0]), parse_ok(obs[1])
    if plain is None or inv is None:
        return "search %s over %s raised: %s / %s" % (loop_path(attr, method, term, False), text, obs[0], obs[1])
    if sorted(inv) != sorted(set(range(n)) - set(plain)) or len(set(plain)) != len(plain):
        return ("over %r the plain search %s yields candidates %s and the inverted search yields %s of %d"
                % (text, loop_path(attr, method, term, False), plain, inv, n))
    if kind == "list" and attr != ".":
        E = _ENV
        for i, ele in enumerate(data):
            alone = {"top": [ele]}
            try:
                r = impl_yields(alone, alone["top"], "list", loop_path(attr, method, term, False))
            except Exception:  # noqa
                r = []
            if (0 in r) != (i in plain):
                return ("over %r the plain search %s %s element %d, but %s it when that element is searched alone"
                        % (text, loop_path(attr, method, term, False), "yields" if i in plain else "does not yield",
                           i, "yields" if 0 in r else "does not yield"))
    return None


def loop_classify(case, obs):
    doc, data, kind, n = loop_setup(case)
    plain, inv = parse_ok(obs[0]), parse_ok(obs[1])
    tag = "X" if plain is None or inv is None else ("none" if not plain else "all" if not inv else "some")
    extra = ""
    if kind == "desc":
        extra = ":nd%d" % min(loop_ndesc(case), 2)
    return "loop:%s%s:%s:%s" % (kind, extra, case[3], tag)


def loop_nontrivial(case, obs):
    return loop_setup(case)[3] >= 1


def f12a_multi_descendant(case, obs):
    """The hash-descendant search whose attribute path reaches more than one node."""
    return case[0] == "loop" and loop_ndesc(case) > 1


FINDING_PREDS = {"multi_descendant_hash_search": f12a_multi_descendant}


# ---------------------------------------------------------------- generators
def grid():
    hays = [("py", t) for t in PY_HAYS] + [("yaml", t) for t in YAML_HAYS]
    for m in METHODS:
        for h in hays:
            for n in NEEDLES:
                yield ("sm", m, n, h)


WORDS = ["a", "ab", "abc", "abd", "b", "B", "Abc", "z", "", "true", "False", "x y", "a.b", "10", "9", "-3", "3.0",
         "3.5", "1e2", "0x1f", "0b11", "1_000", " 7", "7 ", "+7", "07", "(2)", "[2]", "{2}", "'q'", "\"q\"", "None",
         "()", "1,", "2j", "b'x'", "...", "a*", "a+", "[a-c]", "^ab", "c$", "\\w", "(", ")", "a{2}", "é"]


def rand_value(rng):
    k = rng.randrange(10)
    if k == 0:
        return ("py", ("int", rng.randint(-12, 12)))
    if k == 1:
        return ("py", ("int", rng.choice([BIG, -BIG, BIG + 1, 10 ** 30, 255, 256, 31])))
    if k == 2:
        return ("py", ("float", rng.choice([0.5, 1.5, -1.5, 2.0, 3.0, 3.5, 100.0, 1e16, 1e-3, 12.0, 0.1 + 0.2, -0.0])))
    if k == 3:
        return ("py", ("bool", rng.random() < 0.5))
    if k == 4:
        return ("py", ("none",))
    if k == 5:
        return ("yaml", rng.choice(YAML_HAYS))
    if k == 6:
        return ("py", ("str", str(rng.randint(-12, 12)) + rng.choice(["", "", ".0", ".5", " ", "_0"])))
    return ("py", ("str", rng.choice(WORDS) + rng.choice(["", "", rng.choice(WORDS)])))


def rand_needle(rng):
    k = rng.randrange(8)
    if k == 0:
        return str(rng.randint(-12, 12))
    if k == 1:
        return rng.choice(["0.5", "1.5", "-1.5", "2.0", "3.0", "3.5", "100.0", "1e16", "0.001", "12.0", "3.50", "0.30000000000000004"])
    if k == 2:
        return rng.choice(["true", "false", "True", "FALSE", "tRUE", "fAlse"])
    if k == 3:
        return rng.choice(NEEDLES)
    if k == 4:
        return str(rng.randint(-12, 12)) + rng.choice(["", ".0", ".5", " ", "_0"])
    return rng.choice(WORDS) + rng.choice(["", "", rng.choice(WORDS)])


def chunks(tier, seed):
    size = 600
    buf = []
    for c in grid():
        buf.append(c)
        if len(buf) >= size:
            yield buf
            buf = []
    rng = random.Random(seed)
    nrand = 200000 if tier == "thorough" else 20000
    for i in range(nrand):
        n = rand_needle(rng)
        h = rand_value(rng)
        if not supported_text(n) or (h[0] == "py" and h[1][0] == "str" and not supported_text(h[1][1])):
            continue
        buf.append(("sm", METHODS[i % 9], n, h))
        if len(buf) >= size:
            yield buf
            buf = []
    for c in loop_cases(tier, seed):
        buf.append(c)
        if len(buf) >= size:
            yield buf
            buf = []
    if buf:
        yield buf


LOOP_DOCS = [
    "[1, 2, abc, true, 1.5, ~, '1']",
    "[{a: 1, b: x}, {a: 2}, {b: 1}]",
    "[{a: {k: 1}}, {c: 2}, {a: {k: 2}}, {a: 1}]",
    "[{a: 1}, 5, [1, 2], {a: 5}, {b: 1}]",
    "[{b: 1}, {c: 2}]",
    "[{c: 2}, {b: 1}]",
    "[&t true, false, *t, 1]",
    "[{a: 1}, ~, {a: 2}, {b: 2}]",
    "[{a: &t true}, {a: true}, {a: 'true'}, {b: *t}]",
    "[]",
    "[[1, a], [2], {a: [1, 2]}]",
    "{a: 1, b: 2, abc: 3, 1: x, false: y}",
    "{a: {x: 1, y: 2}, b: 5}",
    "{a: {k: 1}, c: {a: 1}}",
    "{a: [1, 2], b: {k: {q: 1}}}",
    "{}",
    "!!set {a: ~, b: ~, 1: ~, abc: ~}",
    "5", "abc", "true", "&x true", "~", "1.5", "'1'",
]
LOOP_ATTRS = [".", "a", "b", "a.k", "a.*", "zz", "b.k.q", "a.x"]
LOOP_TERMS = ["1", "2", "a", "abc", "true", "5", "x", "k", "a.", "1.5", "[ab]"]

ELEMS = ["1", "2", "abc", "true", "&t%d true", "~", "{a: 1}", "{a: 2}", "{b: 1}", "{a: {k: 1}}", "{a: {k: 2}}",
         "{c: 2}", "[1, 2]", "{a: abc, b: 1}", "{a: true}", "{a: [1, 2]}", "{a: {x: 1, y: 2}}", "x", "1.5", "{a: ~}"]


def loop_cases(tier, seed):
    for d in LOOP_DOCS:
        for a in LOOP_ATTRS:
            for m in METHODS:
                for t in LOOP_TERMS:
                    c = ("loop", d, a, m, t)
                    if loop_case_ok(c):
                        yield c
    rng = random.Random(seed + 12)
    nrand = 30000 if tier == "thorough" else 4000
    for i in range(nrand):
        n = rng.randint(0, 5)
        els = [rng.choice(ELEMS) for _ in range(n)]
        els = [e % j if "%d" in e else e for j, e in enumerate(els)]
        shape = rng.randrange(4)
        if shape == 0 and els:
            d = "{%s}" % ", ".join("%s: %s" % (k, e) for k, e in zip(["a", "b", "k", "abc", "1"], els))
        else:
            d = "[%s]" % ", ".join(els)
        c = ("loop", d, rng.choice(LOOP_ATTRS), rng.choice(METHODS), rng.choice(LOOP_TERMS))
        if loop_case_ok(c):
            yield c


def loop_case_ok(case):
    """Inside the modelled domain: the path text parses back to the intended search terms.  (A null element
    of an Array-of-Hashes under a search on '.' is inside it since the repair `ele is not None and term in ele`.)"""
    _, text, attr, method, term = case
    from yamlpath import YAMLPath
    from yamlpath.enums import PathSegmentTypes, PathSearchMethods
    for inv in (False, True):
        try:
            segs = list(YAMLPath(loop_path(attr, method, term, inv)).escaped)
        except Exception:  # noqa
            return False
        if len(segs) != 2 or segs[1][0] is not PathSegmentTypes.SEARCH:
            return False
        t = segs[1][1]
        if (t.inverted, t.method, t.attribute, t.term) != (inv, PathSearchMethods[method], attr, term):
            return False
    return True
