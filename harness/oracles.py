"""Finite oracle tables for the external libraries the models treat as
oracles (ast.literal_eval, re): the real library's answers for exactly the
strings that occur in a case, in the wire format of ocaml/drv_search.ml."""
import re
from ast import literal_eval

from common import hexs
from docenc import pyval_sexp


_CAUGHT = None


def _caught_by_typed_value():
    """The exception classes Nodes.typed_value swallows around literal_eval,
    established by probing the real function (so the table follows the code:
    ValueError/SyntaxError always; TypeError/MemoryError/RecursionError once
    typed_value catches every error literal_eval documents)."""
    global _CAUGHT
    if _CAUGHT is None:
        caught = (ValueError, SyntaxError)
        try:
            from yamlpath.common import Nodes
            Nodes.typed_value("{[1]: 2}")
            caught = (ValueError, SyntaxError, TypeError, MemoryError, RecursionError)
        except TypeError:
            pass
        except Exception:  # noqa
            pass
        _CAUGHT = caught
    return _CAUGHT


def litres(text):
    try:
        v = literal_eval(text)
    except _caught_by_typed_value():
        return "fail"
    except Exception as e:  # noqa  (TypeError for "{[1]: 2}", MemoryError, RecursionError, ...)
        return "(crash %s)" % type(e).__name__
    return "(val %s)" % pyval_sexp(v)


def lit_text_for(value):
    """The text Nodes.typed_value hands to literal_eval for this scalar, or
    None when it hands over a non-str (which always raises ValueError)."""
    if value is None:
        return None
    low = str(value).lower()
    if low in ("true", "false"):
        return str(value).title()
    if isinstance(value, str):
        return str.__str__(value)
    return None


def lit_table(values):
    seen = {}
    for v in values:
        t = lit_text_for(v)
        if t is not None and t not in seen:
            seen[t] = litres(t)
    return "(%s)" % " ".join("(%s %s)" % (hexs(t), r) for t, r in seen.items())


def reres(pattern, text):
    try:
        m = re.compile(pattern).search(text)
    except re.error:
        return "error"
    return "(m %s)" % ("true" if m is not None else "false")


def re_table(pairs):
    seen = {}
    for p, t in pairs:
        if (p, t) not in seen:
            seen[(p, t)] = reres(p, t)
    return "(%s)" % " ".join("(%s %s %s)" % (hexs(p), hexs(t), r) for (p, t), r in seen.items())
