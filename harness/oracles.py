"""Finite oracle tables for the external libraries the models treat as
oracles (ast.literal_eval, re): the real library's answers for exactly the
strings that occur in a case, in the wire format of ocaml/drv_search.ml."""
import re
from ast import literal_eval

from common import hexs
from docenc import pyval_sexp


def litres(text):
    try:
        v = literal_eval(text)
    except (ValueError, SyntaxError):
        return "fail"
    except Exception as e:  # noqa  (TypeError for "{[1]: 2}", MemoryError, RecursionError, ...)
        return "(crash %s)" % type(e).__name__
    return "(val %s)" % pyval_sexp(v)


def lit_text_for(value):
    """The text Nodes.typed_value hands to literal_eval for this scalar, or
    None when it hands over a non-str (which always raises ValueError)."""
    if value is None:
        return None
    low = str(value).lower()
    if low in ("true", "false"):
        return str(value).title()
    if isinstance(value, str):
        return str.__str__(value)
    return None


def lit_table(values):
    seen = {}
    for v in values:
        t = lit_text_for(v)
        if t is not None and t not in seen:
            seen[t] = litres(t)
    return "(%s)" % " ".join("(%s %s)" % (hexs(t), r) for t, r in seen.items())


def reres(pattern, text):
    try:
        m = re.compile(pattern).search(text)
    except re.error:
        return "error"
    return "(m %s)" % ("true" if m is not None else "false")


def re_table(pairs):
    seen = {}
    for p, t in pairs:
        if (p, t) not in seen:
            seen[(p, t)] = reres(p, t)
    return "(%s)" % " ".join("(%s %s %s)" % (hexs(p), hexs(t), r) for (p, t), r in seen.items())
