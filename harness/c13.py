"""C13: search keywords select by their definitions.

Case = (yaml_text, prefix, keyword, invert, raw_params): the document is
`x: <yaml_text>`; the path is `<prefix>[<!>keyword(raw_params)]`.
Observations: (1) KeywordSearches.search_matches called for every node the
prefix reaches (coordinates from Processor.get_nodes(prefix)), results
concatenated; (2) Processor.get_nodes(full path).  Both against
Keywords.keyword_search of the extracted model (same request twice).
"""
import itertools
import random

from common import hexs, exc_line
from docenc import Encoder, pyval_sexp, is_set
import oracles

CONFIG = {
    "id": "C13",
    "rule": ("max / min x inversion over what a Collector gathered - (/x[a:b]), (/x/*), ((/x[a:b])): lists of NodeCoords, no nodes of the document - for all lists of length <= 3 (quick) / <= 4 over ints, floats, words, numeric-looking ints and mixed-case words, with and without one null: judged on the real end-to-end result against the definition (the model is not asked for these); all sequences of length <= 4 (quick) / <= 5 (thorough) over 4 values per kind (ints, floats, words, numeric "
             "strings, words with shared prefixes and case differences, numeric-looking text such as '10' and '9', ints "
             "mixed with floats, values equal across types 1/1.0/true/'1', values Python calls false 0/0.0/false/''/-1) plus null, under max/min/unique/distinct x "
             "inversion x parameter absent/present; all Array-of-Hashes and hash-of-hashes of <= 3 (quick) / <= 4 records "
             "whose attribute is drawn from {1, 2, 3, null, absent}, {abc, abd, b, null, absent}, {1.5, 2.5, 2.50, null, "
             "absent}, {1, 1.0, true, '10', Abc} or {0, 0.0, false, '', 4, -1} under the same keywords and has_child x inversion x attribute "
             "named/missing/other; has_child over hashes, lists, nulls, scalars, anchored children (&name form); parent(n) and "
             "name() at every node of nested documents (reached by key/index paths and by ** and * traversals) for "
             "n in -1..depth+1, non-integer and surplus parameters; mixed-kind and container members, unhashable "
             "members, malformed parameter lists; seeded random collections.  non-trivial = the collection has >= 2 "
             "members or the node is below the root; distinct = distinct (document, path)."),
    "trusted_base": [
        "modelled, not verified: yamlpath/common/keywordsearches.py (all of KeywordSearches), "
        "yamlpath/path/searchkeywordterms.py parameters, Searches.search_matches / Nodes.typed_value as used by max/min, "
        "Anchors.scan_for_anchors / get_node_anchor as used by has_child(&name)",
        "oracles: ast.literal_eval, re, str() of containers (finite tables of the real answers); the coordinates of the "
        "current node (parent, parentref, translated path, ancestry) are whatever the real evaluator reports for the prefix",
        "outside the modelled domain: collector results wrapped in NodeCoords, YAML merge keys, TaggedScalar, anchored "
        "booleans (ScalarBoolean) among compared values, aliased containers, non-ASCII digits in parent(n)",
    ],
    "assumptions": [
        "the model is the code only as far as the correspondence run shows (zero disagreements on the inputs listed in coverage)",
        "set-valued comparison for inverted max/min (the code yields the discarded members in discard order)",
    ],
}

KEYWORDS = {"max": "MAX", "min": "MIN", "unique": "UNIQUE", "distinct": "DISTINCT", "has_child": "HAS_CHILD",
            "parent": "PARENT", "name": "NAME"}

_ENV = {}


def init_worker():
    from ruamel.yaml import YAML
    from yamlpath import Processor, YAMLPath
    from yamlpath.common import KeywordSearches
    from yamlpath.enums import PathSegmentTypes, PathSearchKeywords
    from yamlpath.path import SearchKeywordTerms
    from yamlpath.exceptions import YAMLPathException
    from yamlpath.wrappers import ConsolePrinter
    from types import SimpleNamespace
    log = ConsolePrinter(SimpleNamespace(quiet=True, verbose=False, debug=False))
    _ENV.update(YAML=YAML, Processor=Processor, YAMLPath=YAMLPath, KS=KeywordSearches, T=PathSegmentTypes,
                KW=PathSearchKeywords, Terms=SearchKeywordTerms, YPE=YAMLPathException, log=log, cache={})


class Doc:
    """A loaded document with its encoding, container locations and str() table."""

    def __init__(self, text):
        self.data = _ENV["YAML"]().load("x: " + text.replace("\n", "\n  "))
        self.enc = Encoder()
        self.sexp = self.enc.node(self.data)
        self.loc_of = {}
        self.strs = {}
        self.scalars = []
        self.walk(self.data, ())
        self.aliased = self._aliased

    _aliased = False

    def walk(self, x, loc):
        if isinstance(x, dict):
            if id(x) in self.loc_of:
                self._aliased = True
            self.loc_of.setdefault(id(x), loc)
            self.strs[self.enc.oids[id(x)]] = str(x)
            for k, v in x.items():
                self.scalars.append(k)
                self.walk(v, loc + (("K", k),))
        elif isinstance(x, list):
            if id(x) in self.loc_of:
                self._aliased = True
            self.loc_of.setdefault(id(x), loc)
            self.strs[self.enc.oids[id(x)]] = str(x)
            for i, v in enumerate(x):
                self.walk(v, loc + (("I", i),))
        elif is_set(x):
            self.loc_of.setdefault(id(x), loc)
            self.strs[self.enc.oids[id(x)]] = str(x)
            for v in x:
                self.scalars.append(v)
        else:
            self.scalars.append(x)

    def at(self, loc):
        x = self.data
        for k, r in loc:
            x = x[r]
        return x


def get_doc(text):
    c = _ENV["cache"]
    if text not in c:
        if len(c) > 400:
            c.clear()
        c[text] = Doc(text)
    return c[text]


def ref_sexp(r):
    k, v = r
    if k == "I":
        return "(I i%d)" % v
    return "(%s %s)" % (k, pyval_sexp(v))


def loc_sexp(loc):
    return "(%s)" % " ".join(ref_sexp(r) for r in loc)


def mkref(parent, parentref):
    if isinstance(parent, list):
        return ("I", int(parentref))
    if is_set(parent):
        return ("E", parentref)
    return ("K", parentref)


def path_sexp(path):
    """A reported path at the granularity of its parsed segments."""
    E = _ENV
    out = []
    for t, a in E["YAMLPath"](str(path)).escaped:
        if t is E["T"].KEY:
            out.append("(K %s)" % hexs(str(a)))
        elif t is E["T"].INDEX and isinstance(a, int):
            out.append("(I i%d)" % a)
        else:
            out.append("(? %s)" % hexs(str(a)))
    return "(%s)" % " ".join(out)


def ancestry_locs(d, ancestry):
    out = []
    for p, r in ancestry:
        out.append((d.loc_of.get(id(p)), mkref(p, r)))
    return out


def ctx_of(d, nc):
    """The keyword arguments of one call, from the NodeCoords of the current node."""
    if nc.parent is None:
        here, parent, parentref = (), None, None
    else:
        parent = d.loc_of[id(nc.parent)]
        parentref = mkref(nc.parent, nc.parentref)
        here = parent + (parentref,)
    anc = ancestry_locs(d, nc.ancestry)
    return {"here": here, "parent": parent, "parentref": parentref, "path": path_sexp(nc.path), "anc": anc}


def ctx_sexp(c):
    return "(ctx %s %s %s %s (%s))" % (
        loc_sexp(c["here"]),
        "none" if c["parent"] is None else "(some %s)" % loc_sexp(c["parent"]),
        "none" if c["parentref"] is None else "(some %s)" % ref_sexp(c["parentref"]),
        c["path"],
        " ".join("(%s %s)" % (loc_sexp(l), ref_sexp(r)) for l, r in c["anc"]))


def coords_line(d, nc, is_name):
    if is_name:
        if nc.node is None:
            node = "(ref none)"
        else:
            node = "(ref (some %s))" % ref_sexp(mkref(nc.parent, nc.node))
        parent = None if nc.parent is None else d.loc_of[id(nc.parent)]
    elif nc.parent is None:
        node = "(at () i%d)" % d.enc.oids.get(id(nc.node), -1)
        parent = None
    else:
        parent = d.loc_of[id(nc.parent)]
        node = "(at %s i%d)" % (loc_sexp(parent + (mkref(nc.parent, nc.parentref),)), d.enc.oids.get(id(nc.node), -1))
    return "(nc %s %s %s %s (%s))" % (
        node,
        "none" if parent is None else "(some %s)" % loc_sexp(parent),
        "none" if nc.parent is None or nc.parentref is None else "(some %s)" % ref_sexp(mkref(nc.parent, nc.parentref)),
        path_sexp(nc.path),
        " ".join("(%s %s)" % (loc_sexp(l), ref_sexp(r)) for l, r in ancestry_locs(d, nc.ancestry)))


def full_path(case):
    text, prefix, kw, invert, raw = case
    return "%s[%s%s(%s)]" % (prefix, "!" if invert else "", kw, raw)


def prefix_nodes(d, prefix):
    E = _ENV
    return list(E["Processor"](E["log"], d.data).get_nodes(E["YAMLPath"](prefix), mustexist=True))


def parsed_terms(case):
    """The keyword terms as the real path parser delivers them (it unescapes the parameter text), or None when
    the path text does not parse."""
    E = _ENV
    try:
        segs = list(E["YAMLPath"](full_path(case)).escaped)
    except E["YPE"]:
        return None
    t = segs[-1][1]
    return t if isinstance(t, E["Terms"]) else None


TRIVIAL = "(node-eq (L i1 none false none none) (L i1 none false none none))"


def wrapped(case):
    """Stream `wrapped_cases`: the keyword is applied to what a Collector hands on - a list of NodeCoords (of
    NodeCoords, for a Collector over a slice) - which is no node of the document: the model is not asked (the
    requests are trivially true), the definition is judged on the real end-to-end result (judge_wrapped)."""
    return case[1].startswith("(")


def requests(case):
    text, prefix, kw, invert, raw = case
    if wrapped(case):
        return [TRIVIAL, TRIVIAL]
    d = get_doc(text)
    t = parsed_terms(case)
    if t is None:
        return ["(parse auto true %s)" % hexs(full_path(case))] * 2
    invert, raw = t.inverted, t._parameters
    ctxs = [ctx_of(d, nc) for nc in prefix_nodes(d, prefix)]
    lt = oracles.lit_table([s for s in d.scalars if s is not None])
    line = "(keyword %s %s %s %s (%s) %s () (%s))" % (
        "true" if invert else "false", KEYWORDS[kw], hexs(raw), d.sexp, " ".join(ctx_sexp(c) for c in ctxs), lt,
        " ".join("(i%d %s)" % (o, hexs(s)) for o, s in d.strs.items()))
    return [line, line]


def observe(case):
    E = _ENV
    text, prefix, kw, invert, raw = case
    if wrapped(case):
        return ["true", "true"]
    d = get_doc(text)
    is_name = kw == "name"
    out = []
    direct = None
    # (1) the anchored function, once per node the prefix reaches
    pt = parsed_terms(case)
    if pt is None:
        return ["(raise ype)", "(raise ype)"]
    try:
        res = []
        ypath = E["YAMLPath"](full_path(case))
        for nc in prefix_nodes(d, prefix):
            terms = E["Terms"](pt.inverted, pt.keyword, pt._parameters)
            for r in E["KS"].search_matches(terms, nc.node, ypath, parent=nc.parent, parentref=nc.parentref,
                                            translated_path=E["YAMLPath"](nc.path), ancestry=list(nc.ancestry),
                                            relay_segment=(E["T"].KEYWORD_SEARCH, terms)):
                res.append(coords_line(d, r, is_name))
        direct = res
        out.append("(ok (%s))" % " ".join(res))
    except Exception as e:  # noqa
        out.append(exc_line(e))
    # (2) end to end (a wildcard prefix followed by a further segment is evaluated differently from the
    # wildcard alone, so the contexts of the prefix are not those of the full path: direct observation only)
    if "*" in prefix:
        return out + out
    try:
        res = [coords_line(d, r, is_name)
               for r in E["Processor"](E["log"], d.data).get_nodes(E["YAMLPath"](full_path(case)), mustexist=True)]
        out.append("(ok (%s))" % " ".join(res))
    except E["YPE"] as e:
        # "no node matched" is how get_nodes(mustexist=True) reports an empty result
        out.append("(ok ())" if direct == [] else exc_line(e))
    except Exception as e:  # noqa
        out.append(exc_line(e))
    return out


# ---------------------------------------------------------------- the property on the implementation's observations
def parse_results(line):
    """[(node_kind, loc-or-ref text)] of an (ok (...)) line, else None."""
    from common import sexp_parse
    if not line.startswith("(ok"):
        return None
    return [(nc[1][0], sexp_strs(nc[1][1])) for nc in sexp_parse(line)[1]]


def sexp_strs(x):
    from common import sexp_str
    return sexp_str(x)


def scalar_kind(v):
    """Kind of a member for the same-kind quantifier: 'int', 'float', 'word' (text that is no Python literal and
    not a boolean spelling); None = outside (booleans, numeric text, containers, dates ...)."""
    if type(v).__name__ == "ScalarBoolean" or isinstance(v, bool):
        return None
    if isinstance(v, int):
        return "int"
    if isinstance(v, float):
        return "float"
    if isinstance(v, str):
        if v.lower() in ("true", "false"):
            return None
        try:
            from ast import literal_eval
            literal_eval(str.__str__(v))
            return None
        except Exception:  # noqa
            return "word"
    return None


def members_of(data, attr):
    """[(ref, value-or-ABSENT)] of a collection for the keyword quantifier, or None when `data` is not one."""
    if isinstance(data, list):
        aoh = all(isinstance(e, dict) or e is None for e in data)
        if aoh and attr is not None:
            return [(("I", i), (e[attr] if e is not None and attr in e else ABSENT)) for i, e in enumerate(data)]
        if not aoh and attr is None:
            return [(("I", i), e) for i, e in enumerate(data)]
        return None
    if isinstance(data, dict) and attr is not None and all(isinstance(v, dict) for v in data.values()):
        return [(("K", k), (v[attr] if attr in v else ABSENT)) for k, v in data.items()]
    return None


class _Absent:
    def __repr__(self):
        return "ABSENT"


ABSENT = _Absent()


def _unwrap(x):
    while type(x).__name__ == "NodeCoords":
        x = x.node
    return x


def wrapped_run(case):
    """(members the Collector gathers - by Python slicing of the loaded list -, real end-to-end result values | None
    when the query raised a YAMLPathException, exception of another class | None)"""
    import re
    E = _ENV
    text, prefix, kw, invert, raw = case
    data = get_doc(text).data["x"]
    m = re.match(r"^\(+/x\[(-?\d+):(-?\d+)\]\)+$", prefix)
    members = list(data[int(m.group(1)):int(m.group(2))]) if m else list(data)
    try:
        got = [_unwrap(n) for n in E["Processor"](E["log"], get_doc(text).data).get_nodes(
            E["YAMLPath"](full_path(case)), mustexist=True)]
    except E["YPE"]:
        return members, None, None
    except Exception as e:  # noqa
        return members, None, e
    return members, got, None


def judge_wrapped(case):
    text, prefix, kw, invert, raw = case
    members, got, exc = wrapped_run(case)
    where = "%s over x: %s" % (full_path(case), text)
    if exc is not None:
        return "%s raised %s" % (where, type(exc).__name__)
    vals = [v for v in members if v is not None]
    kinds = set(scalar_kind(v) for v in vals)
    if len(kinds) != 1 or None in kinds:
        return None
    best = max(vals) if kw == "max" else min(vals)
    want = [v for v in members if (v is not None and v == best) != invert]
    # "exactly the members ..." / "exactly the others": which members, not in which order (as for the plain stream)
    if sorted(map(repr, got or [])) != sorted(map(repr, want)):
        return "%s: yields %r, the definition gives %r (members %r)" % (where, got, want, members)
    return None


def judge(case, obs):
    text, prefix, kw, invert, raw = case
    if wrapped(case):
        return judge_wrapped(case)
    d = get_doc(text)
    if d.aliased:
        return None
    for which, line in (("KeywordSearches.search_matches", obs[0]), ("get_nodes", obs[1])):
        v = judge_line(case, d, line, which)
        if v:
            return v
    return None


def simple_params(raw):
    """Parameter lists without quoting/escaping, read independently of the code."""
    if any(c in raw for c in "\\'\" "):
        return None
    if raw == "":
        return []
    return raw.split(",")


def judge_line(case, d, line, which):
    text, prefix, kw, invert, raw = case
    params = simple_params(raw)
    if params is None:
        return None
    try:
        ctxs = [(nc, ctx_of(d, nc)) for nc in prefix_nodes(d, prefix)]
    except Exception:  # noqa
        return None
    got = parse_results(line)
    where = "%s over x: %s via %s" % (full_path(case), text, which)
    # ---- collections: max / min / unique / distinct
    if kw in ("max", "min", "unique", "distinct") and len(params) <= 1 and len(ctxs) == 1:
        nc, c = ctxs[0]
        attr = params[0] if params else None
        mem = members_of(nc.node, attr)
        if mem is None:
            return None
        present = [(r, v) for r, v in mem if v is not ABSENT]
        if kw in ("max", "min"):
            vals = [v for r, v in present if v is not None]
            kinds = set(scalar_kind(v) for v in vals)
            if len(kinds) != 1 or None in kinds:
                return None                       # not a collection of same-kind scalars
            best = max(vals) if kw == "max" else min(vals)
            want = [r for r, v in mem if v is not ABSENT and v is not None and v == best]
            if invert:
                want = [r for r, v in mem if r not in want]
            ordered = False
        else:
            if any(isinstance(v, (dict, list)) or is_set(v) for r, v in present):
                return None
            if kw == "distinct" and invert:
                return None if got is None else "%s: inverted distinct must be refused, got %s" % (where, line)
            groups = []
            for r, v in present:
                for g in groups:
                    if g[0] == v and type(g[0]) is not _Absent:
                        g[1].append(r)
                        break
                else:
                    groups.append((v, [r]))
            if kw == "distinct":
                want = [g[1][0] for g in groups]
            elif invert:
                want = [r for g in groups if len(g[1]) > 1 for r in g[1]]
            else:
                want = [r for g in groups if len(g[1]) == 1 for r in g[1]]
            ordered = True
        if got is None:
            return "%s: raised %s" % (where, line)
        want_locs = [loc_sexp(c["here"] + (r,)) for r in want]
        got_locs = [g[1] for g in got]
        if (got_locs != want_locs) if ordered else (sorted(got_locs) != sorted(want_locs) or len(set(got_locs)) != len(got_locs)):
            return "%s: yields %s, the definition gives %s" % (where, got_locs, want_locs)
        return None
    # ---- has_child(key) on hashes and Arrays-of-Hashes
    if kw == "has_child" and len(params) == 1 and params[0] and params[0][0] != "&":
        want = []
        for nc, c in ctxs:
            if isinstance(nc.node, dict):
                if (params[0] in nc.node) != invert:
                    want.append(loc_sexp(c["here"]))
            elif isinstance(nc.node, list) and nc.node and all(isinstance(e, dict) for e in nc.node):
                for i, e in enumerate(nc.node):
                    if (params[0] in e) != invert:
                        want.append(loc_sexp(c["here"] + (("I", i),)))
            else:
                return None
        if got is None:
            return "%s: raised %s" % (where, line)
        if [g[1] for g in got] != want:
            return "%s: yields %s, the definition gives %s" % (where, [g[1] for g in got], want)
        return None
    # ---- parent(n)
    if kw == "parent" and not invert and len(params) <= 1:
        try:
            n = int(params[0]) if params else 1
        except ValueError:
            return None if got is None and line == "(raise ype)" else "%s: a non-integer step count must be refused, got %s" % (where, line)
        want = []
        for nc, c in ctxs:
            consistent = [l for l, r in c["anc"]] == [c["here"][:i] for i in range(len(c["here"]))] and \
                [r for l, r in c["anc"]] == list(c["here"])
            if not consistent:
                return None               # the evaluator's ancestry is not this property's subject
            if n > len(c["here"]):
                return None if line == "(raise ype)" else "%s: climbing above the root must be refused, got %s" % (where, line)
            want.append(loc_sexp(c["here"][:len(c["here"]) - max(n, 0)]))
        if got is None:
            return "%s: raised %s" % (where, line)
        if [g[1] for g in got] != want:
            return "%s: yields %s, the %d-th ancestor is %s" % (where, [g[1] for g in got], n, want)
        return None
    # ---- name()
    if kw == "name" and not invert and params == []:
        want = ["none" if c["parentref"] is None else "(some %s)" % ref_sexp(c["parentref"]) for nc, c in ctxs]
        if got is None:
            return "%s: raised %s" % (where, line)
        if [g[1] for g in got] != want or any(g[0] != "ref" for g in got):
            return "%s: yields %s, the node is held under %s" % (where, got, want)
        return None
    return None


def classify(case, obs):
    text, prefix, kw, invert, raw = case
    if wrapped(case):
        return "%s%s:wrapped:%s" % ("!" if invert else "", kw, "slice" if "[" in prefix else "all")
    r = "ok" if obs[1].startswith("(ok") else ("ype" if obs[1] == "(raise ype)" else "X")
    n = obs[1].count("(nc ")
    shape = "seq" if text.startswith("[") else "map" if text.startswith("{") else "scalar"
    return "%s%s:%s:params%d:%s:n%d" % ("!" if invert else "", kw, shape, min(len(raw.split(",")) if raw else 0, 2), r, min(n, 3))


def nontrivial(case, obs):
    return len(case[0]) > 4 or case[1].count("/") + case[1].count("[") > 1


def key(case):
    return repr(case)


def describe(case):
    return {"case": repr(case), "path": full_path(case), "document": "x: " + case[0]}


def undescribe(d):
    return eval(d["case"], {"__builtins__": {}}, {})


def _wrapped_null(case, obs):
    """a Collector result that holds a null is handed to max() / min()"""
    return wrapped(case) and any(v is None for v in wrapped_run(case)[0])


FINDING_PREDS = {"wrapped_null_member": _wrapped_null}


# ---------------------------------------------------------------- generators
INTS = ["1", "2", "3", "10"]
FLOATS = ["1.5", "2.5", "2.50", "-0.5"]
WORDS = ["abc", "abd", "b", "Zed"]
NUMTEXT = ["'1'", "'2'", "'10'", "'2.0'"]
NESTED = "{a: {b: {c: 1, d: [5, {e: 6}]}, f: 2}, l: [1, [2, 3], {g: 4}], n: ~, &k anchored: &v val}"


# text with shared prefixes and case differences; numeric-looking text (compared by its typed reading: '10' > '9');
# ints mixed with floats (ordering numeric, equality textual); values equal across types (1 == 1.0 == true)
WORDS2 = ["ab", "abc", "Abc", "aB"]
NUMTEXT2 = ["'10'", "'9'", "'09'", "'1e1'"]
MIXNUM = ["1", "1.0", "2", "2.5"]
CROSS = ["1", "1.0", "true", "'1'"]


def seq_cases(maxlen):
    for kind in (INTS, FLOATS, WORDS, NUMTEXT, WORDS2, NUMTEXT2, MIXNUM, CROSS, FALSY):
        pool = kind + ["~"]
        for n in range(0, maxlen + 1):
            for tup in itertools.product(pool, repeat=n):
                if tup.count("~") > 1 and n > 3:
                    continue
                text = "[%s]" % ", ".join(tup)
                for kw in ("max", "min", "unique", "distinct"):
                    for inv in (False, True):
                        yield (text, "/x", kw, inv, "")
                if n <= 2:
                    for kw in ("max", "min", "unique", "distinct", "has_child"):
                        yield (text, "/x", kw, False, "a")


ATTRS = ["p: 1", "p: 2", "p: 3", "p: ~", "q: 1"]
ATTRS_S = ["p: abc", "p: abd", "p: ~", "q: 1", "p: b"]
ATTRS_F = ["p: 1.5", "p: 2.5", "p: 2.50", "p: ~", "q: 1"]
ATTRS_X = ["p: 1", "p: 1.0", "p: true", "p: '10'", "p: Abc"]
# values that Python calls false (0, 0.0, false, the empty text) are values like any other: present, compared
ATTRS_Z = ["p: 0", "p: 0.0", "p: false", "p: ''", "p: 4", "p: -1"]
FALSY = ["0", "0.0", "false", "''", "-1"]


def rec_cases(maxlen):
    for pool in (ATTRS, ATTRS_S, ATTRS_F, ATTRS_X, ATTRS_Z):
        for n in range(0, maxlen + 1):
            for tup in itertools.product(pool, repeat=n):
                aoh = "[%s]" % ", ".join("{%s, id: %d}" % (a, i) for i, a in enumerate(tup))
                hoh = "{%s}" % ", ".join("r%d: {%s}" % (i, a) for i, a in enumerate(tup))
                for text in (aoh, hoh):
                    for kw in ("max", "min", "unique", "distinct", "has_child"):
                        for inv in (False, True):
                            yield (text, "/x", kw, inv, "p")
                    if n <= 2:
                        for kw in ("max", "min", "unique", "distinct", "has_child"):
                            yield (text, "/x", kw, False, "")
                            yield (text, "/x", kw, True, "zz")
                            yield (text, "/x", kw, False, "p,q")


def node_paths(x, prefix):
    yield prefix
    if isinstance(x, dict):
        for k, v in x.items():
            yield from node_paths(v, "%s/%s" % (prefix, k))
    elif isinstance(x, list):
        for i, v in enumerate(x):
            yield from node_paths(v, "%s[%d]" % (prefix, i))


def nav_cases():
    from ruamel.yaml import YAML
    data = YAML().load("x: " + NESTED)
    paths = list(node_paths(data["x"], "/x")) + ["/x/**", "/x/*", "/x/l/*", "/x/a/**", "/"]
    for p in paths:
        depth = p.count("/") + p.count("[") + 2
        for n in list(range(-1, depth + 1)):
            yield (NESTED, p, "parent", False, str(n))
        yield (NESTED, p, "parent", False, "")
        yield (NESTED, p, "parent", True, "")
        yield (NESTED, p, "parent", False, "abc")
        yield (NESTED, p, "parent", False, "1,2")
        yield (NESTED, p, "parent", False, " 1 ")
        yield (NESTED, p, "parent", False, "1_0")
        yield (NESTED, p, "name", False, "")
        yield (NESTED, p, "name", True, "")
        yield (NESTED, p, "name", False, "a")
        yield (NESTED, p, "name", False, "a,b")
        for kw in ("has_child", "max", "min", "unique", "distinct"):
            for raw in ("", "b", "c", "&k", "&v", "&zz", "a,b", "'b'", "'b", "\\,", ",", "g", "\\'", "b\\\""):
                for inv in (False, True):
                    yield (NESTED, p, kw, inv, raw)


MISC_DOCS = [
    "[1, 1.0, true, 2, 2]", "[1, [2], 1]", "[1, {a: 2}, 1]", "[{a: [1]}, {a: 2}]", "[5, 5.0, 3]", "[1, abc, 2]",
    "[abc, 1, 2]", "[{p: 5}, {p: ~}]", "[{p: ~}, {p: 5}]", "[{p: 5}, ~, {p: 7}]", "[~, ~]", "[]", "{}", "~", "5", "abc",
    "[{a: 1}, {b: 2}, {a: 3}]", "[&e1 a, &e2 b, c]", "[{a: &e1 1}, {&e2 b: 2}, ~]", "{a: &e1 {k: 1}, b: {k: 2}}",
    "[true, false, true]", "['true', true]", "[2001-01-01, 2001-01-02, 2001-01-01]", "!!set {a: ~, b: ~}",
    "[[1, 2], [1, 2]]", "{r1: {p: 1}, r2: 5, p: 2}", "{r1: {p: 1}, r2: 5}", "{r1: {p: [1]}, r2: {p: 1}}",
    "[{p: {z: 1}}, {p: 1}]", "[{p: 1}, {p: 1.0}, {p: true}, {p: '1'}]", "[a, A, b]", "[10, 9, '10']",
]


def misc_cases():
    for text in MISC_DOCS:
        for kw in KEYWORDS:
            for raw in ("", "p", "a", "&e1", "&e2", "1", "0", "2", "p,q"):
                for inv in (False, True):
                    yield (text, "/x", kw, inv, raw)


def rand_cases(seed, n):
    rng = random.Random(seed + 13)
    pools = [INTS + ["7", "-3", "1000000000000000000000"], FLOATS + ["1e3", "0.1"], WORDS + WORDS2 + ["a b", "abcd", "ABC"],
             NUMTEXT + NUMTEXT2 + ["'-1'", "'1_0'"], INTS + FLOATS + ["1.0", "2.0", "10.0"],
             INTS + FLOATS + WORDS + NUMTEXT + ["~", "true", "[1]", "{a: 1}"]]
    for i in range(n):
        pool = rng.choice(pools)
        k = rng.randint(0, 7)
        shape = rng.randrange(3)
        if shape == 0:
            text = "[%s]" % ", ".join(rng.choice(pool + ["~"]) for _ in range(k))
            raw = rng.choice(["", "", "", "p"])
        elif shape == 1:
            text = "[%s]" % ", ".join(rng.choice(["{p: %s}" % rng.choice(pool), "{q: 1}", "~", "{p: ~}"]) for _ in range(k))
            raw = rng.choice(["p", "p", "p", "", "q"])
        else:
            text = "{%s}" % ", ".join("r%d: %s" % (j, rng.choice(["{p: %s}" % rng.choice(pool), "{q: 1}", "{p: ~}"]))
                                      for j in range(k))
            raw = rng.choice(["p", "p", "p", "", "q"])
        yield (text, "/x", rng.choice(["max", "min", "unique", "distinct", "has_child"]), rng.random() < 0.4, raw)


def wrapped_cases(maxlen):
    """max() / min() over what a Collector gathered: a slice of the list, the whole list, a slice of a slice"""
    for kind in (INTS, FLOATS, WORDS, ["9", "10", "2", "100"], ["'b'", "'ab'", "'abc'", "'B'"]):
        for pool in (kind, kind + ["~"]):
            for n in range(1, maxlen + 1):
                for tup in itertools.product(pool, repeat=n):
                    if tup.count("~") > 1 or ("~" in tup and pool is kind):
                        continue
                    if "~" not in tup and pool is not kind:
                        continue
                    text = "[%s]" % ", ".join(tup)
                    for prefix in ("(/x[0:%d])" % n, "(/x[0:%d])" % max(n - 1, 1), "(/x[1:%d])" % n, "(/x/*)",
                                   "((/x[0:%d]))" % n):
                        for kw in ("max", "min"):
                            for inv in (False, True):
                                yield (text, prefix, kw, inv, "")


def loadable(text):
    try:
        from ruamel.yaml import YAML
        YAML().load("x: " + text)
        return True
    except Exception:  # noqa
        return False


def chunks(tier, seed):
    size = 400
    buf = []
    streams = [misc_cases(), nav_cases(), seq_cases(5 if tier == "thorough" else 4),
               rec_cases(4 if tier == "thorough" else 3), rand_cases(seed, 60000 if tier == "thorough" else 6000),
               wrapped_cases(4 if tier == "thorough" else 3)]
    ok = {}
    for st in streams:
        for c in st:
            if c[0] not in ok:
                ok[c[0]] = loadable(c[0])
            if not ok[c[0]]:
                continue
            buf.append(c)
            if len(buf) >= size:
                yield buf
                buf = []
    if buf:
        yield buf
