"""C17: a failing or interrupted tool run never loses the user's file.

Case kinds
  save : one tool x option set x document x start state (stale .bak, target /
         output present) x one fault (None or the k-th I/O call failing, before
         or in the middle of its effect, as OSError, AssertionError, TypeError,
         ValueError, RecursionError or KeyboardInterrupt) - for yaml-set's YAML
         save also a SECOND fault inside the restore path, and documents the
         real serialiser refuses by itself (yaml-set -g a -T '!x' on a
         non-string scalar: ruamel's dumper raises TypeError; a complex key in
         a JSON target: json.dumps raises TypeError).
         The real main() runs in-process with its file I/O wrapped
         (harness/faultfs.py); observed: the I/O trace, the content class of
         target / .bak / output afterwards, the exit status, and whether the
         target or its backup still holds the original bytes.  The model
         (coq/Model/SaveProtocol.v, Sv.save) predicts all four.
  pre  : one pre-write failure cause (unmatched path, failed --check,
         impossible change, merge / anchor conflict, unreadable input, bad
         arguments, ...) x options x start state (x a fault armed at call k, to
         show that nothing is even attempted).  The model is Sc.set_main /
         Sc.merge_main with the step results the scenario is built to produce.
"""
import os
import shutil
import subprocess
import sys

import faultfs

CONFIG = {
    "id": "C17",
    "rule": ("save cases: yaml-set {backup} x {YAML, JSON} x {stale .bak} x 7+3 documents (two of them with CRLF line ends / a byte-order mark: original BYTES); yaml-merge {--output, "
             "--overwrite, --overwrite --backup} x {YAML, JSON} x {1..3 output documents} x {stale .bak} x {target "
             "exists} x {output exists}; eyaml-rotate-keys {backup} x {file holds secrets or not} x {stale .bak} x 3 "
             "documents; each under no fault and under a fault at EVERY call position k (0..K, K past the end) x "
             "{raise before effect, raise mid effect} x {OSError, AssertionError, TypeError, ValueError, "
             "RecursionError, KeyboardInterrupt} (yaml-set; OSError / TypeError for the others).  yaml-set YAML: a "
             "fault of every class at the dump x a second fault at every call of the restore path; 8 documents (one with CRLF line ends) the "
             "REAL dumper refuses (yaml-set -g a -T '!x' on int / float / bool / null / date scalars, --value=9 -T x) "
             "x {backup} x {stale} x {no fault, a fault at every call incl. the restore path}; 3 JSON targets json "
             "cannot serialise.  pre cases: 19 yaml-set and 15 yaml-merge failure causes x {backup} x {stale .bak} x "
             "{armed fault}, among them a merged result ruamel's dumper refuses (RecursionError).  non-trivial = a "
             "fault fired, a serialiser refused the document, or a pre-write failure occurred; distinct = distinct "
             "(scenario, options, start state, faults)."),
    "trusted_base": [
        "modelled, not verified: yaml_set.py 310-407 and 481-664, yaml_merge.py 221-303 and 492-557, "
        "eyaml_rotate_keys.py 187-198, consoleprinter.py critical()/error()",
        "the abstract file system: four roles, four content classes; `Partial` stands for whatever an interrupted "
        "write leaves; OS / disk-level atomicity (power cut in the middle of write(2), rename durability) cannot be "
        "exhibited in-process and is NOT covered",
        "harness/faultfs.py: wrappers installed in the command modules' namespaces (open, copy2, copyfileobj, remove, "
        "exists, tempfile.TemporaryFile, json.dump/dumps) and on ruamel's YAML.dump/dump_all, a proxy around files "
        "opened for writing (direct write() calls); a 'mid' fault performs half of the call's effect before raising",
        "whether the serialiser accepts the document of a scenario (dump_ok) is an input of the model, fixed per "
        "scenario in the tables of harness/c17.py (ruamel / json are oracles)",
        "the results of the individual pre-write steps (does the path match, does the merge conflict, ...) are inputs "
        "of the ordering model; they are produced by other models (C03-C05, C16)",
        "harness/eyaml_standin.py replaces the absent hiera-eyaml gem for the eyaml-rotate-keys cases",
    ],
    "assumptions": [
        "at most one I/O call of a run fails (two for yaml-set's restore path: the dump and one call of the "
        "restore); the run is not killed between calls",
        "no other process touches the files during the run (exists()/open() races are out of scope)",
        "the model is the code only as far as the correspondence run shows",
    ],
}

HERE = os.path.dirname(os.path.abspath(__file__))
STANDIN = os.path.join(HERE, "eyaml_standin.py")
# Scratch space: /tmp/save_<pid of the process that imported this module>/ (the
# check's main process; the forked workers inherit the name and work in their
# own sub-directory).  Pool workers are terminated without running exit
# handlers, so the importing process removes the whole tree when it exits.
_OWNER = os.getpid()
TOP = "/tmp/save_%d" % _OWNER
ROOT = TOP


def _cleanup():
    if os.getpid() == _OWNER:
        shutil.rmtree(TOP, ignore_errors=True)


import atexit  # noqa: E402
atexit.register(_cleanup)
_ENV = {}
_REF = {}
_COUNTER = [0]

STALE = b"# a backup left by an earlier run\nold: bytes\n"
OUT_EXISTING = b"# somebody's existing file\nkeep: me\n"

# ---- documents ------------------------------------------------------------
SET_DOCS = [
    # (file name, text, change path, new value)
    ("t.yaml", "a: 1\nb: 2\n", "a", "9"),
    ("t.yaml", "# leading comment\nhash:\n  k: &anc value\n  other: *anc\nlist:\n  - 1\n  - two\n", "hash.k", "changed"),
    ("t.yaml", "---\nname: \"caf\u00e9 \u65e5\u672c\"\nitems: [1, 2, 3]\nnested: {x: {y: z}}\n", "nested.x.y", "w"),
    ("data.yml", "- one\n- two\n- {k: v}\n", "[1]", "TWO"),
    ("t.yaml", "long: >\n  folded text that\n  spans lines\nkey: v\n" + "".join("k%d: v%d\n" % (i, i) for i in range(40)), "key", "new"),
    # CRLF line ends and a byte-order mark: "the original bytes" are bytes, not decoded text (seed C17_4 restored
    # through a text-mode copy)
    ("t.yaml", "a: 1\r\nb: 2\r\n# end\r\n", "a", "9"),
    ("t.yaml", "\ufeffa: 1\nb: 2\n", "a", "9"),
]
SET_JSON_DOCS = [
    ("t.json", '{"a": 1, "b": [1, 2, {"c": "d"}]}', "a", "9"),
    ("t.json", '{"k": "v", "arr": ["x", "y"], "n": null}\n', "arr[0]", "z"),
    ("t.yaml", '{"flow": "root", "in": "a .yaml file"}\n', "flow", "changed"),
]
# documents ruamel's dumper REFUSES after the change (Nodes.apply_yaml_tag wraps the
# non-string scalar in a TaggedScalar; the resolver raises TypeError after the
# truncating open): (file name, text, argv between "yaml-set" and the file)
SET_FAIL_DOCS = [
    ("t.yaml", "a: 1\nb: 2\n", ["-g", "a", "-T", "!x"]),
    ("t.yaml", "# c\nf: 1.5\nother: [1, 2]\n", ["-g", "f", "-T", "!x"]),
    ("t.yaml", "flag: true\nk: v\n", ["-g", "flag", "-T", "!x"]),
    ("t.yaml", "n: ~\nk: v\n", ["-g", "n", "-T", "!x"]),
    ("t.yaml", "d: 2020-01-01\nk: v\n", ["-g", "d", "-T", "!x"]),
    ("data.yml", "a: old\nb: 2\n", ["-g", "a", "--value=9", "-T", "x"]),
    ("t.yaml", "l:\n  - 1\n  - two\n", ["-g", "l[0]", "-T", "!mytag"]),
    ("t.yaml", "a: 1\r\nb: 2\r\n", ["-g", "a", "-T", "!x"]),             # CRLF file, refused dump, restore
]
# JSON targets whose document json.dumps refuses (a complex mapping key)
SET_FAIL_JSON_DOCS = [
    ("t.yaml", "{a: 1, ? [1, 2] : x}\n", ["-g", "a", "-a", "9"]),
    ("t.json", "a: 1\n? [1, 2]\n: x\n", ["-g", "a", "-a", "9"]),
    ("t.json", '{"a": 1, "m": {? {k: v} : x}}', ["-g", "a", "-a", "9"]),
]
MERGE_LHS = [
    "a: 1\nb:\n  c: 2\n",
    "# comment\nlist: [1, 2]\nh: {x: y}\n",
]
MERGE_RHS = "b:\n  d: 3\nnew: value\n"


def _mkdir():
    _COUNTER[0] += 1
    d = os.path.join(ROOT, "c%d" % _COUNTER[0])
    shutil.rmtree(d, ignore_errors=True)
    os.makedirs(d)
    return d


def init_worker():
    from yamlpath.commands import yaml_set, yaml_merge, eyaml_rotate_keys
    _ENV.update(set=yaml_set, merge=yaml_merge, rotate=eyaml_rotate_keys)
    global ROOT
    ROOT = os.path.join(TOP, "w%d" % os.getpid())
    os.makedirs(ROOT, exist_ok=True)
    kd = os.path.join(ROOT, "keys")
    os.makedirs(kd, exist_ok=True)
    for name in ("old", "new"):
        for part in ("pub", "priv"):
            with open(os.path.join(kd, name + part), "w") as f:
                f.write("STANDIN-EYAML-KEY %s\n" % name)
    _ENV["keys"] = kd


def enc(plain, key="old", out="string"):
    kd = _ENV["keys"]
    r = subprocess.run([STANDIN, "encrypt", "--quiet", "--stdin", "--output=" + out,
                        "--pkcs7-public-key=" + os.path.join(kd, key + "pub")],
                       input=plain.encode(), stdout=subprocess.PIPE, stdin=None, check=True, timeout=60)
    return r.stdout.decode().rstrip()


def rotate_docs():
    if "rotdocs" not in _ENV:
        e1, e2 = enc("one"), enc("two")
        blk = enc("three three three three three three three three three three", out="block")
        blk = "\n".join("  " + l.strip() for l in blk.split("\n"))
        _ENV["rotdocs"] = [
            "a: %s\nb: plain\n" % e1,
            "a: &s %s\nb: *s\nc: plain\nl:\n  - &e %s\n  - *e\n  - x\n" % (e1, e2),
            "top:\n  f: >\n  %s\nother: 1\n" % blk.replace("\n", "\n  "),
        ]
        _ENV["plaindocs"] = ["a: 1\nb: plain\n", "l: [1, 2]\n", "x: &a v\ny: *a\n"]
    return _ENV["rotdocs"], _ENV["plaindocs"]


# ---- scenarios for pre-write failures -----------------------------------------
def setin(**kw):
    d = dict(usage="true", args="true", stream="false", backup="false", json="false", vf="none", loaded="true",
             must="false", get="ok", nodes=1, check="none", saveto="none", action="value", apply="ok", whole="false",
             dump_ok="true")
    d.update(kw)
    return d


def setin_sexp(d, backup):
    return "(setin %s %s %s %s %s %s %s %s %s i%d %s %s %s %s %s %s)" % (
        d["usage"], d["args"], d["stream"], "true" if backup else "false", d["json"], d["vf"], d["loaded"], d["must"],
        d["get"], d["nodes"], d["check"], d["saveto"], d["action"], d["apply"], d["whole"], d["dump_ok"])


DOC0 = "a: 1\nb: 2\nl:\n  - x\n  - y\nh: &anch\n  k: v\ns: &sa scalar\n"
# name -> (document text, extra argv (FILE is appended), model input)
SET_CAUSES = {
    "unmatched_mustexist": (DOC0, ["-g", "nosuch.path", "-a", "v", "--mustexist"], setin(must="true", get="caught", nodes=0)),
    "unmatched_saveto": (DOC0, ["-g", "nosuch", "-a", "v", "--saveto", "saved"],
                         setin(must="true", get="caught", nodes=0, saveto="ok")),
    "unmatched_delete": (DOC0, ["-g", "nosuch", "--delete"], setin(must="true", get="caught", nodes=0, action="delete")),
    "check_fails": (DOC0, ["-g", "a", "-a", "v", "--check", "wrong"], setin(check="(mismatch)")),
    "check_fails_second": (DOC0, ["-g", "l.*", "-a", "v", "--check", "x"], setin(nodes=2, check="(match mismatch)")),
    "saveto_many": (DOC0, ["-g", "l.*", "-a", "v", "--saveto", "saved"], setin(must="true", nodes=2, saveto="ok")),
    "impossible_change": (DOC0, ["-g", "a.b.c", "-a", "v"], setin(get="caught", nodes=0, apply="caught")),
    "impossible_saveto": (DOC0, ["-g", "b", "-a", "v", "--saveto", "a.x.y"], setin(must="true", saveto="caught")),
    "delete_root": (DOC0, ["-g", "/", "--delete"], setin(must="true", action="delete", apply="caught", whole="true")),
    "alias_unmatched": (DOC0, ["-g", "a", "--aliasof", "nosuch"], setin(action="alias", apply="caught")),
    "mergekey_not_hash": (DOC0, ["-g", "h", "--mergekey", "s"], setin(action="mergekey", apply="caught")),
    "unreadable_yaml": ("a: [1, 2\nb: }{\n", ["-g", "a", "-a", "v"], setin(loaded="false")),
    "duplicate_key": ("a: 1\na: 2\n", ["-g", "a", "-a", "v"], setin(loaded="false")),
    "bad_args_anchor": (DOC0, ["-g", "a", "--anchor", "x"], setin(args="false")),
    "usage_no_change": (DOC0, ["-a", "v"], setin(usage="false")),
    "value_file_missing": (DOC0, ["-g", "a", "-f", "/nonexistent/value/file"], setin(vf="false")),
    "eyaml_missing": (DOC0, ["-g", "a", "-a", "v", "--eyamlcrypt", "--eyaml", "/nonexistent/eyaml"],
                      setin(action="eyaml", apply="caught")),
    # the changed document cannot be serialised: found before any file is touched (JSON target: json.dumps
    # raises before the backup), or nothing but STDOUT is involved (document from STDIN)
    "json_unserialisable": ("{a: 1, ? [1, 2] : x}\n", ["-g", "a", "-a", "9"], setin(json="true", dump_ok="false")),
    "stream_dump_fails": ("a: 1\nb: 2\n", ["-g", "a", "-T", "!x", "-"], setin(stream="true", action="tag", dump_ok="false")),
}
STREAM_CAUSES = ("stream_dump_fails",)        # the document comes from STDIN (no --backup: validateargs refuses it)


def mergein_sexp(d, mode, backup, json):
    files = " ".join("(%s i%d %s)" % f for f in d["files"])
    return "(mergein %s %s %s %s %s (%s) none %s %s %s i%d %s)" % (
        d.get("usage", "true"), d.get("args", "true"), mode, "true" if backup else "false",
        "true" if json else "false", files, d.get("condense", "true"), d.get("single", "i0"),
        d.get("prepare", "ok"), d.get("outdocs", 1), d.get("dump_ok", "true"))


L0 = "a: 1\nh:\n  k: v\nl: [1, 2]\nanch: &x one\nuse: *x\n"


def _nest(depth, leaf):
    return "".join("  " * i + "k%d:\n" % i for i in range(depth)) + "  " * depth + leaf + "\n"


# two documents ruamel loads, merged (--mergeat the innermost Hash) into one nested deeper than its
# representer can recurse: dump raises RecursionError
DEEP = 170
DEEP_LHS = _nest(DEEP, "v: {}")
DEEP_RHS = "b: " + "[" * DEEP + "]" * DEEP + "\n"
DEEP_PATH = "/" + "/".join("k%d" % i for i in range(DEEP)) + "/v"
# harness/common.py raises the recursion limit of the workers; these scenarios depend on the default one
CLI_RECURSION_LIMIT_CAUSES = ("unrenderable_yaml",)
# name -> (list of (file name, text | None=absent), extra argv, model input)
MERGE_CAUSES = {
    "rhs_unreadable": ([("l.yaml", L0), ("r.yaml", "a: [1, 2\n}{")], [],
                       dict(files=[("true", 1, "i0"), ("false", 0, "i0")])),
    "rhs_missing": ([("l.yaml", L0), ("r.yaml", None)], [], dict(files=[("true", 1, "i0"), ("false", 0, "i0")])),
    "lhs_unreadable": ([("l.yaml", "a: 1\na: 2\n"), ("r.yaml", "b: 1\n")], [],
                       dict(files=[("false", 0, "i0"), ("true", 1, "i0")])),
    "lhs_missing": ([("l.yaml", None), ("r.yaml", "b: 1\n")], [], dict(files=[("false", 0, "i0"), ("true", 1, "i0")])),
    "type_conflict": ([("l.yaml", L0), ("r.yaml", "h: [not, a, hash]\n")], [],
                      dict(files=[("true", 1, "i0"), ("true", 1, "i13")])),
    "type_conflict_across": ([("l.yaml", L0), ("r.yaml", "h: [not, a, hash]\n")], ["-M", "merge_across"],
                             dict(files=[("true", 1, "i0"), ("true", 1, "i31")], condense="false")),
    "type_conflict_matrix": ([("l.yaml", L0), ("r.yaml", "h: [not, a, hash]\n")], ["-M", "matrix_merge"],
                             dict(files=[("true", 1, "i0"), ("true", 1, "i41")], condense="false")),
    "anchor_conflict": ([("l.yaml", L0), ("r.yaml", "other: &x two\n")], ["-a", "stop"],
                        dict(files=[("true", 1, "i0"), ("true", 1, "i13")])),
    "third_file_conflict": ([("l.yaml", L0), ("r.yaml", "b: 1\n"), ("r2.yaml", "l: {not: list}\n")], [],
                            dict(files=[("true", 1, "i0"), ("true", 1, "i0"), ("true", 1, "i13")])),
    "lhs_multidoc_conflict": ([("l.yaml", "---\nh: {k: v}\n---\nh: [1]\n")], [],
                              dict(files=[("true", 2, "i0")], single="i11")),
    "bad_config": ([("l.yaml", L0), ("r.yaml", "b: 1\n")], ["-c", "/nonexistent/config.ini"],
                   dict(args="false", files=[("true", 1, "i0"), ("true", 1, "i0")])),
    "two_stdins": ([("l.yaml", L0)], ["-", "-"], dict(args="false", files=[("true", 1, "i0")])),
    "unpreparable_json": ([("l.yaml", L0), ("r.yaml", "? [1, 2]\n: complex key\n")], ["-D", "json"],
                          dict(files=[("true", 1, "i0"), ("true", 1, "i0")], prepare="uncaught", json=True)),
    "nothing_to_write": ([("l.yaml", "")], ["-M", "merge_across"],
                         dict(files=[("true", 0, "i0")], condense="false", prepare="uncaught", outdocs=0)),
    "unrenderable_yaml": ([("l.yaml", DEEP_LHS), ("r.yaml", DEEP_RHS)], ["-m", DEEP_PATH],
                          dict(files=[("true", 1, "i0"), ("true", 1, "i0")], dump_ok="false")),
}


# ---- cases ----------------------------------------------------------------------
ALL_KINDS = ("oserror", "assert", "typeerror", "valueerror", "recursion", "interrupt")


def set_dump_pos(backup, stale):
    """Position of yaml-set's dump among the calls of the YAML save."""
    return (2 + (1 if stale else 0) if backup else 0) + 4


def fault_list(kmax, kinds=("oserror", "assert")):
    out = [None]
    for k in range(kmax + 1):
        for mode in ("before", "mid"):
            for kind in kinds:
                out.append([k, mode, kind])
    return out


def all_cases(tier):
    cases = []
    # yaml-set
    for backup in (False, True):
        for stale in (False, True):
            for json, docs in ((False, SET_DOCS), (True, SET_JSON_DOCS)):
                for di in range(len(docs)):
                    for f in fault_list(9 if not json else 7, kinds=ALL_KINDS):
                        cases.append(dict(kind="save", tool="set", backup=backup, json=json, stale=stale, doc=di, fault=f))
            # the dump fails (every class), then a call of the restore path fails too
            g = set_dump_pos(backup, stale)
            for di in (0, 1):
                for kd in ALL_KINDS:
                    for mode in ("before", "mid"):
                        for f2 in fault_list(g + 4, kinds=("oserror", "assert"))[1 + 4 * (g + 1):]:
                            cases.append(dict(kind="save", tool="set", backup=backup, json=False, stale=stale, doc=di,
                                              fault=[g, mode, kd], fault2=f2))
            # documents the real dumper / json refuses, with no fault and with one at every call
            for di in range(len(SET_FAIL_DOCS)):
                for f in fault_list(g + 4, kinds=("oserror", "assert")):
                    cases.append(dict(kind="save", tool="set", backup=backup, json=False, stale=stale, fdoc=di, fault=f))
            for di in range(len(SET_FAIL_JSON_DOCS)):
                for f in fault_list(2, kinds=("oserror", "typeerror")):
                    cases.append(dict(kind="save", tool="set", backup=backup, json=True, stale=stale, fdoc=di, fault=f))
    # yaml-merge
    for json in (False, True):
        for ndocs in (1, 2, 3):
            for di in range(len(MERGE_LHS)):
                for oe in (False, True):
                    for f in fault_list(5 + (ndocs if json else 1), kinds=("oserror", "typeerror")):
                        cases.append(dict(kind="save", tool="merge", mode="output", backup=False, json=json, ndocs=ndocs,
                                          stale=False, texists=True, oexists=oe, doc=di, fault=f))
                for backup in (False, True):
                    for stale in (False, True):
                        for te in (True, False):
                            if tier == "quick" and not te and di > 0:
                                continue
                            for f in fault_list(8 + (ndocs if json else 1), kinds=("oserror", "typeerror")):
                                cases.append(dict(kind="save", tool="merge", mode="overwrite", backup=backup, json=json,
                                                  ndocs=ndocs, stale=stale, texists=te, oexists=False, doc=di, fault=f))
    # yaml-merge to stdout, and --backup without --overwrite
    for backup in (False, True):
        cases.append(dict(kind="save", tool="merge", mode="stdout", backup=backup, json=False, ndocs=1, stale=True,
                          texists=True, oexists=False, doc=0, fault=None))
        cases.append(dict(kind="save", tool="merge", mode="output", backup=True, json=False, ndocs=1, stale=backup,
                          texists=True, oexists=False, doc=0, fault=None))
    # eyaml-rotate-keys
    for backup in (False, True):
        for stale in (False, True):
            for changed in (True, False):
                for di in range(3):
                    for f in fault_list(6 if changed else 1, kinds=("oserror", "typeerror", "interrupt")):
                        cases.append(dict(kind="save", tool="rotate", backup=backup, changed=changed, stale=stale, doc=di,
                                          fault=f))
    # close() of the `with` block as a call of its own (yaml-merge, eyaml-rotate-keys): it fails alone, or
    # after a failure of any earlier call (the second failure of the run)
    for close in ("before", "mid"):
        for json in (False, True):
            for ndocs in (1, 2):
                for backup in (False, True):
                    for stale in (False, True):
                        for f in fault_list(8 + (ndocs if json else 1), kinds=("oserror",)):
                            cases.append(dict(kind="save", tool="merge", mode="overwrite", backup=backup, json=json,
                                              ndocs=ndocs, stale=stale, texists=True, oexists=False, doc=0, fault=f,
                                              close=close))
            for f in fault_list(4, kinds=("oserror",)):
                cases.append(dict(kind="save", tool="merge", mode="output", backup=False, json=json, ndocs=1,
                                  stale=False, texists=True, oexists=False, doc=1, fault=f, close=close))
        for backup in (False, True):
            for stale in (False, True):
                for f in fault_list(6, kinds=("oserror", "interrupt")):
                    cases.append(dict(kind="save", tool="rotate", backup=backup, changed=True, stale=stale, doc=1,
                                      fault=f, close=close))
    # pre-write failures
    for name in SET_CAUSES:
        for backup in (False, True):
            if backup and name in STREAM_CAUSES:
                continue
            for stale in (False, True):
                for f in (None, [0, "before", "oserror"], [2, "mid", "oserror"]):
                    cases.append(dict(kind="pre", tool="set", cause=name, backup=backup, stale=stale, fault=f))
    for name in MERGE_CAUSES:
        for mode, backup in (("output", False), ("overwrite", False), ("overwrite", True), ("stdout", False)):
            for stale in (False, True):
                for f in (None, [1, "mid", "oserror"]):
                    cases.append(dict(kind="pre", tool="merge", cause=name, mode=mode, backup=backup, stale=stale,
                                      oexists=False, fault=f))
        cases.append(dict(kind="pre", tool="merge", cause=name, mode="output", backup=False, stale=False, oexists=True,
                          fault=None))
    return cases


def chunks(tier, seed):
    cases = all_cases(tier)
    # keep the faults of one configuration together (the reference run is cached per worker)
    size = 60
    for i in range(0, len(cases), size):
        yield cases[i:i + size]


# ---- model requests ---------------------------------------------------------------
def b(x):
    return "true" if x else "false"


def fault_sexp(f):
    return "none" if f is None else "(i%d %s %s)" % (f[0], f[1], f[2])


def start_fs(case):
    t = "orig" if case.get("texists", True) else "none"
    if case["tool"] == "merge":
        if case["mode"] != "overwrite":
            t = "none"
        elif case["kind"] == "pre" and MERGE_CAUSES[case["cause"]][0][0][1] is None:
            t = "none"      # --overwrite names the (absent) first input
    bk = "stale" if case.get("stale") else "none"
    o = "orig" if case.get("oexists") else "none"
    return "(fs %s %s %s)" % (t, bk, o)


def requests(case):
    f = fault_sexp(case["fault"])
    if case["kind"] == "save":
        if case["tool"] == "set":
            cfg = "(set %s %s %s)" % (b(case["backup"]), b(case["json"]), b("fdoc" not in case))
        elif case["tool"] == "merge":
            cfg = "(merge %s %s %s i%d true)" % (case["mode"], b(case["backup"]), b(case["json"]), case["ndocs"])
        else:
            cfg = "(rotate %s %s)" % (b(case["backup"]), b(case["changed"]))
        if case.get("close"):
            return ["(save-close %s %s %s %s)" % (cfg, start_fs(case), f, case["close"])]
        if case.get("fault2") is not None:
            return ["(save2 %s %s %s %s)" % (cfg, start_fs(case), f, fault_sexp(case["fault2"]))]
        return ["(save %s %s %s)" % (cfg, start_fs(case), f)]
    if case["tool"] == "set":
        _, _, d = SET_CAUSES[case["cause"]]
        return ["(setmain %s %s %s)" % (setin_sexp(d, case["backup"]), start_fs(case), f)]
    _, _, d = MERGE_CAUSES[case["cause"]]
    return ["(mergemain %s %s %s)" % (mergein_sexp(d, case["mode"], case["backup"], d.get("json", False)),
                                      start_fs(case), f)]


# ---- running the implementation ---------------------------------------------------
def setup(case, d):
    """Create the files of the case in directory d.  Returns (module, argv,
    roles, watched) where watched = {role: (path, original bytes | None)}."""
    tool = case["tool"]
    files = {}
    stdin_text = None
    if case["kind"] == "save" and tool == "set" and "fdoc" in case:
        name, text, mid = (SET_FAIL_JSON_DOCS if case["json"] else SET_FAIL_DOCS)[case["fdoc"]]
        T = os.path.join(d, name)
        files[T] = text.encode("utf-8")
        argv = ["yaml-set"] + mid + (["--backup"] if case["backup"] else []) + [T]
        mod = _ENV["set"]
    elif case["kind"] == "save" and tool == "set":
        name, text, path, val = (SET_JSON_DOCS if case["json"] else SET_DOCS)[case["doc"]]
        T = os.path.join(d, name)
        files[T] = text.encode("utf-8")
        argv = ["yaml-set", "-g", path, "-a", val] + (["--backup"] if case["backup"] else []) + [T]
        mod = _ENV["set"]
    elif case["kind"] == "save" and tool == "merge":
        n = case["ndocs"]
        lhs = MERGE_LHS[case["doc"]]
        L = os.path.join(d, "l.yaml")
        R = os.path.join(d, "r.yaml")
        files[L] = ("---\n" + "---\n".join(lhs.replace("1", str(i + 1)) for i in range(n))).encode() if n > 1 else lhs.encode()
        files[R] = MERGE_RHS.encode()
        T = os.path.join(d, "result.yaml")      # --overwrite target
        O = os.path.join(d, "out.yaml")
        if case["texists"] and case["mode"] == "overwrite":
            files[T] = b"# the file to be overwritten\nprevious: content\n"
        argv = ["yaml-merge", "--nostdin"]
        if n > 1:
            argv += ["-M", "matrix_merge"]
        if case["json"]:
            argv += ["-D", "json"]
        if case["mode"] == "overwrite":
            argv += ["-w", T]
        elif case["mode"] == "output":
            argv += ["-o", O]
        if case["backup"]:
            argv += ["--backup"]
        argv += [L, R]
        mod = _ENV["merge"]
    elif case["kind"] == "save" and tool == "rotate":
        rot, plain = rotate_docs()
        T = os.path.join(d, "secrets.yaml")
        files[T] = (rot if case["changed"] else plain)[case["doc"]].encode()
        kd = _ENV["keys"]
        argv = ["eyaml-rotate-keys", "-x", STANDIN, "-i", os.path.join(kd, "oldpriv"), "-c", os.path.join(kd, "oldpub"),
                "-r", os.path.join(kd, "newpriv"), "-u", os.path.join(kd, "newpub")] + \
               (["--backup"] if case["backup"] else []) + [T]
        mod = _ENV["rotate"]
    elif tool == "set":
        text, extra, _ = SET_CAUSES[case["cause"]]
        T = os.path.join(d, "t.yaml")
        files[T] = text.encode()
        if case["cause"] in STREAM_CAUSES:
            # the document arrives on STDIN; t.yaml is a bystander that must stay as it is
            stdin_text = text
            argv = ["yaml-set"] + extra
        else:
            argv = ["yaml-set"] + extra + (["--backup"] if case["backup"] else []) + [T]
        mod = _ENV["set"]
    else:
        fl, extra, _ = MERGE_CAUSES[case["cause"]]
        names = []
        for name, text in fl:
            p = os.path.join(d, name)
            names.append(p)
            if text is not None:
                files[p] = text.encode()
        T = names[0] if case["mode"] == "overwrite" else os.path.join(d, "unused-target.yaml")
        O = os.path.join(d, "out.yaml")
        argv = ["yaml-merge", "--nostdin"] + [x for x in extra if x != "-"]
        if case["mode"] == "overwrite":
            argv += ["-w", T]
        elif case["mode"] == "output":
            argv += ["-o", O]
        if case["backup"]:
            argv += ["--backup"]
        argv += names + [x for x in extra if x == "-"]
        mod = _ENV["merge"]
    O = os.path.join(d, "out.yaml")
    if case.get("oexists"):
        files[O] = OUT_EXISTING
    if case.get("stale"):
        files[T + ".bak"] = STALE
    for p, data in files.items():
        with open(p, "wb") as fh:
            fh.write(data)
    roles = {T: "target", T + ".bak": "bak", O: "output"}
    return mod, argv, roles, files, T, O, stdin_text


def snapshot(d):
    out = {}
    for n in sorted(os.listdir(d)):
        p = os.path.join(d, n)
        if os.path.isfile(p):
            with open(p, "rb") as fh:
                out[p] = fh.read()
        else:
            out[p] = None
    return out


def ref_key(case):
    return tuple(sorted((k, str(v)) for k, v in case.items() if k not in ("fault", "close")))


def run_case(case, faults, close=None):
    d = _mkdir()
    limit = sys.getrecursionlimit()
    try:
        mod, argv, roles, files, T, O, stdin_text = setup(case, d)
        if case.get("cause") in CLI_RECURSION_LIMIT_CAUSES:
            sys.setrecursionlimit(1000)     # the interpreter's default, under which the real tool runs
        r = faultfs.run_tool(mod, argv, roles, fault=[tuple(f) for f in faults if f] or None, stdin_text=stdin_text,
                             close_fault=close)
        after = snapshot(d)
    finally:
        sys.setrecursionlimit(limit)
        shutil.rmtree(d, ignore_errors=True)
    # strip the directory so that runs in different directories compare
    strip = lambda m: {os.path.basename(p): v for p, v in m.items()}   # noqa
    return r, strip(files), strip(after), os.path.basename(T), os.path.basename(O)


def classify_bytes(data, orig, new):
    if data is None:
        return "none"
    if orig is not None and data == orig:
        return "orig"
    if data == STALE:
        return "stale"
    if new is not None and data == new:
        return "new"
    return "partial"


def observe(case):
    key = ref_key(case)
    if key not in _REF:
        if len(_REF) > 50:
            _REF.clear()
        r0, before0, after0, T0, O0 = run_case(case, [])
        _REF[key] = (after0.get(T0), after0.get(O0), r0["status"])
    newT, newO, _ = _REF[key]
    r, before, after, T, O = run_case(case, [case["fault"], case.get("fault2")], case.get("close"))
    origT = before.get(T)
    t = classify_bytes(after.get(T), origT, newT)
    bk = classify_bytes(after.get(T + ".bak"), origT, None)
    o = classify_bytes(after.get(O), before.get(O), newO)
    trace = [x for x in r["trace"] if " other" not in x and "stdout" not in x]
    onecopy = (origT is not None) and (after.get(T) == origT or after.get(T + ".bak") == origT)
    line = "(out (%s) (fs %s %s %s) i%d %s)" % (" ".join(trace), t, bk, o, r["status"], "onecopy" if onecopy else "nocopy")
    # what the judge needs beyond the canonical line
    extra = {"before": before, "after": after, "T": T, "O": O, "newT": newT, "status": r["status"],
             "crash": r["crash"], "fired": r["fired"], "trace": trace, "fired_ops": r["fired_ops"]}
    case["_extra"] = extra
    return [line]


WRITES = ("(remove ", "(copy2 ", "(opentrunc ", "(dump", "(copyobj ", "(mktmp")


def judge(case, obs):
    """The property text on the implementation's own files."""
    x = case.get("_extra")
    if x is None:
        return None
    before, after, T, O = x["before"], x["after"], x["T"], x["O"]
    bak = T + ".bak"
    # yaml-merge --output never replaces an existing file
    if case.get("oexists") and after.get(O) != before.get(O):
        return "an existing --output file was replaced or changed"
    if case["kind"] == "pre":
        if x["status"] != 0:
            for n, data in before.items():
                if after.get(n) != data:
                    return "pre-write failure (%s, status %d) changed or removed %s" % (case["cause"], x["status"], n)
            for n in after:
                if n not in before:
                    return "pre-write failure (%s, status %d) left a new file %s" % (case["cause"], x["status"], n)
        return None
    # save cases
    origT = before.get(T)
    # a run in which NO I/O call was made to fail and which ends non-zero (the serialiser refused the document)
    # has not changed the target, and no output or backup file has appeared
    if not x["fired"] and x["status"] != 0 and case["tool"] in ("set", "merge"):
        if origT is not None and after.get(T) != origT:
            return "the run ended with status %d (%s) without any failing I/O call, yet the target file is %s" % (
                x["status"], x["crash"], "gone" if after.get(T) is None else "no longer the original (%d of %d bytes)"
                % (len(after.get(T)), len(origT)))
        for n in after:
            if n not in before:
                return "the run ended with status %d without any failing I/O call and left a new file %s" % (x["status"], n)
    # yaml-set's YAML save: a failure of the dump itself (any Exception class) and of nothing else is undone by
    # the restore path
    if case["tool"] == "set" and not case["json"] and x["fired_ops"] == ["(dump target)"] \
            and case["fault"][2] != "interrupt" and origT is not None and after.get(T) != origT:
        return "the dump failed (%s) and no other call did, yet the target does not hold the original bytes" % case["fault"][2]
    backup_on = case.get("backup") and origT is not None and not (case["tool"] == "rotate" and not case["changed"]) \
        and not (case["tool"] == "merge" and case["mode"] != "overwrite")
    if backup_on:
        if after.get(T) != origT and after.get(bak) != origT:
            return "with --backup, neither the target nor its .bak holds the original bytes after %s" % (
                "a fault at call %s" % case["fault"] if x["fired"] else "the run")
        if x["status"] == 0 and not x["fired"] and after.get(bak) != origT:
            return "with --backup, a successful run left a .bak that is not the pre-image"
    if case["tool"] == "rotate" and not case["changed"]:
        if after != before:
            return "a file without encrypted values was rewritten or backed up"
    # inputs other than the target are never touched
    for n, data in before.items():
        if n not in (T, bak, O) and after.get(n) != data:
            return "input file %s was changed" % n
    return None


def classify(case, obs):
    x = case.get("_extra") or {}
    if case["kind"] == "pre":
        return "pre:%s:%s:status%s" % (case["tool"], case["cause"], x.get("status"))
    f = case["fault"]
    tool = case["tool"] + (":refused" if "fdoc" in case else "") + (":2faults" if case.get("fault2") else "") + \
        (":close-" + case["close"] if case.get("close") else "")
    return "save:%s:%s:%s" % (tool, "nofault" if f is None else ("%s-%s" % (f[1], f[2])),
                              ("fired%d" % len(x.get("fired_ops") or [])) if x.get("fired") else "notfired")


def nontrivial(case, obs):
    x = case.get("_extra") or {}
    return bool(x.get("fired")) or "fdoc" in case or (case["kind"] == "pre" and x.get("status", 0) != 0)


def key(case):
    return repr(sorted((k, str(v)) for k, v in case.items() if k != "_extra"))


def describe(case):
    return {k: v for k, v in case.items() if k != "_extra"}


def undescribe(d):
    return dict(d)


FINDING_PREDS = {}
