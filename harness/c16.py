"""C16: the command-line tools deliver the library's answers and honest exit codes.

Case = one command line of one tool: {"tool", "argv", "files": {name: text},
"stdin": None | text, ...}.  For each case the harness
  1. writes the files into a private directory <scratch>/cli_<pid>/<n>/ and makes
     it the working directory (so names on the command line are relative);
  2. asks the real argparse (the tool's processcli()) for the parsed options;
  3. computes the LIBRARY-LEVEL results with the real library on fresh loads
     (what ruamel's load / load_all does on every source, the query result,
     the diff report, the merge steps, the set/delete steps, the path
     searches) and ships them to the extracted glue model (coq/Model/Cli.v);
  4. runs the real main() in-process (sys.argv, stdout/stderr captured,
     yamlpath.common.parsers.stdin and sys.stdin replaced by a stand-in with
     isatty(), SystemExit caught) and canonicalises (exit status, stdout parsed
     back to data, files afterwards) in the vocabulary of the model's answer;
  5. (thorough) repeats the run through the console script in /venv/bin.
`judge` states the property clauses directly on the observations and the
library-level results, independently of the model.
"""
import copy
import datetime
import importlib
import io
import json
import os
import random
import shutil
import signal
import subprocess
import sys
import types
import warnings

from common import hexs

CONFIG = {
    "id": "C16",
    "rule": ("structured command lines for the six tools: documents (maps, lists, arrays-of-hashes, scalars of every "
             "type, nulls, dates/timestamps, multi-line strings, sets, multi-document streams, empty and invalid YAML) x "
             "queries/paths matching 0/1/many nodes incl. containers x file vs STDIN delivery (explicit '-' and implied) x "
             "YAML vs JSON input/output x dot vs slash notation x the main options of each tool (noise flags, "
             "--same/--onlysame/--quiet, document indexes, --output/--overwrite/--backup/--document-format/"
             "--multi-doc-mode, --config files with [defaults]/[rules]/[keys], --check/--saveto/--mustexist/--delete/--null/"
             "--backup/--tag/--aliasof/--anchor/--mergekey/--file/--stdin/--random/--eyamlcrypt (stand-in cipher), the "
             "result printing options of yaml-paths) plus a malformed stream (bad option mixes, missing files, two '-', invalid expressions); "
             "non-trivial = the run got past argument validation; distinct = distinct (tool, argv, files, stdin)."),
    "trusted_base": [
        "modelled, not verified: main()/validateargs()/print helpers of yamlpath/commands/yaml_{get,set,merge,diff,"
        "validate,paths}.py, the trapped-exception lists and the STDIN empty-document case of "
        "common/parsers.py get_yaml_data/get_yaml_multidoc_data, ConsolePrinter info/verbose/warning/error/critical",
        "oracles (inputs of the model, answered by the real libraries on the case): argparse, ruamel load/load_all/dump, "
        "json.dumps/json.loads, str() of nodes, date isoformat texts, pathlib suffix, Processor.get_nodes/set_value/"
        "delete_gathered_nodes, Differ, Merger.merge_with, search_for_paths, get_search_term, Nodes.build_next_node",
        "documents are abstract identifiers in the model: the harness numbers documents by their plain data, so two "
        "documents with equal data are one identifier",
        "not modelled: DEBUG output (stripped before comparison), message texts, YAML/JSON formatting bytes, the "
        "WARNING lines MergerConfig/DifferConfig print about a --config file, how yaml-paths maps its alias/key "
        "options to search_for_paths arguments",
        "oracles added for yaml-set: secrets.choice (deterministic stand-in in the harness computation and the "
        "in-process run), the EYAML binary (harness/eyaml_standin.py), how ruamel's dump of the changed document ends "
        "and what its text loads back to, the JSON view of a JSON write, the class open(--file) raises",
    ],
    "assumptions": [
        "the model is the code only as far as the correspondence run shows",
        "in-process runs replace sys.stdin and yamlpath.common.parsers.stdin by a StringIO stand-in; the thorough "
        "tier repeats a sample through the installed console scripts",
        "Merger.merge_with and the library steps of yaml-set are deterministic functions of document data",
    ],
}

TOOLS = {"get": "yaml_get", "set": "yaml_set", "merge": "yaml_merge", "diff": "yaml_diff",
         "validate": "yaml_validate", "paths": "yaml_paths"}
SCRIPTS = {"get": "yaml-get", "set": "yaml-set", "merge": "yaml-merge", "diff": "yaml-diff",
           "validate": "yaml-validate", "paths": "yaml-paths"}
HINT = "Please try --help for more information."

_ENV = {}
_CACHE = {}
_COUNTER = [0]
_LAST_OUT = [""]


def init_worker():
    import yamlpath.common.parsers as P
    from yamlpath.common import Parsers, Nodes
    from yamlpath.wrappers import ConsolePrinter, NodeCoords
    from yamlpath.exceptions import YAMLPathException
    from yamlpath.merger.exceptions import MergeException
    from yamlpath.eyaml.exceptions import EYAMLCommandException
    from yamlpath.eyaml import EYAMLProcessor
    from yamlpath import YAMLPath
    from yamlpath.enums import PathSeparators
    from ruamel.yaml.comments import CommentedSet, CommentedMap, CommentedSeq, TaggedScalar
    from yamlpath.patches.timestamp import AnchoredTimeStamp, AnchoredDate
    mods = {t: importlib.import_module("yamlpath.commands." + m) for t, m in TOOLS.items()}
    import tempfile
    base = os.path.join(tempfile.gettempdir(), "cli_%d" % os.getpid())     # under the run's scratch directory (TMPDIR set by ./check)
    shutil.rmtree(base, ignore_errors=True)
    os.makedirs(base, exist_ok=True)
    _ENV.update(P=P, Parsers=Parsers, Nodes=Nodes, ConsolePrinter=ConsolePrinter, NodeCoords=NodeCoords,
                YPE=YAMLPathException, MergeExc=MergeException, EyamlExc=EYAMLCommandException,
                EYAMLProcessor=EYAMLProcessor, YAMLPath=YAMLPath, PathSeparators=PathSeparators,
                CommentedSet=CommentedSet, CommentedMap=CommentedMap, CommentedSeq=CommentedSeq,
                TaggedScalar=TaggedScalar, AnchoredTimeStamp=AnchoredTimeStamp, AnchoredDate=AnchoredDate,
                mods=mods, base=base, cwd=os.getcwd())
    import atexit
    atexit.register(lambda: shutil.rmtree(base, ignore_errors=True))


# ----------------------------------------------------------------------------
# small S-expression helpers

def B(x):
    return "true" if x else "false"


def I(n):
    return "i%d" % n


def OPT(x, f=lambda v: v):
    return "none" if x is None else "(some %s)" % f(x)


def LST(items):
    return "(%s)" % " ".join(items)


def ufam(e):
    E = _ENV
    if isinstance(e, E["YPE"]):
        return "ype"
    if isinstance(e, E["MergeExc"]):
        return "mergeexc"
    if isinstance(e, E["EyamlExc"]):
        return "eyaml"
    return "(crash %s)" % hexs(type(e).__name__)


def lres(f, thunk):
    try:
        v = thunk()
    except RecursionError as e:
        return "(raise %s)" % ufam(e)
    except Exception as e:  # noqa
        return "(raise %s)" % ufam(e)
    return "(ok %s)" % f(v)


def noise_sx(ns):
    return "(%s %s %s)" % (B(ns.quiet), B(ns.verbose), B(ns.debug))


def quiet_log():
    return _ENV["ConsolePrinter"](types.SimpleNamespace(quiet=True, verbose=False, debug=False))


class NullLog:
    """A logger that prints nothing and never exits (for fact computation);
    it remembers the verbose messages the library emits."""
    def __init__(self):
        self.verb = []

    def info(self, *a, **k): pass

    def verbose(self, message, *a, **k):
        self.verb.append(str(message))

    def warning(self, *a, **k): pass
    def error(self, *a, **k): pass
    def debug(self, *a, **k): pass
    def critical(self, *a, **k): pass


class DebugLog(NullLog):
    """NullLog whose debug() really renders its message and data (output discarded) when --debug is
    in force: rendering is part of how a library call ends (ConsolePrinter._debug_scalar calls str()
    on the data and can raise)."""
    def __init__(self, debug_on):
        super().__init__()
        self.cp = _ENV["ConsolePrinter"](types.SimpleNamespace(quiet=False, verbose=False, debug=True)) if debug_on else None

    def debug(self, message, **kwargs):
        if self.cp is not None:
            saved = sys.stdout
            sys.stdout = io.StringIO()
            try:
                self.cp.debug(message, **kwargs)
            finally:
                sys.stdout = saved


# ----------------------------------------------------------------------------
# plain data and document identifiers

def plain(x):
    """Order-insensitive plain-data view of a loaded document (the harness's
    own definition of 'data-equal'; independent of jsonify_yaml_data)."""
    E = _ENV
    if isinstance(x, E["TaggedScalar"]):
        return ("t", str(x.tag.value), plain(x.value))
    if isinstance(x, dict):
        return ("M", tuple(sorted(((plain(k), plain(v)) for k, v in x.items()), key=repr)))
    if isinstance(x, (list, tuple)):
        return ("L", tuple(plain(e) for e in x))
    if isinstance(x, (set, frozenset, E["CommentedSet"])):
        return ("T", tuple(sorted((plain(e) for e in x), key=repr)))
    if x is None:
        return ("n",)
    if isinstance(x, E["AnchoredDate"]):
        return ("D", x.date().isoformat())
    if isinstance(x, datetime.datetime):
        return ("D", x.isoformat())
    if isinstance(x, datetime.date):
        return ("D", x.isoformat())
    if type(x) is bool or type(x).__name__ == "ScalarBoolean":
        return ("b", bool(x))
    if isinstance(x, int):
        return ("i", int(x))
    if isinstance(x, float):
        return ("f", repr(float(x)))
    if isinstance(x, str):
        return ("s", str.__str__(x))
    if isinstance(x, bytes):
        return ("y", x)
    return ("o", type(x).__name__, str(x))


def jsonable(x):
    """The harness's own statement of 'containers as JSON': what json.loads of
    the printed line must give for node x (dates as ISO text, sets as objects
    with null values, keys as JSON key texts)."""
    E = _ENV
    if isinstance(x, E["TaggedScalar"]):
        return None if x.tag.value == "!null" else jsonable(x.value)
    if isinstance(x, dict):
        return {jkey(k): jsonable(v) for k, v in x.items()}
    if isinstance(x, (list, tuple)):
        return [jsonable(e) for e in x]
    if isinstance(x, (set, frozenset, E["CommentedSet"])):
        return {jkey(e): None for e in x}
    if isinstance(x, E["AnchoredDate"]):
        return x.date().isoformat()
    if isinstance(x, E["AnchoredTimeStamp"]):
        return E["Nodes"].get_timestamp_with_tzinfo(x).isoformat()
    if isinstance(x, (datetime.datetime, datetime.date)):
        return x.isoformat()
    if type(x) is bool or type(x).__name__ == "ScalarBoolean":
        return bool(x)
    if isinstance(x, bytes):
        return str(x)
    if isinstance(x, int):
        return int(x)
    if isinstance(x, float):
        return float(x)
    if isinstance(x, str):
        return str.__str__(x)
    return x


def jkey(k):
    k = jsonable(k)
    if k is None:
        return "null"
    if k is True:
        return "true"
    if k is False:
        return "false"
    if isinstance(k, float):
        return float.__repr__(k)
    return str(k)


class Registry:
    """Documents numbered by plain data; remembers one representative."""

    def __init__(self):
        self.ids = {}
        self.flow = {}
        self.jview = {}

    def id_of_plain(self, p, bit=0):
        """2 * (data class) + bit: the root style of a document is not a function of its data,
        and the glue tests it, so it is part of the identifier; dumps are compared by data class."""
        k = repr(p)
        if k not in self.ids:
            self.ids[k] = len(self.ids)
        return 2 * self.ids[k] + (1 if bit else 0)

    def add(self, data, bit=0):
        return self.id_of_plain(plain(data), bit)

    def lookup_plain(self, p):
        c = self.ids.get(repr(p))
        return None if c is None else 2 * c


def json_view(data):
    """The document after Merger.prepare_for_dump's JSON round trip (oracle)."""
    # copy.deepcopy turns an AnchoredDate into an AnchoredTimeStamp, and jsonify_yaml_data
    # converts in place: use the harness's own non-mutating JSON view instead
    return json.loads(json.dumps(jsonable(data)))


def mro_names(e):
    return [c.__name__ for c in type(e).__mro__ if c is not object]


# ----------------------------------------------------------------------------
# what ruamel does on a source (under the loader's warnings regime)

def raw_load_all(name, stdin_text):
    E = _ENV
    yaml = E["Parsers"].get_yaml_editor()
    docs = []
    fail = None
    fh = None
    try:
        with warnings.catch_warnings():
            warnings.filterwarnings("error")
            if name == "-":
                it = yaml.load_all(stdin_text if stdin_text is not None else "")
            else:
                fh = open(name, "r", encoding="utf-8")
                it = yaml.load_all(fh)
            for d in it:
                docs.append(d)
    except BaseException as e:  # noqa
        fail = mro_names(e)
    finally:
        if fh is not None:
            fh.close()
    return docs, fail


def raw_load_one(name, stdin_text):
    E = _ENV
    yaml = E["Parsers"].get_yaml_editor()
    try:
        with warnings.catch_warnings():
            warnings.filterwarnings("error")
            if name == "-":
                return yaml.load(stdin_text if stdin_text is not None else ""), None
            with open(name, "r", encoding="utf-8") as fh:
                return yaml.load(fh), None
    except BaseException as e:  # noqa
        return None, mro_names(e)


def rawload_sx(reg, docs, fail, bit=None):
    return "(raw %s %s)" % (LST(I(reg.add(d, bit(d) if bit else 0)) for d in docs),
                            OPT(fail, lambda m: LST(hexs(c) for c in m)))


def source_sx(reg, name, stdin_text, keep=None, bit=None):
    docs, fail = raw_load_all(name, stdin_text)
    if keep is not None:
        keep[name] = (docs, fail)
    return "(src %s %s %s)" % (hexs(name), B(os.path.isfile(name)), rawload_sx(reg, docs, fail, bit))


EMPTY_SRC = "(src s2d false (raw () none))"


# ----------------------------------------------------------------------------
# running the real tool

class StdIn(io.StringIO):
    def __init__(self, text, tty):
        super().__init__(text)
        self._tty = tty

    def isatty(self):
        return self._tty


class Deadline(BaseException):
    pass


def _alarm(signum, frame):
    raise Deadline()


def run_main(tool, argv, stdin_text, patches=None):
    """Real main() in-process.  Returns (status, stdout, stderr): status is an
    int exit code or ('uncaught', exception)."""
    E = _ENV
    mod = E["mods"][tool]
    P = E["P"]
    out, err = io.StringIO(), io.StringIO()
    si = StdIn("" if stdin_text is None else stdin_text, stdin_text is None)
    saved = (sys.argv, sys.stdout, sys.stderr, sys.stdin, P.stdin)
    undo = []
    sys.argv = [SCRIPTS[tool]] + list(argv)
    sys.stdout, sys.stderr, sys.stdin, P.stdin = out, err, si, si
    try:
        for (obj, name, val) in (patches or []):
            undo.append((obj, name, getattr(obj, name)))
            setattr(obj, name, val)
        try:
            signal.signal(signal.SIGALRM, _alarm)
            signal.setitimer(signal.ITIMER_REAL, 20.0)
            try:
                mod.main()
            finally:
                signal.setitimer(signal.ITIMER_REAL, 0)
            status = 0
        except SystemExit as x:
            c = x.code
            status = 0 if c is None else (c if isinstance(c, int) else 1)
        except BaseException as x:  # noqa
            status = ("uncaught", x)
    finally:
        for (obj, name, val) in reversed(undo):
            setattr(obj, name, val)
        sys.argv, sys.stdout, sys.stderr, sys.stdin, P.stdin = saved
    _LAST_OUT[0] = out.getvalue()
    return status, out.getvalue(), err.getvalue()


def parse_args(tool, argv):
    """The real argparse (oracle).  Returns (namespace, None) or (None, exit status)."""
    mod = _ENV["mods"][tool]
    saved = (sys.argv, sys.stdout, sys.stderr)
    sys.argv = [SCRIPTS[tool]] + list(argv)
    sys.stdout, sys.stderr = io.StringIO(), io.StringIO()
    try:
        return mod.processcli(), None
    except SystemExit as x:
        c = x.code
        return None, (0 if c is None else (c if isinstance(c, int) else 1))
    except Exception as x:  # noqa  (a type= callable raising something argparse does not trap)
        return None, ("uncaught", x)
    finally:
        sys.argv, sys.stdout, sys.stderr = saved


def status_sx(status):
    if isinstance(status, tuple):
        return "(uncaught %s)" % ufam(status[1])
    return "(exit %s)" % I(status)


LIB_WARNINGS = ("YAML Path matches no nodes:", "User-specified configuration file has no ")


def strip_debug(text):
    """DEBUG output is never compared; neither are the two WARNING lines MergerConfig / DifferConfig
    themselves emit about a --config file (a section is missing, a rule's path matches nothing): they
    are library messages, recognised by their text."""
    lines = text.split("\n")
    return "\n".join(l for l in lines if not l.startswith("DEBUG:  ")
                     and not (l.startswith("WARNING:  ") and any(w in l for w in LIB_WARNINGS)))


def out_lines(text):
    text = strip_debug(text)
    lines = text.split("\n")
    if lines and lines[-1] == "":
        lines.pop()
    return lines


def run_sx(status, lines, fx):
    return "(run %s %s %s)" % (status_sx(status), LST(lines), LST(fx))


# ----------------------------------------------------------------------------
# facts about result nodes (yaml-get, yaml-paths --values)

class Objs:
    """Result objects of a case, numbered in order of appearance; remembers
    the JSON data each container is expected to print as."""

    def __init__(self):
        self.items = []     # (id, expected json data | None, independent jsonable | None)
        self.by_json = {}   # containers are numbered by the JSON data they print as

    def facts(self, node):
        E = _ENV
        i = len(self.items)
        if isinstance(node, dict):
            kind = "dict"
        elif isinstance(node, list):
            kind = "list"
        elif isinstance(node, E["CommentedSet"]):
            kind = "cset"
        elif node is None:
            kind = "none"
        else:
            kind = "other"
        adate = isinstance(node, E["AnchoredDate"])
        ats = isinstance(node, E["AnchoredTimeStamp"])
        isod = isot = ""
        if adate:
            isod = node.date().isoformat()
        if ats:
            try:
                isot = E["Nodes"].get_timestamp_with_tzinfo(node).isoformat()
            except Exception:  # noqa
                isot = ""
        jres = "ok"
        expect = None
        indep = None
        if kind in ("dict", "list", "cset"):
            try:
                indep = jsonable(node)
            except Exception:  # noqa
                indep = None
            try:
                # in place, as main() does (later results see the conversion)
                expect = json.loads(json.dumps(E["Parsers"].jsonify_yaml_data(node)))
            except RecursionError:
                jres = "recursion"
            except Exception as e:  # noqa
                jres = "(crash %s)" % hexs(type(e).__name__)
        try:
            st = str(node)
        except Exception:  # noqa
            st = ""
        if expect is not None:
            k = json.dumps(expect, sort_keys=True)
            i = self.by_json.setdefault(k, i)
        self.items.append((i, expect, indep))
        return "(obj %s %s %s %s %s %s %s %s)" % (I(i), kind, B(adate), B(ats), hexs(st), hexs(isod), hexs(isot), jres)

    def find_json(self, data, prefer=None):
        """Identifier of a container object expected to print as `data`."""
        if prefer is not None and prefer < len(self.items) and self.items[prefer][1] is not None \
                and self.items[prefer][1] == data:
            return self.items[prefer][0]
        for (i, expect, _) in self.items:
            if expect is not None and expect == data:
                return i
        return None


def try_json(text):
    try:
        v = json.loads(text)
    except Exception:  # noqa
        return None
    return v if isinstance(v, (dict, list)) else None


# ----------------------------------------------------------------------------
# yaml-get

def exec_get(case, ns):
    E = _ENV
    stdin = case.get("stdin")
    src = ns.yaml_file if ns.yaml_file else "-"
    a = "(args %s %s %s %s %s %s %s)" % (
        hexs(ns.yaml_file or ""), B(ns.nostdin), noise_sx(ns),
        B(bool(ns.privatekey)), B(bool(ns.privatekey) and os.path.isfile(ns.privatekey)),
        B(bool(ns.publickey)), B(bool(ns.publickey) and os.path.isfile(ns.publickey)))
    data, fail = raw_load_one(src, stdin)
    objs = Objs()
    facts = {"nodes": None, "raised": None, "loaded": fail is None, "objs": objs}
    qlog = NullLog()
    if fail is not None:
        load_sx = "(fail %s)" % LST(hexs(c) for c in fail)
        query_sx = "(ok ())"
    else:
        load_sx = "(doc %s)" % ("none" if data is None else "(some i0)")
        try:
            proc = E["EYAMLProcessor"](qlog, data, binary=ns.eyaml, publickey=ns.publickey,
                                       privatekey=ns.privatekey)
            nodes = []
            for nc in proc.get_eyaml_values(E["YAMLPath"](ns.query, pathsep=ns.pathsep), mustexist=True):
                nodes.append(E["NodeCoords"].unwrap_node_coords(nc))
            facts["nodes"] = nodes
            # independent expectations BEFORE jsonify mutates anything
            facts["expect_lines"] = [judge_get_line(n) for n in nodes]
            query_sx = "(ok %s)" % LST(objs.facts(n) for n in nodes)
        except (Exception, RecursionError) as e:  # noqa
            facts["raised"] = e
            query_sx = "(raise %s)" % ufam(e)
    req = "(cli-get %s %s %s %s %s)" % (a, B(stdin is None), load_sx, I(len(qlog.verb)), query_sx)
    status, out, err = run_main("get", case["argv"], stdin)
    lines = []
    raw_lines = out_lines(out)
    used = set()
    for k, l in enumerate(raw_lines):
        if l == HINT:
            lines.append("hint")
            continue
        if l in qlog.verb:
            lines.append("verb")
            continue
        j = try_json(l)
        oid = objs.find_json(j, prefer=k - len([x for x in lines if x == "verb"])) if j is not None else None
        if oid is not None:
            lines.append("(json %s)" % I(oid))
        else:
            lines.append("(text %s)" % hexs(l))
    facts.update(status=status, stdout=[l for l in raw_lines if l not in qlog.verb], stderr=err,
                 usage_error=("hint" in lines and fail is None))
    return req, run_sx(status, lines, []), facts


def judge_get_line(node):
    """What the property text demands for one matched node, on a pristine node."""
    E = _ENV
    if isinstance(node, (dict, list, E["CommentedSet"])):
        try:
            return ("json", jsonable(node))
        except Exception:  # noqa
            return ("json", None)
    if node is None:
        return ("text", "\x00")
    if isinstance(node, E["AnchoredDate"]):
        return ("text", node.date().isoformat())
    if isinstance(node, E["AnchoredTimeStamp"]):
        return ("text", E["Nodes"].get_timestamp_with_tzinfo(node).isoformat())
    return ("text", str(node).replace("\n", "\\n"))


def judge_get(case, f):
    st = f["status"]
    if f.get("usage_error"):
        return None if st == 1 else "yaml-get reported a usage error but exited %s" % (st,)
    if not f["loaded"]:
        return None if st not in (0,) else "yaml-get exited 0 although the document did not load"
    if f["raised"] is not None:
        if isinstance(f["raised"], _ENV["YPE"]) and st == 0:
            return "yaml-get exited 0 although the query raised a YAML Path error"
        return None
    nodes = f["nodes"]
    if isinstance(st, tuple):
        if any(k == "json" and v is None for (k, v) in f["expect_lines"]):
            return None   # not JSON-serialisable (outside the generators' domain)
        return "yaml-get ended in an uncaught %s although the query returned %d node(s)" % (
            type(st[1]).__name__, len(nodes))
    if (st == 0) != (len(nodes) >= 1):
        return "yaml-get exit status %s with %d matched node(s)" % (st, len(nodes))
    if st == 0:
        lines = f["stdout"]
        if len(lines) != len(nodes):
            return "yaml-get printed %d line(s) for %d matched node(s)" % (len(lines), len(nodes))
        for k, (l, (kind, want)) in enumerate(zip(lines, f["expect_lines"])):
            if kind == "json":
                got = try_json(l)
                if got is None or got != want:
                    return "yaml-get line %d is not the JSON of matched node %d" % (k, k)
            elif l != want:
                return "yaml-get line %d is not the text of matched node %d" % (k, k)
    return None


# ----------------------------------------------------------------------------
# yaml-validate

def exec_validate(case, ns):
    stdin = case.get("stdin")
    reg = Registry()
    estr = reg.add("")
    keep = {}
    srcs = [source_sx(reg, f, stdin, keep) for f in ns.yaml_files]
    consumed = any(f == "-" for f in ns.yaml_files)
    if stdin is not None and not consumed:
        stdin_src = source_sx(reg, "-", stdin, keep)
    else:
        stdin_src = EMPTY_SRC
    req = "(cli-validate %s (args %s %s) %s %s %s)" % (
        I(estr), B(ns.nostdin), noise_sx(ns), B(stdin is None), LST(srcs), stdin_src)
    status, out, err = run_main("validate", case["argv"], stdin)
    lines = []
    import re
    for l in out_lines(out):
        if l == HINT:
            lines.append("hint")
            continue
        m = re.match(r"^(.*)/(\d+) is valid\.$", l, re.S)
        if m:
            lines.append("(valid %s %s)" % (hexs(m.group(1)), I(int(m.group(2)))))
            continue
        m = re.match(r"^(.*)/(\d+) is invalid due to:$", l, re.S)
        if m:
            lines.append("(invalid %s %s)" % (hexs(m.group(1)), I(int(m.group(2)))))
            continue
        # the messages of an invalid document ("  * ..." and their continuation lines) are not data
        if lines and lines[-1].startswith("(invalid") or l.startswith("  * "):
            continue
        lines.append("(text %s)" % hexs(l))
    facts = {"status": status, "keep": keep, "ns": ns, "stdin": stdin, "consumed": consumed}
    return req, run_sx(status, lines, []), facts


def judge_validate(case, f):
    ns, st = f["ns"], f["status"]
    files = list(ns.yaml_files)
    stdin = f["stdin"]
    dashes = sum(1 for x in files if x.strip() == "-")
    if dashes > 1 or (not files and (stdin is None or ns.nostdin)):
        return None if st == 1 else "yaml-validate accepted an invalid command line (status %s)" % (st,)
    names = list(files)
    if stdin is not None and not ns.nostdin and not any(x.strip() == "-" for x in files):
        names.append("-")
    all_ok = True
    for n in names:
        if n not in f["keep"]:
            continue
        docs, fail = f["keep"][n]
        if fail is not None:
            all_ok = False
    if isinstance(st, tuple):
        return None if not all_ok else "yaml-validate crashed (%s) on loadable input" % type(st[1]).__name__
    if (st == 0) != all_ok:
        return "yaml-validate exit status %s but %s" % (st, "every document loads" if all_ok else "a document fails to load")
    return None


# ----------------------------------------------------------------------------
# yaml-diff

def diff_docs(name, stdin):
    docs, fail = raw_load_all(name, stdin)
    if name == "-" and not docs and fail is None:
        docs = [""]
    out = []
    for d in docs:
        if not isinstance(d, (list, dict)) and len(str(d)) < 1:
            d = None
        out.append(d)
    return out, fail


def exec_diff(case, ns):
    E = _ENV
    from yamlpath.differ import Differ, DifferConfig
    from yamlpath.differ.enums import DiffActions
    stdin = case.get("stdin")
    reg = Registry()
    estr = reg.add("")
    lname, rname = ns.yaml_files
    a = "(args %s %s %s %s %s %s %s %s %s %s %s %s %s)" % (
        hexs(lname), hexs(rname), noise_sx(ns), B(ns.same), B(ns.onlysame),
        B(bool(ns.config)), B(bool(ns.config) and os.path.isfile(ns.config)),
        B(bool(ns.privatekey)), B(bool(ns.privatekey) and os.path.isfile(ns.privatekey)),
        B(bool(ns.publickey)), B(bool(ns.publickey) and os.path.isfile(ns.publickey)),
        OPT(ns.left_document_index, I), OPT(ns.right_document_index, I))
    lsrc = source_sx(reg, lname, stdin)
    rsrc = source_sx(reg, rname, stdin)
    ldocs, lfail = diff_docs(lname, stdin) if (lname == "-" or os.path.isfile(lname)) else ([], ["x"])
    rdocs, rfail = diff_docs(rname, stdin) if (rname == "-" or os.path.isfile(rname)) else ([], ["x"])
    report_sx = "(ok ())"
    texts = []
    facts = {"ns": ns, "ldocs": ldocs, "rdocs": rdocs, "lfail": lfail, "rfail": rfail, "actions": None,
             "pair": None}
    if lfail is None and rfail is None:
        li = ns.left_document_index if ns.left_document_index is not None else 0
        ri = ns.right_document_index if ns.right_document_index is not None else 0
        try:
            ld, rd = ldocs[li], rdocs[ri]
            ok = True
        except Exception:  # noqa
            ok = False
        if ok:
            facts["pair"] = (plain(ld), plain(rd))
            try:
                log = NullLog()
                diff = Differ(DifferConfig(log, ns), log, ld, ignore_eyaml_values=ns.ignore_eyaml_values,
                              binary=ns.eyaml, publickey=ns.publickey, privatekey=ns.privatekey)
                diff.compare_to(rd)
                acts = []
                ents = []
                for e in diff.get_report():
                    e.pathsep = ns.pathsep
                    e.verbose = ns.verbose or ns.debug
                    act = {DiffActions.ADD: "add", DiffActions.CHANGE: "change", DiffActions.DELETE: "delete",
                           DiffActions.SAME: "same"}[e.action]
                    try:
                        texts.append(str(e))
                        ents.append("(%s renders)" % act)
                    except (Exception, RecursionError) as x:  # noqa
                        texts.append(None)
                        ents.append("(%s (raises %s))" % (act, ufam(x)))
                        facts["unrenderable"] = True
                    acts.append(act)
                facts["actions"] = acts
                report_sx = "(ok %s)" % LST(ents)
            except (Exception, RecursionError) as e:  # noqa
                facts["raised"] = e
                report_sx = "(raise %s)" % ufam(e)
    req = "(cli-diff %s %s %s %s %s)" % (I(estr), a, lsrc, rsrc, report_sx)
    # observe which documents reach the Differ
    picked = []
    mod = E["mods"]["diff"]

    real_get_doc = mod.get_doc

    def spy_get_doc(log, docs, index):
        d = real_get_doc(log, docs, index)
        picked.append(("l" if not picked else "r", plain(d)))
        return d

    status, out, err = run_main("diff", case["argv"], stdin, patches=[(mod, "get_doc", spy_get_doc)])
    text = strip_debug(out)
    lines = []
    used = set()
    pos = 0
    while pos < len(text):
        rest = text[pos:]
        if rest.startswith(HINT + "\n"):
            lines.append("hint")
            pos += len(HINT) + 1
            continue
        if rest.startswith("\n"):
            lines.append("sep")
            pos += 1
            continue
        best = None
        for i, t in enumerate(texts):
            if t is not None and rest.startswith(t + "\n") and (best is None or len(t) > len(texts[best])
                                              or (len(t) == len(texts[best]) and best in used and i not in used)):
                if best is None or len(t) > len(texts[best]) or i not in used:
                    best = i
        if best is not None:
            used.add(best)
            lines.append("(entry %s)" % I(best))
            pos += len(texts[best]) + 1
            continue
        nlp = rest.find("\n")
        chunk = rest if nlp < 0 else rest[:nlp]
        lines.append("(text %s)" % hexs(chunk))
        pos += len(chunk) + 1

    def idx(docs, p):
        for i, d in enumerate(docs):
            if plain(d) == p:
                return i
        return None
    pl = [p for (s, p) in picked if s == "l"]
    pr = [p for (s, p) in picked if s == "r"]
    if pl and pr:
        li, ri = idx(ldocs, pl[0]), idx(rdocs, pr[0])
        pk = "(picked %s %s)" % ("unknown" if li is None else I(li), "unknown" if ri is None else I(ri))
    else:
        pk = "(picked none)"
    facts.update(status=status, stdout=text, texts=texts, printed=lines)
    obs = "(run %s %s () %s)" % (status_sx(status), LST(lines), pk)
    return req, obs, facts


def judge_diff(case, f):
    ns, st = f["ns"], f["status"]
    if "hint" in f["printed"]:
        return None if st == 1 else "yaml-diff reported a usage or load error but exited %s" % (st,)
    if f["actions"] is None:
        return None if st != 0 else "yaml-diff exited 0 without comparing two documents"
    if isinstance(st, tuple):
        if f.get("unrenderable"):
            return None       # library: str() of a diff entry raises (outside the generators' intent)
        return "yaml-diff ended in an uncaught %s" % type(st[1]).__name__
    if ns.quiet and (ns.same or ns.onlysame):
        return None if st == 1 else "yaml-diff accepted --quiet with --same/--onlysame"
    if (len(f["ldocs"]) > 1 and ns.left_document_index is None) or \
            (len(f["rdocs"]) > 1 and ns.right_document_index is None):
        return None if st == 1 else "yaml-diff compared multi-document sources without an index"
    differs = any(a != "same" for a in f["actions"])
    if (st == 0) == differs or st not in (0, 1):
        return "yaml-diff exit status %s but the differ reports %s" % (st, "differences" if differs else "no difference")
    ld, rd = f["pair"]
    # "exit 0 exactly when data-equal" is what positional comparison (the defaults) promises (C06); with
    # --arrays value / --aoh key|deep|value or a --config file equality is up to what those disregard
    positional = ns.arrays in (None, "position") and ns.aoh in (None, "position", "dpos") and not ns.config
    unkeyed = ns.aoh not in ("key", "deep") and not ns.config
    if (positional and (ld == rd) == differs) or (unkeyed and ld == rd and differs):
        return ("library: the differ reports %s for documents that are %s" %
                ("differences" if differs else "no difference", "data-equal" if ld == rd else "not data-equal"))
    printed = [l for l in f["printed"] if l.startswith("(entry")]
    if ns.quiet:
        want = []
    else:
        want = ["(entry %s)" % I(i) for i, a in enumerate(f["actions"])
                if ns.same or (a == "same") == bool(ns.onlysame)]
    if printed != want or any(l.startswith("(text") for l in f["printed"]):
        return "yaml-diff did not print exactly the differ's entries (%s vs %s)" % (printed, want)
    return None


# ----------------------------------------------------------------------------
# dumped documents (yaml-merge, yaml-set)

def parse_dump(text):
    """Parse a dump back to data: (is_json, [plain data]) or None."""
    E = _ENV
    if text.strip() == "":
        return None
    dec = json.JSONDecoder()
    docs = []
    pos = 0
    ok = True
    n = len(text)
    while True:
        while pos < n and text[pos] in " \t\r\n":
            pos += 1
        if pos >= n:
            break
        try:
            v, pos = dec.raw_decode(text, pos)
        except Exception:  # noqa
            ok = False
            break
        docs.append(v)
    if ok and docs:
        return True, [plain(d) for d in docs]
    try:
        yaml = E["Parsers"].get_yaml_editor()
        with warnings.catch_warnings():
            warnings.simplefilter("ignore")
            docs = list(yaml.load_all(text))
    except Exception:  # noqa
        return None
    return False, [plain(d) for d in docs]


def dump_ids(reg, parsed):
    ids = []
    for p in parsed:
        i = reg.lookup_plain(p)
        ids.append("unknown" if i is None else I(i))
    return LST(ids)


def noise_lines(text, file_mode):
    """Split stdout into canonical noise lines and the remaining dump text."""
    lines = []
    rest = []
    for l in strip_debug(text).split("\n"):
        if rest:
            rest.append(l)
        elif l == HINT:
            lines.append("hint")
        elif l.startswith("WARNING:  "):
            lines.append("warn")
        elif file_mode:
            if l != "":
                lines.append("verb")
        else:
            rest.append(l)
    return lines, "\n".join(rest)


def file_effects(reg, target, before_bytes, before_mtime, bak_before, failed=False):
    """Effects observed on the target file and its .bak.  `failed`: the run ended in an uncaught
    exception; the target rewritten with exactly its original bytes is then the restore path."""
    fx = []
    bak = target + ".bak"
    if os.path.exists(bak):
        nb = open(bak, "rb").read()
        if nb != bak_before:
            fx.append("backup" if nb == before_bytes else "(backup-of-something-else)")
    if os.path.exists(target):
        st = os.stat(target)
        nb = open(target, "rb").read()
        if failed and before_bytes is not None and nb == before_bytes and st.st_mtime_ns != before_mtime:
            fx.append("restored")
        elif before_bytes is None or st.st_mtime_ns != before_mtime or nb != before_bytes:
            parsed = parse_dump(nb.decode("utf-8", "replace"))
            if parsed is None:
                fx.append("(write unparsable)")
            else:
                fx.append("(write %s %s)" % (B(parsed[0]), dump_ids(reg, parsed[1])))
    elif before_bytes is not None:
        fx.append("(removed)")
    return fx


def age(path):
    if os.path.exists(path):
        os.utime(path, ns=(946684800 * 10**9, 946684800 * 10**9))
        return open(path, "rb").read(), os.stat(path).st_mtime_ns
    return None, None


# ----------------------------------------------------------------------------
# yaml-merge

def exec_merge(case, ns):
    E = _ENV
    from yamlpath.merger import Merger
    stdin = case.get("stdin")
    reg = Registry()
    estr = reg.add("", 1)
    target = ns.overwrite or ns.output or ""
    ext = ""
    if target:
        import pathlib
        ext = pathlib.Path(target).suffix.lower()
    cfgerr = "none"
    if ns.config and os.path.isfile(ns.config):
        from yamlpath.merger import MergerConfig
        try:
            MergerConfig(NullLog(), ns)
        except Exception as e:  # noqa
            cfgerr = "(some %s)" % hexs(type(e).__name__)
    a = "(args %s %s %s %s %s %s %s %s %s %s %s %s %s)" % (
        B(ns.nostdin), noise_sx(ns), B(bool(ns.config)), B(bool(ns.config) and os.path.isfile(ns.config)),
        hexs(ns.output or ""), B(bool(ns.output) and os.path.exists(ns.output)),
        hexs(ns.overwrite or ""), B(bool(ns.overwrite) and os.path.exists(ns.overwrite)),
        B(ns.backup), ns.document_format, ns.multi_doc_mode, hexs(ext), cfgerr)
    keep = {}
    mbit = lambda d: (not hasattr(d, "fa")) or bool(d.fa.flow_style())  # noqa
    srcs = [source_sx(reg, f, stdin, keep, mbit) for f in ns.yaml_files]
    consumed = any(f == "-" for f in ns.yaml_files)
    stdin_src = source_sx(reg, "-", stdin, keep, mbit) if (stdin is not None and not consumed) else EMPTY_SRC
    flow = {}
    jview = {}

    def note(data):
        bit = (not hasattr(data, "fa")) or bool(data.fa.flow_style())
        i = reg.add(data, bit)
        if i not in flow:
            flow[i] = bit
            try:
                jv = json_view(data)
                j = reg.id_of_plain(plain(jv), 1)
                jview[i] = j
                flow.setdefault(j, True)
                jview.setdefault(j, j)
            except Exception:  # noqa
                pass
        return i
    for (docs, fail) in keep.values():
        for d in docs:
            note(d)
    note("")
    merge2 = {}
    conflicts = []
    last_state = {}
    rhs_seen = {}
    aliasing = []
    real_merge_with = Merger.merge_with

    def spy(self, rhs):
        l = note(self.data)
        r = note(rhs)
        r -= r & 1
        # a document that changed between two of its own merges was changed through nodes it
        # shares with another document: "documents are values" does not hold for this run
        if id(self) in last_state and last_state[id(self)][1] != l:
            aliasing.append("changed-behind")
        if self.data is rhs and (isinstance(rhs, (dict, list, set)) or type(rhs).__name__ == "CommentedSet"):
            # only a shared MUTABLE node matters; two scalar documents holding the same interned
            # object (42 and 42) are values, not shared state
            aliasing.append("self-merge")
        # a right-hand document that is merged again (matrix mode) must still be the document that was loaded
        if id(rhs) in rhs_seen and rhs_seen[id(rhs)][1] != r:
            aliasing.append("rhs-changed")
        rhs_seen.setdefault(id(rhs), (rhs, r))
        exc = None
        try:
            return real_merge_with(self, rhs)
        except BaseException as e:  # noqa
            exc = e
            raise
        finally:
            d = note(self.data) if not isinstance(exc, Deadline) else l
            last_state[id(self)] = (self, d)
            if isinstance(exc, Deadline):
                aliasing.append("hang")
            val = ("none" if exc is None else "(some %s)" % ufam(exc), d)
            if (l, r) in merge2 and merge2[(l, r)] != val:
                conflicts.append((l, r))
            merge2[(l, r)] = val

    tb, tm = age(target) if target else (None, None)
    bakb = open(target + ".bak", "rb").read() if target and os.path.exists(target + ".bak") else None
    status, out, err = run_main("merge", case["argv"], stdin, patches=[(Merger, "merge_with", spy)])
    m2 = LST("(%s %s (%s %s))" % (I(l), I(r), e, I(d)) for (l, r), (e, d) in sorted(merge2.items()))
    fl = LST("(%s %s)" % (I(i), B(v)) for i, v in sorted(flow.items()))
    jv = LST("(%s %s)" % (I(i), I(v)) for i, v in sorted(jview.items()))
    req = "(cli-merge %s %s %s %s %s %s %s %s)" % (I(estr), a, B(stdin is None), LST(srcs), stdin_src, m2, fl, jv)
    lines, rest = noise_lines(out, bool(target))
    if not target and rest.strip() != "":
        parsed = parse_dump(rest)
        lines.append("(dump unparsable)" if parsed is None else "(dump %s %s)" % (B(parsed[0]), dump_ids(reg, parsed[1])))
    fx = file_effects(reg, target, tb, tm, bakb) if target else []
    if conflicts:
        lines.append("(merge2-not-a-function)")
    facts = {"ns": ns, "status": status, "keep": keep, "stdin": stdin, "target": target, "stdout": out,
             "consumed": consumed, "lines": lines, "fx": fx, "aliasing": aliasing}
    obs = run_sx(status, lines, fx)
    return req, obs, facts


def judge_merge(case, f):
    """Default-mode clause, independently: the output is the left-to-right merge of all input documents."""
    E = _ENV
    from yamlpath.merger import Merger, MergerConfig
    ns, st = f["ns"], f["status"]
    if f["aliasing"]:
        return ("library: yaml-merge -M %s: Merger.merge_with worked on nodes shared by reference; a merge changed a "
                "bystander document or never returned (%s)"
                % (ns.multi_doc_mode, ",".join(sorted(set(f["aliasing"])))))
    if ns.multi_doc_mode != "condense_all" or isinstance(st, tuple):
        return None
    if ns.config and not os.path.isfile(ns.config):
        return None if st == 1 else "yaml-merge accepted a missing --config file"
    names = list(ns.yaml_files)
    dashes = sum(1 for x in names if x.strip() == "-")
    if dashes > 1 or (ns.backup and not ns.overwrite) or (ns.output and f.get("target_existed")):
        return None
    if f["stdin"] is not None and not ns.nostdin and dashes == 0:
        names.append("-")
    docs = []
    for n in names:
        if n not in f["keep"]:
            return None
        d, fail = raw_load_all(n, f["stdin"])     # fresh objects (never deep copies)
        if fail is not None:
            return None if st != 0 else "yaml-merge exited 0 although %s does not load" % n
        if n != "-" and not os.path.isfile(n):
            return None if st != 0 else "yaml-merge exited 0 although %s is not a file" % n
        dd = list(d)
        if n == "-" and not dd:
            dd = [""]
        docs.extend(dd)
    if not docs:
        return None
    try:
        log = NullLog()
        m = Merger(log, docs[0], MergerConfig(log, ns))
        for d in docs[1:]:
            m.merge_with(d)
    except Exception:  # noqa
        return None if st != 0 else "yaml-merge exited 0 although a merge step fails"
    if st != 0:
        return None   # validation errors etc. are judged by the correspondence
    want = plain(m.data)
    try:
        want_json = plain(json_view(m.data))
    except Exception:  # noqa
        want_json = None
    if f["target"]:
        if not os.path.exists(f["target"]):
            return "yaml-merge exited 0 without writing %s" % f["target"]
        parsed = parse_dump(open(f["target"], encoding="utf-8").read())
    else:
        lines, rest = noise_lines(f["stdout"], False)
        parsed = parse_dump(rest)
    if parsed is None or len(parsed[1]) != 1:
        return "yaml-merge output is not one document"
    is_json, (got,) = parsed
    if ns.document_format == "json" and not is_json:
        return "yaml-merge --document-format json did not write JSON"
    if ns.document_format == "yaml" and is_json and want[0] in ("M", "L"):
        return "yaml-merge --document-format yaml wrote JSON"
    if got != want and got != want_json:
        return "yaml-merge output is not the merge of its inputs"
    return None


# ----------------------------------------------------------------------------
# yaml-set

def exec_set(case, ns0):
    E = _ENV
    mod = E["mods"]["set"]
    stdin = case.get("stdin")
    tty = stdin is None
    reg = Registry()
    ns = copy.deepcopy(ns0)
    file0 = ns.yaml_file or ""
    stream = file0.strip() == "-" or (not file0 and not ns.nostdin and not tty)
    file_eff = file0 if file0 else "-"
    import pathlib
    a = "(args %s %s %s %s %s %s %s %s %s %s %s %s %s %s %s %s %s %s %s %s %s %s %s %s %s)" % (
        hexs(file0), B(ns.nostdin), noise_sx(ns), OPT(ns.value, hexs), B(bool(ns.aliasof)), B(bool(ns.mergekey)),
        B(bool(ns.file)), B(bool(ns.stdin)), OPT(ns.random, I), B(ns.null), B(ns.delete), hexs(ns.anchor or ""),
        B(bool(ns.tag)), B(bool(ns.check)), B(bool(ns.saveto)), B(bool(ns.saveto) and ns.saveto == ns.change),
        B(ns.mustexist), B(ns.backup), B(ns.eyamlcrypt),
        B(bool(ns.privatekey)), B(bool(ns.privatekey) and os.path.isfile(ns.privatekey)),
        B(bool(ns.publickey)), B(bool(ns.publickey) and os.path.isfile(ns.publickey)),
        I(len(ns.random_from)), B(pathlib.Path(file_eff).suffix.lower() == ".json"))
    # the library steps, on a fresh load, with the arguments main() passes
    flow = {}
    import secrets

    def note(data):
        bit = bool(hasattr(data, "fa") and data.fa.flow_style())
        i = reg.add(data, bit)
        flow[i] = bit
        return i
    data, fail = raw_load_one(file_eff, stdin)
    facts = {"ns": ns0, "file": file_eff, "stream": stream, "loaded": fail is None, "final": None,
             "gather_failed": False, "check_failed": False, "orig": None, "dump_err": None}
    load_sx = "(fail %s)" % LST(hexs(c) for c in fail) if fail is not None else \
        "(doc %s)" % ("none" if data is None else "(some %s)" % I(note(data)))
    facts["orig"] = None if fail is not None else plain(data)
    gather_sx, built_sx = "(ok ())", "(raise (crash s))"
    saveto_t, change_t, dump_t, jview_t, yview_t = {}, {}, {}, {}, {}
    # the replacement value, obtained as main() obtains it (secrets.choice is an oracle: both this
    # computation and the real run below use the same deterministic stand-in)
    new_value, has_new, value_ok = None, False, True
    valfile_err = "none"
    cverb_t = {}
    chooser = make_chooser()
    if ns.value or ns.value == "":
        new_value, has_new = ns.value, True
    elif ns.stdin:
        new_value, has_new = ("" if stdin is None else stdin), True
    elif ns.file:
        try:
            with open(ns.file, "r", encoding="utf-8") as fh:
                new_value = fh.read().rstrip()
            has_new = True
        except Exception as e:  # noqa
            value_ok = False
            valfile_err = "(some %s)" % hexs(type(e).__name__)
    elif ns.null:
        new_value, has_new = None, True
    elif ns.random is not None:
        # (an empty / one-character pool is refused by validateargs before this point)
        new_value, has_new = ("".join(chooser(ns.random_from) for _ in range(ns.random)) if ns.random_from else ""), True
    facts["new_value"] = new_value
    if fail is None and value_ok:
        from yamlpath.enums import YAMLValueFormats
        from yamlpath.eyaml.enums import EYAMLOutputFormats
        log = DebugLog(bool(ns.debug) and not ns.quiet)
        change_path = E["YAMLPath"](ns.change, pathsep=ns.pathsep)
        must_exist = bool(ns.mustexist or ns.delete or ns.saveto)
        tag = ns.tag
        if tag and not tag[0] == "!":
            tag = "!" + tag
        anchor = ns.anchor
        if anchor:
            anchor = anchor.replace(" ", "").replace("&", "").replace("*", "")
        ok = True
        if data is None:
            try:
                data = E["Nodes"].build_next_node(change_path, 0, new_value)
                built_sx = "(ok %s)" % I(note(data))
            except Exception as e:  # noqa
                built_sx = "(raise %s)" % ufam(e)
                ok = False
        old_format = YAMLValueFormats.DEFAULT
        if ok:
            proc = E["EYAMLProcessor"](log, data, binary=ns.eyaml, publickey=ns.publickey, privatekey=ns.privatekey)
            nodes = []
            try:
                for nc in proc.get_nodes(change_path, mustexist=True, default_value=("" if new_value else " ")):
                    nodes.append(nc)
                sns = []
                for nc in nodes:
                    is_ey = bool(proc.is_eyaml_value(nc.node))
                    dec = "(ok false)"
                    eq = bool(ns.check == nc.node)
                    if is_ey and ns.check and not (bool(ns.publickey) != bool(ns.privatekey)):
                        try:
                            eq_dec = bool(ns.check == proc.decrypt_eyaml(nc.node))
                            dec = "(ok %s)" % B(eq_dec)
                            if not eq_dec:
                                facts["check_failed"] = True
                        except (Exception, RecursionError) as e:  # noqa
                            dec = "(raise %s)" % ufam(e)
                            facts["check_failed"] = True
                    elif ns.check and (is_ey or not eq):
                        facts["check_failed"] = True
                    sns.append("(sn %s %s %s)" % (B(is_ey), dec, B(eq)))
                gather_sx = "(ok %s)" % LST(sns)
                if len(nodes) == 1:
                    old_format = YAMLValueFormats.from_node(nodes[0].node)
            except (Exception, RecursionError) as e:  # noqa
                gather_sx = "(raise %s)" % ufam(e)
                nodes = []
                if must_exist or not isinstance(e, E["YPE"]):
                    ok = False
                    facts["gather_failed"] = True
            if facts["check_failed"]:
                ok = False
        if ok and ns.saveto:
            d0 = note(data)
            if len(nodes) == 1:
                old_value = nodes[0].node
                if old_format in (YAMLValueFormats.FOLDED, YAMLValueFormats.LITERAL) \
                        and E["EYAMLProcessor"].is_eyaml_value(old_value):
                    old_value = old_value.replace(" ", "\n")
                try:
                    proc.set_value(E["YAMLPath"](ns.saveto, pathsep=ns.pathsep), E["Nodes"].clone_node(old_value),
                                   value_format=old_format, tag=tag)
                    saveto_t[d0] = "(ok %s)" % I(note(data))
                except (Exception, RecursionError) as e:  # noqa
                    saveto_t[d0] = "(raise %s)" % ufam(e)
                    ok = False
            else:
                ok = False
        if ok:
            d1 = note(data)
            verb_before = len(log.verb)
            try:
                if ns.delete:
                    proc.delete_gathered_nodes(nodes)
                elif ns.aliasof:
                    proc.alias_gathered_nodes(nodes, ns.aliasof, anchor_name=anchor)
                elif ns.mergekey:
                    proc.ymk_gathered_nodes(nodes, ns.mergekey, change_path, anchor_name=anchor)
                elif ns.eyamlcrypt:
                    format_type = YAMLValueFormats.from_str(ns.format)
                    if format_type is YAMLValueFormats.DEFAULT:
                        format_type = old_format
                    output_type = EYAMLOutputFormats.STRING
                    if format_type in [YAMLValueFormats.FOLDED, YAMLValueFormats.LITERAL]:
                        output_type = EYAMLOutputFormats.BLOCK
                    proc.set_eyaml_value(change_path, new_value, output=output_type, mustexist=False)
                elif has_new:
                    proc.set_value(change_path, new_value, value_format=ns.format, mustexist=must_exist, tag=tag)
                elif tag:
                    proc.tag_gathered_nodes(nodes, tag)
                change_t[d1] = "(ok %s)" % I(note(data))
                facts["final"] = plain(data)
            except E["YPE"] as e:
                entire = "delete the entire document" in e.user_message
                change_t[d1] = "(ype %s %s)" % (B(entire), I(note(data)))
                if ns.delete and not entire:
                    facts["final"] = plain(data)
            except E["EyamlExc"]:
                change_t[d1] = "eyaml"
            except (Exception, RecursionError) as e:  # noqa
                change_t[d1] = "(crash %s)" % ufam(e)
            cverb_t[d1] = I(len(log.verb) - verb_before)
        if data is not None:
            # how ruamel's dump of the state that would be written ends, and what its text loads
            # back to (oracles)
            yview_t[note(data)] = I(note(data))
            try:
                buf = io.StringIO()
                E["Parsers"].get_yaml_editor().dump(data, buf)
                dump_t[note(data)] = "none"
                back = parse_dump(buf.getvalue())
                if back is not None and not back[0] and len(back[1]) == 1:
                    yview_t[note(data)] = I(reg.id_of_plain(back[1][0]))
                    facts["yaml_reloads_to"] = back[1][0]
            except (Exception, RecursionError) as e:  # noqa
                dump_t[note(data)] = "(some %s)" % hexs(type(e).__name__)
                facts["dump_err"] = type(e).__name__
            # what the JSON text of the state reloads to (oracle; only read for JSON output)
            try:
                jview_t[note(data)] = I(reg.id_of_plain(plain(json_view(data))))
            except (Exception, RecursionError):  # noqa
                jview_t[note(data)] = I(note(data))
    tbl = lambda t: LST("(%s %s)" % (I(k), v) for k, v in sorted(t.items()))  # noqa
    req = "(cli-set %s %s %s %s %s %s %s %s %s %s %s %s %s)" % (
        a, B(tty), valfile_err, load_sx, gather_sx, built_sx,
        tbl(saveto_t), tbl(change_t), LST("(%s %s)" % (I(i), B(v)) for i, v in sorted(flow.items())), tbl(dump_t),
        tbl(jview_t), tbl(yview_t), tbl(cverb_t))
    target = "" if stream else file_eff
    tb, tm = age(target) if target else (None, None)
    bakb = open(target + ".bak", "rb").read() if target and os.path.exists(target + ".bak") else None
    status, out, err = run_main("set", case["argv"], stdin, patches=[(secrets, "choice", make_chooser())])
    lines, rest = noise_lines(out, bool(target))
    if not target and isinstance(status, tuple) and (rest.strip() != "" or facts["dump_err"]):
        # the dumper raised half way: what it had written so far is not a document
        lines.append("dump-partial")
    elif not target and rest.strip() != "":
        parsed = parse_dump(rest)
        lines.append("(dump unparsable)" if parsed is None else "(dump %s %s)" % (B(parsed[0]), dump_ids(reg, parsed[1])))
        facts["dumped"] = parsed
    fx = file_effects(reg, target, tb, tm, bakb, failed=isinstance(status, tuple)) if target else []
    facts.update(status=status, target=target, before=tb, stdout=out, fx=fx)
    obs = run_sx(status, lines, fx)
    return req, obs, facts


def make_chooser():
    """Deterministic stand-in for secrets.choice: the k-th call returns pool[k mod len(pool)]."""
    k = [0]

    def choice(seq):
        if not seq:
            raise IndexError("Cannot choose from an empty sequence")
        c = seq[k[0] % len(seq)]
        k[0] += 1
        return c
    return choice


def judge_set(case, f):
    st = f["status"]
    ns = f["ns"]
    if not f["loaded"]:
        return None if st != 0 else "yaml-set exited 0 although the document did not load"
    target = f["target"]
    if target:
        now = open(target, "rb").read() if os.path.exists(target) else None
        changed = now != f["before"]
    else:
        now, changed = None, False
    if (f["check_failed"] or f["gather_failed"]):
        if st == 0:
            return "yaml-set exited 0 although %s" % ("--check failed" if f["check_failed"] else "the path is unmatched")
        if changed:
            return "yaml-set wrote the file although %s" % ("--check failed" if f["check_failed"] else "the path is unmatched")
        return None
    if st == 0 and f["final"] is not None:
        if target:
            parsed = parse_dump(now.decode("utf-8", "replace")) if now is not None else None
        else:
            parsed = f.get("dumped")
        if parsed is None or len(parsed[1]) != 1:
            return "yaml-set exited 0 but left no single reloadable document"
        got = parsed[1][0]
        if got != f["final"]:
            # JSON files hold the JSON view of the data
            try:
                return None if parsed[0] else "yaml-set left a document that is not the library's post-state"
            finally:
                pass
    if st != 0 and changed:
        return "yaml-set failed (status %s) but changed the file" % (st,)
    if st == 0 and any("unparsable" in x for x in f["fx"]):
        return "yaml-set exited 0 but left a file that does not load again"
    if st == 0:
        v = judge_random(ns, f, now.decode("utf-8", "replace") if now is not None else noise_lines(f["stdout"], False)[1])
        if v:
            return v
    return None


def judge_random(ns, f, text):
    """--random LEN --random-from POOL: every node at the change path holds LEN characters of POOL
    (the characters themselves are the oracle's).  Only for alphabetic pools: a string of digits is
    re-typed by the library."""
    E = _ENV
    if ns.random is None or ns.value is not None or ns.stdin or ns.file or ns.null or ns.delete or ns.aliasof \
            or ns.mergekey or ns.eyamlcrypt or not ns.random_from.isalpha() or ns.format != "default":
        return None
    try:
        doc = E["Parsers"].get_yaml_editor().load(text)
        proc = E["EYAMLProcessor"](NullLog(), doc)
        got = [str(nc.node) for nc in proc.get_nodes(E["YAMLPath"](ns.change, pathsep=ns.pathsep), mustexist=True)]
    except Exception:  # noqa
        return "yaml-set --random exited 0 but the changed path does not resolve in the result"
    want_len = max(ns.random, 0)
    for g in got:
        if len(g) != want_len or any(c not in ns.random_from for c in g):
            return "yaml-set --random %d --random-from %s wrote %r" % (ns.random, ns.random_from, g)
    return None


# ----------------------------------------------------------------------------
# yaml-paths

def exec_paths(case, ns):
    E = _ENV
    mod = E["mods"]["paths"]
    from yamlpath.enums import IncludeAliases
    from yamlpath.common import Anchors
    stdin = case.get("stdin")
    reg = Registry()
    estr = reg.add("")
    fslash = ns.pathsep is E["PathSeparators"].FSLASH
    a = "(args %s %s %s %s %s %s %s %s %s %s %s %s %s)" % (
        LST(hexs(x) for x in ns.search), LST(hexs(x) for x in (ns.except_expression or [])),
        B(ns.nofile), B(ns.noexpression), B(ns.noyamlpath), B(ns.values), B(ns.noescape), B(fslash), B(ns.nostdin),
        B(bool(ns.privatekey)), B(bool(ns.privatekey) and os.path.isfile(ns.privatekey)),
        B(bool(ns.publickey)), B(bool(ns.publickey) and os.path.isfile(ns.publickey)))
    keep = {}
    srcs = [source_sx(reg, f, stdin, keep) for f in ns.yaml_files]
    consumed = any(f == "-" for f in ns.yaml_files)
    stdin_src = source_sx(reg, "-", stdin, keep) if (stdin is not None and not consumed) else EMPTY_SRC
    # how main() turns its options into search_for_paths arguments (not modelled)
    search_values, search_keys = True, False
    if ns.onlykeynames:
        search_values, search_keys = False, True
    elif ns.keynames:
        search_keys = True
    ika = ns.include_aliases in (IncludeAliases.INCLUDE_ALL_ALIASES, IncludeAliases.INCLUDE_KEY_ALIASES)
    iva = ns.include_aliases in (IncludeAliases.INCLUDE_ALL_ALIASES, IncludeAliases.INCLUDE_VALUE_ALIASES)
    objs = Objs()
    table = {}
    log = NullLog()
    all_docs = []
    for (docs, fail) in keep.values():
        all_docs.extend(docs)
    if stdin is not None:
        all_docs.append("")
    want = {}

    def results_for(doc, exprs):
        out = []
        proc = E["EYAMLProcessor"](log, None, binary=ns.eyaml, publickey=ns.publickey, privatekey=ns.privatekey)
        proc.data = doc
        anchors = {}
        try:
            Anchors.scan_for_anchors(doc, anchors)
        except Exception:  # noqa
            pass
        for expr in exprs:
            term = mod.get_search_term(log, expr)
            if term is None:
                out.append("(%s bad)" % hexs(expr))
                continue
            try:
                recs = []
                for res in mod.search_for_paths(
                        log, proc, doc, term, ns.pathsep, search_values=search_values, search_keys=search_keys,
                        search_anchors=ns.refnames, include_key_aliases=ika, include_value_aliases=iva,
                        decrypt_eyaml=ns.decrypt, expand_children=ns.expand, all_anchors=anchors):
                    segs = [str(seg) for (_, seg) in res.escaped]
                    val = "nonode"
                    if ns.values:
                        try:
                            val = "nonode"
                            for nc in proc.get_nodes(res, mustexist=True):
                                val = "(node %s)" % objs.facts(nc.node)
                                break
                        except (Exception, RecursionError) as e:  # noqa
                            val = "(raise %s)" % ufam(e)
                    recs.append("(pr %s %s %s)" % (hexs(str(res)), LST(hexs(x) for x in segs), val))
                out.append("(%s (ok %s))" % (hexs(expr), LST(recs)))
            except (Exception, RecursionError) as e:  # noqa
                out.append("(%s (raise %s))" % (hexs(expr), ufam(e)))
        return LST(out)
    for d in all_docs:
        i = reg.add(d)
        if i in table:
            continue
        dd = d
        table[i] = "(%s %s)" % (results_for(dd, ns.search), results_for(dd, ns.except_expression or []))
    st = LST("(%s %s)" % (I(i), v) for i, v in sorted(table.items()))
    req = "(cli-paths %s %s %s %s %s %s)" % (I(estr), a, B(stdin is None), LST(srcs), stdin_src, st)
    status, out, err = run_main("paths", case["argv"], stdin)
    lines = []
    for l in out_lines(out):
        if l == HINT:
            lines.append("hint")
            continue
        done = False
        if ns.values:
            # a container value is the JSON text at the end of the line
            cuts = [0] + [k + 2 for k in range(len(l)) if l.startswith(": ", k)]
            for c in cuts:
                j = try_json(l[c:])
                if j is not None:
                    oid = objs.find_json(j)
                    if oid is not None:
                        lines.append("(path %s (some %s))" % (hexs(l[:c]), I(oid)))
                        done = True
                        break
        if not done:
            lines.append("(path %s none)" % hexs(l))
    facts = {"ns": ns, "status": status, "stdout": out_lines(out), "keep": keep}
    return req, run_sx(status, lines, []), facts


def judge_paths(case, f):
    """Single expression, no --except, paths only: the printed paths are exactly the
    search results of every loadable document, in order."""
    E = _ENV
    mod = E["mods"]["paths"]
    ns, st = f["ns"], f["status"]
    if len(ns.search) != 1 or ns.except_expression or ns.values or ns.noyamlpath or ns.noescape or ns.expand:
        return None
    if isinstance(st, tuple) or st == 1:
        return None
    from yamlpath.enums import IncludeAliases
    from yamlpath.common import Anchors
    log = NullLog()
    term = mod.get_search_term(log, ns.search[0])
    if term is None:
        return None
    names = list(ns.yaml_files)
    if case.get("stdin") is not None and not ns.nostdin and not any(x.strip() == "-" for x in names):
        names.append("-")
    want = []
    any_fail = False
    for n in names:
        if n not in f["keep"]:
            return None
        docs, fail = f["keep"][n]
        if fail is not None:
            any_fail = True
        if n == "-" and not docs and fail is None:
            docs = [""]
        for k, d in enumerate(docs):
            proc = E["EYAMLProcessor"](log, None)
            proc.data = d
            anchors = {}
            Anchors.scan_for_anchors(d, anchors)
            sv, sk = (False, True) if ns.onlykeynames else (True, bool(ns.keynames))
            seen = []
            try:
                for res in mod.search_for_paths(
                        log, proc, d, term, ns.pathsep, search_values=sv, search_keys=sk, search_anchors=ns.refnames,
                        include_key_aliases=ns.include_aliases in (IncludeAliases.INCLUDE_ALL_ALIASES,
                                                                   IncludeAliases.INCLUDE_KEY_ALIASES),
                        include_value_aliases=ns.include_aliases in (IncludeAliases.INCLUDE_ALL_ALIASES,
                                                                     IncludeAliases.INCLUDE_VALUE_ALIASES),
                        decrypt_eyaml=ns.decrypt, expand_children=ns.expand, all_anchors=anchors):
                    if str(res) not in seen:
                        seen.append(str(res))
            except Exception:  # noqa
                return None
            for s in seen:
                head = "" if ns.nofile else "%s/%d: " % ("STDIN" if n.strip() == "-" else n, k)
                want.append(head + s)
        if any_fail and st == 3:
            pass
    got = [l for l in f["stdout"] if l != HINT]
    if (st == 0) == any_fail:
        return "yaml-paths exit status %s although %s" % (st, "a document failed to load" if any_fail else "everything loaded")
    if st == 0 and got != want:
        return "yaml-paths did not print exactly the search results"
    return None


# ----------------------------------------------------------------------------
# the protocol of harness/common.py

EXEC = {"get": exec_get, "validate": exec_validate, "diff": exec_diff, "merge": exec_merge, "set": exec_set,
        "paths": exec_paths}
JUDGE = {"get": judge_get, "validate": judge_validate, "diff": judge_diff, "merge": judge_merge, "set": judge_set,
         "paths": judge_paths}


def key(case):
    return json.dumps([case["tool"], case["argv"], sorted(case.get("files", {}).items()), case.get("stdin"),
                       case.get("twin"), case.get("script")], sort_keys=True)


def _setup_dir(case):
    base = _ENV["base"]
    _COUNTER[0] += 1
    d = os.path.join(base, "c%d" % _COUNTER[0])
    shutil.rmtree(d, ignore_errors=True)
    os.makedirs(d)
    for name, text in case.get("files", {}).items():
        p = os.path.join(d, name)
        if text is None:
            os.makedirs(p, exist_ok=True)
        else:
            with open(p, "w", encoding="utf-8", newline="") as fh:
                fh.write(text)
    return d


def twin_of(case):
    """The same documents delivered on STDIN instead of a file (C16_stdin_same)."""
    t = case.get("twin")
    if not t:
        return None
    name = t["file"]
    argv = [("-" if x == name else x) for x in case["argv"]] if t["how"] == "dash" else \
        [x for x in case["argv"] if x != name]
    files = dict(case.get("files", {}))
    text = files.get(name)
    return {"tool": case["tool"], "argv": argv, "files": files, "stdin": text}


class _QuietFd2:
    """The EYAML stand-in is a child process: what it writes to file descriptor 2 (its complaints
    about keys) bypasses sys.stderr.  Point fd 2 at /dev/null while such a case runs."""
    def __init__(self, on):
        self.on = on

    def __enter__(self):
        if self.on:
            sys.stderr.flush()
            self.saved = os.dup(2)
            self.null = os.open(os.devnull, os.O_WRONLY)
            os.dup2(self.null, 2)

    def __exit__(self, *a):
        if self.on:
            os.dup2(self.saved, 2)
            os.close(self.saved)
            os.close(self.null)
        return False


def _run_one(case):
    with _QuietFd2(any("eyaml" in str(x) for x in case["argv"])):
        return _run_one_inner(case)


def _run_one_inner(case):
    tool = case["tool"]
    d = _setup_dir(case)
    cwd = os.getcwd()
    os.chdir(d)
    try:
        ns, st = parse_args(tool, case["argv"])
        if ns is None:
            status, out, err = run_main(tool, case["argv"], case.get("stdin"))
            req = "(cli-argparse %s)" % I(st) if not isinstance(st, tuple) else \
                "(cli-argparse-crash %s)" % hexs(type(st[1]).__name__)
            return req, run_sx(status, [], []), {"argparse": st, "status": status}
        facts_before = {"target_existed": False}
        if tool == "merge" and getattr(ns, "output", None):
            facts_before["target_existed"] = os.path.exists(ns.output)
        req, obs, facts = EXEC[tool](case, ns)
        facts.update(facts_before)
        facts["raw_stdout"] = _LAST_OUT[0]
        if case.get("script"):
            facts["script"] = run_script(case, facts)
        facts["judge"] = JUDGE[tool](case, facts)
        return req, obs, facts
    finally:
        os.chdir(cwd)
        shutil.rmtree(d, ignore_errors=True)


def run_script(case, facts):
    """The same command through the installed console script (fresh files)."""
    d = _setup_dir(case)
    try:
        env = dict(os.environ)
        env["PYTHONPATH"] = os.environ.get("YP_REPO", "/repo")
        stdin = case.get("stdin")
        cmd = [os.path.join("/venv/bin", SCRIPTS[case["tool"]])] + list(case["argv"])
        if stdin is not None:
            p = subprocess.run(cmd, cwd=d, env=env, input=stdin.encode("utf-8"),
                               stdout=subprocess.PIPE, stderr=subprocess.PIPE, timeout=120)
        else:
            # "no STDIN document" means a terminal: give the script a pseudo-terminal nobody writes to
            # (never for a command line that names "-": it would wait for the terminal)
            # (nor for yaml-set --stdin: reading the VALUE from a terminal waits for the user as well)
            if any(x.strip() == "-" for x in case["argv"]) or \
                    (case["tool"] == "set" and any(x in ("-i", "--stdin") for x in case["argv"])):
                return None
            m, sl = os.openpty()
            try:
                p = subprocess.run(cmd, cwd=d, env=env, stdin=sl, stdout=subprocess.PIPE, stderr=subprocess.PIPE,
                                   timeout=120)
            finally:
                os.close(m)
                os.close(sl)
        return {"rc": p.returncode, "stdout": p.stdout.decode("utf-8", "replace")}
    except Exception as e:  # noqa
        return {"rc": "error:" + type(e).__name__, "stdout": ""}
    finally:
        shutil.rmtree(d, ignore_errors=True)


def _execute(case):
    k = key(case)
    if k in _CACHE:
        return _CACHE[k]
    if len(_CACHE) > 4000:
        _CACHE.clear()
    req, obs, facts = _run_one(case)
    tw = twin_of(case)
    if tw is not None:
        treq, tobs, tfacts = _run_one(tw)
        facts["twin_obs"] = tobs
        facts["twin_req"] = treq
    _CACHE[k] = (req, obs, facts)
    return _CACHE[k]


def requests(case):
    return [_execute(case)[0]]


def observe(case):
    return [_execute(case)[1]]


def _data_view(obs, tool):
    """(status, data lines) with display names erased, for the file-vs-STDIN comparison."""
    from common import sexp_parse, sexp_str
    sx = sexp_parse(obs)
    lines = []
    for l in sx[2]:
        if isinstance(l, list) and l[0] in ("valid", "invalid"):
            lines.append([l[0], l[2]])
        else:
            lines.append(l)
    return sexp_str([sx[1], lines])


def empty_stream(case):
    """The twin's file holds no document at all (an empty stream is not a document:
    the loader turns an empty STDIN into one "" document, an empty file into none)."""
    name = case["twin"]["file"]
    text = case.get("files", {}).get(name)
    if text is None:
        return True
    d = _setup_dir({"files": {name: text}})
    try:
        docs, fail = raw_load_all(os.path.join(d, name), None)
    finally:
        shutil.rmtree(d, ignore_errors=True)
    return fail is None and not docs


def judge(case, obs):
    req, o, facts = _execute(case)
    if "argparse" in facts:
        return None
    v = facts.get("judge")
    if v is not None:
        return v
    if "twin_obs" in facts and not empty_stream(case):
        a, b = _data_view(o, case["tool"]), _data_view(facts["twin_obs"], case["tool"])
        if a != b:
            return "file and STDIN delivery of the same document differ: %s vs %s" % (a[:200], b[:200])
    sc = facts.get("script")
    if sc is not None:
        st = facts["status"]
        want = 1 if isinstance(st, tuple) else st
        if sc["rc"] != want:
            return "console script exit status %s, in-process %s" % (sc["rc"], want)
        # ... and the same standard output, byte for byte (DEBUG lines aside; --random values are the
        # oracle's: the in-process run uses the deterministic stand-in for secrets.choice)
        av = case["argv"]
        if not any(x in ("-R", "--random") or str(x).startswith("--random=") for x in av):
            a, b = strip_debug(sc["stdout"]), strip_debug(facts.get("raw_stdout", ""))
            if a != b:
                return "console script printed %r, the in-process run %r" % (a[:160], b[:160])
    return None


def classify(case, obs):
    o = obs[0]
    st = o[5:o.index(")") + 1] if o.startswith("(run ") else "?"
    deliv = "tty" if case.get("stdin") is None else ("dash" if "-" in case["argv"] else "implied")
    return "%s:%s:%s" % (case["tool"], deliv, st.replace(" ", ""))


def nontrivial(case, obs):
    return "hint" not in obs[0][:40] and not obs[0].startswith("(run (exit i2)")


def describe(case):
    return case


def undescribe(d):
    return d


def _is_block_scalar_indent_finding(case, obs):
    """ruamel's emitter writes a wrong indentation indicator for a literal / folded block scalar whose
    first line starts with a space (`|4-` + 4 columns for "  x" at indent 2): the text loads back
    without the leading spaces.  Holds of a yaml-set run whose post-state, dumped and reloaded by the
    harness itself, is not the post-state, and which wrote such a block scalar."""
    if case["tool"] != "set":
        return False
    req, o, facts = _execute(case)
    back, final = facts.get("yaml_reloads_to"), facts.get("final")
    if back is None or final is None or back == final:
        return False
    ns = facts["ns"]
    val = facts.get("new_value")
    return ns.format in ("literal", "folded") and isinstance(val, str) and val[:1] == " "


# the three former findings (differ vs data equality, matrix merges sharing nodes, `--format float`
# writing an unloadable file) were repaired in the library
FINDING_PREDS = {"ruamel_block_scalar_indent": _is_block_scalar_indent_finding}

from c16_gen import chunks, corpus_chunks  # noqa: E402,F401
