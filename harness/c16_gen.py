"""Case generators for C16 (see harness/c16.py).  Structured: every branch of
every tool's glue model is the target of at least one family below; a separate
malformed stream exercises argument validation and loader failures."""
import itertools
import random

# ---------------------------------------------------------------------------
# documents

DOCS = {
    "map": "a: 1\nb: two\nc:\n  d: 3\n  e: [4, 5]\n",
    "aoh": "items:\n  - name: one\n    val: 1\n  - name: two\n    val: 2\n  - name: three\n    val: 1\n",
    "list": "- 1\n- two\n- [3, 4]\n- {k: v}\n",
    "scalars": ("i: 42\nneg: -7\nf: 1.5\nsci: 1e3\nhexa: 0x1F\nt: true\nfa: false\nn: null\ntil: ~\ne: ''\n"
                "s: plain text\nq: \"quoted: yes\"\nbig: 12345678901234567890\n"),
    "dates": "d: 2020-01-02\nts: 2001-12-14t21:59:43.10-05:00\nts2: 2001-12-14 21:59:43\nwhen:\n  - 2021-03-04\n  - x\n",
    "multiline": "lit: |\n  line one\n  line two\nfold: >\n  folded\n  text\n\nkeep: |+\n  kept\n\nplain: a\n",
    "sets": "st: !!set {a, b, c}\nother: 1\n",
    "anchors": "base: &b {x: 1, y: 2}\nuse: *b\nlist: &l [1, 2]\nagain: *l\nname: &n val\nref: *n\n",
    "deep": "l1:\n  l2:\n    l3:\n      - a: 1\n      - a: 2\n        b: {c: [x, y, z]}\n",
    "nulls": "a: null\nb: [null, 1, null]\nc: {d: null}\n",
    "unicode": "k\u00e9y: v\u00e4lue \u65e5\u672c\nemoji: \"\U0001F600\"\n",
    "scalar_doc": "just a string\n",
    "int_doc": "42\n",
    "list_doc": "[1, 2, 3]\n",
    "empty": "",
    "null_doc": "~\n",
    "comment_only": "# nothing\n",
    "dupkeys": "a: 1\na: 2\n",
    "dupanchor": "a: &x 1\nb: &x 2\nc: *x\n",
    "bad_flow": "a: [1, 2\n",
    "bad_indent": "a:\n  b: 1\n c: 2\n",
    "bad_tab": "a:\n\t- 1\n",
    "bad_alias": "a: *nowhere\n",
    "ctrl_char": "a: \"x\x01y\"\n",
}
JSON_DOCS = {
    "jmap": '{"a": 1, "b": "two", "c": {"d": 3, "e": [4, 5]}}',
    "jlist": '[1, "two", [3, 4], {"k": "v"}]',
    "jaoh": '{"items": [{"name": "one", "val": 1}, {"name": "two", "val": 2}]}',
    "jbad": '{"a": [1, 2}',
}
MULTI = {
    "multi2": "a: 1\n---\nb: 2\n",
    "multi3": "a: 1\nx: [1]\n---\na: 2\ny: {k: v}\n---\n- 5\n- 6\n",
    "multi_bad_tail": "a: 1\n---\nb: [2\n",
    "multi_bad_head": "a: [1\n---\nb: 2\n",
    "multi_json": '{"a": 1}\n---\n{"b": 2}\n',
}
GOOD = ["map", "aoh", "list", "scalars", "dates", "multiline", "sets", "anchors", "deep", "nulls", "unicode",
        "scalar_doc", "int_doc", "list_doc", "null_doc"]
BAD = ["dupkeys", "dupanchor", "bad_flow", "bad_indent", "bad_tab", "bad_alias", "ctrl_char"]
MERGEABLE = ["map", "aoh", "scalars", "dates", "multiline", "deep", "nulls", "unicode", "anchors"]


def text_of(name):
    return DOCS.get(name, JSON_DOCS.get(name, MULTI.get(name)))


def fname(name):
    return name + (".json" if name in JSON_DOCS else ".yaml")


# queries per document: (dot form, slash form); match 0 / 1 / many, scalars and containers
QUERIES = {
    "map": [("a", "/a"), ("b", "/b"), ("c", "/c"), ("c.e", "/c/e"), ("c.e[1]", "/c/e[1]"), ("c.*", "/c/*"),
            ("*", "/*"), ("**", "/**"), ("zz", "/zz"), ("c.zz", "/c/zz"), ("c.e[7]", "/c/e[7]"), ("c.e[.>3]", "/c/e[.>3]"),
            ("(a)+(b)", "(/a)+(/b)"), ("a[", "/a["), ("", "/")],
    "aoh": [("items", "/items"), ("items[0]", "/items[0]"), ("items.name", "/items/name"),
            ("items[val=1]", "/items[val=1]"), ("items[val=1].name", "/items[val=1]/name"),
            ("items[val=9]", "/items[val=9]"), ("items.*", "/items/*"), ("items[name^t]", "/items[name^t]"),
            ("items[1:3]", "/items[1:3]"), ("items[has_child(val)]", "/items[has_child(val)]")],
    "list": [("[0]", "/[0]"), ("[1]", "/[1]"), ("[2]", "/[2]"), ("[3]", "/[3]"), ("[3].k", "/[3]/k"), ("*", "/*"),
             ("[9]", "/[9]"), ("[0:2]", "/[0:2]")],
    "scalars": [("i", "/i"), ("neg", "/neg"), ("f", "/f"), ("sci", "/sci"), ("hexa", "/hexa"), ("t", "/t"), ("fa", "/fa"),
                ("n", "/n"), ("til", "/til"), ("e", "/e"), ("s", "/s"), ("q", "/q"), ("big", "/big"), ("*", "/*"),
                ("[.=~/^[a-z]+$/]", "/[.=~/^[a-z]+$/]")],
    "dates": [("d", "/d"), ("ts", "/ts"), ("ts2", "/ts2"), ("when", "/when"), ("when[0]", "/when[0]"), ("*", "/*"),
              ("when.*", "/when/*")],
    "multiline": [("lit", "/lit"), ("fold", "/fold"), ("keep", "/keep"), ("plain", "/plain"), ("*", "/*")],
    "sets": [("st", "/st"), ("st.a", "/st/a"), ("st.*", "/st/*"), ("other", "/other"), ("st.zz", "/st/zz")],
    "anchors": [("base", "/base"), ("use", "/use"), ("use.x", "/use/x"), ("list", "/list"), ("again[1]", "/again[1]"),
                ("ref", "/ref"), ("*", "/*"), ("[&l]", "/&l")],
    "deep": [("l1.l2.l3", "/l1/l2/l3"), ("l1.l2.l3[1].b.c", "/l1/l2/l3[1]/b/c"), ("l1.l2.l3.a", "/l1/l2/l3/a"),
             ("**.c", "/**/c"), ("l1.**", "/l1/**"), ("l1.l2.l3[a=2].b", "/l1/l2/l3[a=2]/b")],
    "nulls": [("a", "/a"), ("b", "/b"), ("b[0]", "/b[0]"), ("b.*", "/b/*"), ("c", "/c"), ("c.d", "/c/d")],
    "unicode": [("k\u00e9y", "/k\u00e9y"), ("emoji", "/emoji"), ("*", "/*")],
    "scalar_doc": [("", "/"), ("a", "/a")],
    "int_doc": [("", "/"), ("a", "/a")],
    "list_doc": [("[0]", "/[0]"), ("*", "/*"), ("", "/")],
    "null_doc": [("a", "/a"), ("", "/")],
    "empty": [("a", "/a"), ("", "/"), ("*", "/*")],
    "comment_only": [("a", "/a")],
    "jmap": [("a", "/a"), ("c", "/c"), ("c.e", "/c/e"), ("*", "/*"), ("zz", "/zz")],
    "jlist": [("[0]", "/[0]"), ("[3]", "/[3]"), ("*", "/*")],
    "jaoh": [("items", "/items"), ("items.name", "/items/name"), ("items[val=2]", "/items[val=2]")],
}

NOISE = [[], [], [], ["-q"], ["-v"], ["-d"]]


def C(tool, argv, files, stdin=None, **kw):
    d = {"tool": tool, "argv": list(argv), "files": {fname(n) if n in DOCS or n in JSON_DOCS or n in MULTI else n: t
                                                      for n, t in files.items()}, "stdin": stdin}
    d.update(kw)
    return d


def F(*names):
    return {n: text_of(n) for n in names}


# ---------------------------------------------------------------------------
# yaml-get

def gen_get(rng, tier):
    for doc, qs in QUERIES.items():
        text = text_of(doc)
        fn = fname(doc)
        for (qd, qsl) in qs:
            for q, sep in ((qd, None), (qsl, "/"), (qd, "dot"), (qsl, "auto")):
                base = ["-p", q] if not q.startswith("-") else ["--query=" + q]
                if sep:
                    base += ["-t", sep]
                noise = rng.choice(NOISE)
                # file delivery, with the STDIN twin of the same document
                yield C("get", base + noise + [fn], {doc: text}, twin={"file": fn, "how": rng.choice(["dash", "omit"])})
                if sep is None:
                    yield C("get", base + ["-"], {}, stdin=text)
                    yield C("get", base, {}, stdin=text)
    for doc in BAD + ["multi2", "jbad"]:
        text = text_of(doc)
        yield C("get", ["-p", "a", fname(doc)], {doc: text}, twin={"file": fname(doc), "how": "dash"})
        yield C("get", ["-p", "a"], {}, stdin=text)
    # argument validation / malformed
    t = text_of("map")
    yield C("get", ["-p", "a"], {})                                   # nothing to read (tty)
    yield C("get", ["-p", "a", "-S"], {}, stdin=t)                    # --nostdin
    yield C("get", ["-p", "a", "nonexistent.yaml"], {})
    yield C("get", ["-p", "a", "adir"], {"adir": None})
    yield C("get", ["-p", "a", "-r", "nokey.pem", fname("map")], F("map"))
    yield C("get", ["-p", "a", "-u", "nokey.pem", fname("map")], F("map"))
    yield C("get", ["-p", "a", "-r", "k1", "-u", "k2", fname("map")], dict(F("map"), k1="x", k2="y"))
    yield C("get", ["-p", "a", "-r", "k1", fname("map")], dict(F("map"), k1="x"))
    yield C("get", ["-p", "a", "-r", "nokey", "-u", "nokey2"], {})
    yield C("get", [fname("map")], F("map"))                          # argparse: -p required
    yield C("get", ["-p", "a", "-t", "bogus", fname("map")], F("map"))
    yield C("get", ["-p", "a", "-q", "-v", fname("map")], F("map"))
    yield C("get", ["-p", "a", "", ], {}, stdin=t)
    yield C("get", ["-p", "a", " - "], {}, stdin=t)
    # recursive alias and unserialisable keys
    yield C("get", ["-p", "a", "rec.yaml"], {"rec.yaml": "a: &r\n  - 1\n  - *r\n"})
    yield C("get", ["-p", "m", "dk.yaml"], {"dk.yaml": "m: {2020-01-01: 1, b: 2}\n"})
    yield C("get", ["-p", "m", "tk.yaml"], {"tk.yaml": "m: {!t k: 1, b: !t v, c: !null x}\n"})
    yield C("get", ["-p", "m.*", "bin.yaml"], {"bin.yaml": "m: {b: !!binary aGVsbG8=, i: 1}\n"})
    if tier == "thorough":
        docs = [d for d in QUERIES if d in DOCS]
        for _ in range(1500):
            doc = rng.choice(docs)
            qd, qsl = rng.choice(QUERIES[doc])
            segs = rng.choice([qd, qsl, qd + ".*", qsl + "/*", qd + "[0]", "**", "/**", qd + ".zz"])
            yield C("get", ["-p", segs] + rng.choice(NOISE) + [fname(doc)], F(doc),
                    twin={"file": fname(doc), "how": rng.choice(["dash", "omit"])})


# ---------------------------------------------------------------------------
# yaml-validate

def gen_validate(rng, tier):
    names = GOOD + BAD + list(MULTI) + list(JSON_DOCS) + ["empty", "comment_only"]
    for n in names:
        for noise in ([], ["-v"], ["-q"]):
            yield C("validate", noise + [fname(n)], F(n), twin={"file": fname(n), "how": "dash"})
        yield C("validate", ["-v"], {}, stdin=text_of(n))
        yield C("validate", ["-v", "-"], {}, stdin=text_of(n))
    pool = names + ["missing"]
    k = 600 if tier == "quick" else 6000
    for _ in range(k):
        cnt = rng.choice([1, 2, 2, 3, 3, 4])
        chosen = [rng.choice(pool if rng.random() < 0.8 else BAD + ["multi_bad_tail"]) for _ in range(cnt)]
        files = {}
        argv = list(rng.choice(NOISE))
        for i, n in enumerate(chosen):
            if n == "missing":
                argv.append("missing%d.yaml" % i)
            else:
                nm = "%d_%s" % (i, fname(n))
                files[nm] = text_of(n)
                argv.append(nm)
        stdin = None
        r = rng.random()
        if r < 0.35:
            stdin = text_of(rng.choice(pool[:-1]))
            if rng.random() < 0.4:
                argv.insert(rng.randrange(len(argv) + 1 - len(chosen), len(argv) + 1), "-")
            if rng.random() < 0.2:
                argv.insert(0, "-S")
        elif r < 0.4:
            argv.append("-")      # '-' with a tty: reads an empty STDIN
        yield C("validate", argv, files, stdin=stdin)
    yield C("validate", [], {})
    yield C("validate", ["-S"], {}, stdin="a: 1\n")
    yield C("validate", ["-", "-"], {}, stdin="a: 1\n")
    yield C("validate", ["-", fname("map"), " - "], F("map"), stdin="a: 1\n")
    yield C("validate", ["-q", "-v", fname("map")], F("map"))
    yield C("validate", ["adir"], {"adir": None})
    yield C("validate", ["-v", "latin.yaml"], {"latin.yaml": "a: 1\n"}, )


# ---------------------------------------------------------------------------
# yaml-diff

DIFF_PAIRS = [("map", "map"), ("map", "aoh"), ("aoh", "aoh"), ("list", "list_doc"), ("scalars", "scalars"),
              ("dates", "dates"), ("map", "jmap"), ("jmap", "jmap"), ("jlist", "list"), ("nulls", "nulls"),
              ("scalar_doc", "scalar_doc"), ("scalar_doc", "int_doc"), ("null_doc", "null_doc"), ("sets", "sets"),
              ("anchors", "anchors"), ("deep", "deep"), ("unicode", "unicode"), ("multiline", "multiline"),
              ("empty", "empty"), ("map", "empty"), ("null_doc", "empty"), ("comment_only", "empty")]
VARIANTS = {
    "map": ["a: 1\nb: two\nc:\n  d: 3\n  e: [4, 5, 6]\n", "a: 2\nb: two\n", "b: two\na: 1\nc:\n  e: [4, 5]\n  d: 3\n",
            "a: 1\nb: two\nc:\n  d: 3\n  e: [4, 5]\nz: new\n"],
    "aoh": ["items:\n  - name: one\n    val: 1\n  - name: two\n    val: 3\n", "items: []\n"],
    "list": ["- 1\n- two\n", "- 1\n- two\n- [3, 4]\n- {k: w}\n- extra\n"],
    "nulls": ["a: null\nb: [null, 1]\nc: {d: 0}\n"],
    "dates": ["d: 2020-01-03\nts: 2001-12-14t21:59:43.10-05:00\nts2: 2001-12-14 21:59:43\nwhen:\n  - 2021-03-04\n  - x\n"],
}
DIFF_OPTS = [[], ["-s"], ["-o"], ["-q"], ["-v"], ["-d"], ["-t", "/"], ["-s", "-v"], ["-A", "value"], ["-O", "deep"],
             ["-O", "key"], ["-A", "position", "-s"], ["-q", "-s"], ["-q", "-o"], ["-s", "-o"]]


DIFF_CONFIGS = [
    "[defaults]\narrays = value\n",
    "[defaults]\narrays = position\naoh = dpos\n",
    "[defaults]\naoh = key\n[keys]\n/items = name\n",
    "[defaults]\naoh = deep\n[keys]\nitems = val\n",
    "[defaults]\naoh = value\n",
    "[rules]\n/c/e = value\n",
    "[rules]\nitems = key\n[keys]\nitems = name\n",
    "[rules]\n/nosuch = value\n",
    "",
]


def gen_diff(rng, tier):
    pairs = list(DIFF_PAIRS)
    for n, vs in VARIANTS.items():
        for i, v in enumerate(vs):
            pairs.append((n, ("%s_v%d.yaml" % (n, i), v)))
    for (l, r) in pairs:
        lf, lt = fname(l), text_of(l)
        if isinstance(r, tuple):
            rf, rt = r
        else:
            rf, rt = "r_" + fname(r), text_of(r)
        for opts in (DIFF_OPTS if tier == "thorough" else [rng.choice(DIFF_OPTS) for _ in range(5)] + [[], ["-s"], ["-o"], ["-q"]]):
            files = {lf: lt, rf: rt}
            yield C("diff", opts + [lf, rf], files, twin={"file": rng.choice([lf, rf]), "how": "dash"})
        yield C("diff", [lf, "-"], {lf: lt}, stdin=rt)
        yield C("diff", ["-", rf], {rf: rt}, stdin=lt)
    # --config files: [defaults], per-path [rules], identity [keys]
    for (l, r) in pairs:
        if tier == "quick" and rng.random() < 0.6:
            continue
        lf, lt = fname(l), text_of(l)
        rf, rt = r if isinstance(r, tuple) else ("r_" + fname(r), text_of(r))
        for cfg in ([rng.choice(DIFF_CONFIGS)] if tier == "quick" else rng.sample(DIFF_CONFIGS, 3)):
            opts = rng.choice([[], [], ["-s"], ["-o"], ["-q"], ["-A", "value"], ["-O", "key"], ["-t", "/"]])
            yield C("diff", ["-c", "diff.ini"] + opts + [lf, rf], {lf: lt, rf: rt, "diff.ini": cfg})
    yield C("diff", ["-c", "diff.ini", fname("map"), fname("aoh")], dict(F("map", "aoh"), **{"diff.ini": "not an ini file"}))
    yield C("diff", ["-c", "diff.ini", fname("aoh"), "r_aoh.yaml"],
            {fname("aoh"): text_of("aoh"), "r_aoh.yaml": VARIANTS["aoh"][0], "diff.ini": "[defaults]\naoh = bogus\n"})
    yield C("diff", ["-c", "adir", fname("map"), fname("aoh")], dict(F("map", "aoh"), adir=None))
    # multi-document sources and indexes
    for (l, r) in [("multi3", "multi3"), ("multi2", "map"), ("map", "multi3"), ("multi3", "multi_bad_tail"),
                   ("multi_json", "multi2")]:
        for li in (None, 0, 1, 2, 3, -1, -3, -4):
            for ri in (None, 0, 1, 5, -1, -9):
                if tier == "quick" and rng.random() < 0.5:
                    continue
                argv = []
                if li is not None:
                    argv += ["-L", str(li)]
                if ri is not None:
                    argv += ["-R=%d" % ri]
                argv += rng.choice([[], ["-s"], ["-q"]])
                yield C("diff", argv + [fname(l), "r_" + fname(r)], {fname(l): text_of(l), "r_" + fname(r): text_of(r)})
    for b in BAD + ["jbad", "multi_bad_head"]:
        yield C("diff", [fname("map"), fname(b)], F("map", b))
        yield C("diff", [fname(b), fname("map")], F("map", b))
        yield C("diff", [fname(b), "-"], F(b), stdin=text_of(b))
    yield C("diff", ["-", "-"], {}, stdin="a: 1\n")
    yield C("diff", [fname("map"), "missing.yaml"], F("map"))
    yield C("diff", ["missing.yaml", fname("map")], F("map"))
    yield C("diff", ["missing.yaml", "missing2.yaml"], {})
    yield C("diff", [fname("map")], F("map"))
    yield C("diff", ["-c", "nocfg.ini", fname("map"), fname("aoh")], F("map", "aoh"))
    yield C("diff", ["-r", "nokey", "-u", "nokey", "-q", "-s", "-", "-"], {})
    yield C("diff", ["-A", "bogus", fname("map"), fname("aoh")], F("map", "aoh"))
    yield C("diff", [fname("map"), "-"], F("map"))                     # '-' with a tty: empty STDIN
    yield C("diff", ["-", fname("null_doc")], F("null_doc"), stdin="")


# ---------------------------------------------------------------------------
# yaml-merge

MERGE_OPTS = [[], [], ["-D", "json"], ["-D", "yaml"], ["-D", "auto"], ["-A", "unique"], ["-H", "left"], ["-O", "deep"],
              ["-a", "rename"], ["-m", "/c"], ["-m", "new.place"], ["-J", "2", "-D", "json"], ["-l"]]
MODES = [[], [], ["-M", "condense_all"], ["-M", "merge_across"], ["-M", "matrix_merge"]]


MERGE_CONFIGS = [
    "[defaults]\narrays = unique\n",
    "[defaults]\nhashes = left\narrays = left\naoh = left\n",
    "[defaults]\nhashes = right\narrays = right\nanchors = right\n",
    "[defaults]\naoh = deep\n[keys]\n/items = name\n",
    "[defaults]\naoh = unique\n",
    "[rules]\n/c/e = unique\n/c = left\n",
    "[rules]\nc.e = right\n[defaults]\narrays = all\n",
    "[rules]\n/items = deep\n[keys]\nitems = val\n",
    "[defaults]\nsets = left\n[rules]\n/st = unique\n",
    "[rules]\n/nosuch/path = left\n",
    "",
]
MERGE_CFG_PAIRS = [("map", "map"), ("aoh", "aoh"), ("map", "aoh"), ("sets", "sets"), ("deep", "deep"), ("jmap", "map"),
                   ("aoh", "jaoh"), ("anchors", "map"), ("nulls", "nulls"), ("list", "list")]


def gen_merge(rng, tier):
    pool = MERGEABLE + ["jmap", "jaoh", "multi2", "multi3", "multi_json", "list", "list_doc", "jlist", "scalar_doc",
                        "int_doc", "sets", "empty", "null_doc"]
    k = 700 if tier == "quick" else 6000
    for i in range(k):
        cnt = rng.choice([1, 2, 2, 2, 3, 3, 4])
        if i % 7 == 0:
            chosen = [rng.choice(["multi2", "multi3", "multi_json", "map", "aoh"]) for _ in range(cnt)]
        elif i % 7 == 1:
            chosen = [rng.choice(pool + BAD) for _ in range(cnt)]
        else:
            chosen = [rng.choice(MERGEABLE + ["jmap", "jaoh"]) for _ in range(cnt)]
        files, argv = {}, []
        argv += rng.choice(MERGE_OPTS) + rng.choice(MODES)
        names = []
        for j, n in enumerate(chosen):
            nm = "%d_%s" % (j, fname(n))
            files[nm] = text_of(n)
            names.append(nm)
        stdin = None
        r = rng.random()
        if r < 0.25:
            stdin = text_of(rng.choice(MERGEABLE + ["jmap", "multi2", "empty"]))
            if rng.random() < 0.5:
                names.insert(rng.randrange(0, len(names) + 1), "-")
        elif r < 0.6:
            argv.append("-S")
        # output sink
        s = rng.random()
        if s < 0.15:
            argv += ["-o", rng.choice(["out.yaml", "out.json", "out.txt", "out"])]
        elif s < 0.22:
            argv += ["-o", names[0] if names[0] != "-" else "out.yaml"]     # exists: refused
        elif s < 0.35:
            tgt = rng.choice(["ow.yaml", "ow.json", "ow.dat"])
            argv += ["-w", tgt]
            if rng.random() < 0.6:
                files[tgt] = "old: content\n"
            if rng.random() < 0.5:
                argv.append("-b")
                if rng.random() < 0.3:
                    files[tgt + ".bak"] = "stale: bak\n"
            if rng.random() < 0.4:
                argv.append(rng.choice(["-v", "-q"]))
        elif s < 0.38:
            argv.append("-b")                                                # --backup without --overwrite
        yield C("merge", argv + names, files, stdin=stdin)
    # --config files: [defaults], per-path [rules], identity [keys]
    nconf = 60 if tier == "quick" else 500
    for i in range(nconf):
        cfg = rng.choice(MERGE_CONFIGS)
        lhs, rhs = rng.choice(MERGE_CFG_PAIRS)
        files = {"l_" + fname(lhs): text_of(lhs), "r_" + fname(rhs): VARIANTS.get(rhs, [text_of(rhs)])[0]
                 if rng.random() < 0.5 else text_of(rhs), "merge.ini": cfg}
        argv = ["-c", "merge.ini"] + rng.choice([[], [], ["-A", "all"], ["-H", "right"], ["-O", "left"], ["-M", "merge_across"],
                                                 ["-M", "matrix_merge"], ["-D", "json"]])
        stdin = None
        names = ["l_" + fname(lhs), "r_" + fname(rhs)]
        if rng.random() < 0.2:
            stdin = files.pop(names[1])
            names[1] = "-" if rng.random() < 0.5 else None
        else:
            argv.append("-S")
        if rng.random() < 0.2:
            argv += ["-w", "out.yaml"]
        yield C("merge", argv + [n for n in names if n], files, stdin=stdin)
    yield C("merge", ["-S", "-c", "merge.ini", fname("map")], dict(F("map"), **{"merge.ini": "not an ini file"}))
    yield C("merge", ["-S", "-c", "merge.ini", fname("map"), fname("aoh")],
            dict(F("map", "aoh"), **{"merge.ini": "[defaults]\narrays = bogus\n"}))
    yield C("merge", ["-S", "-c", "adir", fname("map")], dict(F("map"), adir=None))
    # STDIN twins of single documents and the implied-STDIN-only form
    for n in MERGEABLE + ["jmap", "multi2", "multi3", "list", "scalar_doc", "empty", "null_doc", "bad_flow"]:
        yield C("merge", ["-S", fname(n)], F(n))
        yield C("merge", [fname(n)], F(n), twin={"file": fname(n), "how": "dash"})
        yield C("merge", [fname(n)], F(n), twin={"file": fname(n), "how": "omit"})
        if n != "map":
            yield C("merge", [fname("map"), fname(n)], F("map", n), twin={"file": fname(n), "how": "dash"})
            yield C("merge", [fname("map"), fname(n)], F("map", n), twin={"file": fname(n), "how": "omit"})
        for m in MODES[2:]:
            yield C("merge", m, {}, stdin=text_of(n))
    yield C("merge", [], {})
    yield C("merge", ["-S"], {}, stdin="a: 1\n")
    yield C("merge", ["-", "-"], {}, stdin="a: 1\n")
    yield C("merge", ["-S", fname("map"), "missing.yaml"], F("map"))
    yield C("merge", ["-S", "missing.yaml", fname("map")], F("map"))
    yield C("merge", ["-S", "-c", "nocfg.ini", fname("map")], F("map"))
    yield C("merge", ["-S", "-o", "a.yaml", "-w", "b.yaml", fname("map")], F("map"))
    yield C("merge", ["-S", "-w", "nofile.yaml", "-b", fname("map"), fname("aoh")], F("map", "aoh"))
    yield C("merge", ["-S", "-J", "-5", "-D", "json", fname("map"), fname("aoh")], F("map", "aoh"))
    yield C("merge", ["-S", "-M", "merge_across", fname("empty"), fname("empty")], F("empty"))
    yield C("merge", ["-S", "-M", "bogus", fname("map")], F("map"))


# ---------------------------------------------------------------------------
# yaml-set

SET_TARGETS = {
    "map": [("a", "/a"), ("b", "/b"), ("c.d", "/c/d"), ("c.e[0]", "/c/e[0]"), ("c.e.*", "/c/e/*"), ("c", "/c"),
            ("zz", "/zz"), ("c.zz.y", "/c/zz/y"), ("c.e[9]", "/c/e[9]"), ("a.b", "/a/b"), ("", "/"), ("*", "/*")],
    "aoh": [("items[0].val", "/items[0]/val"), ("items.val", "/items/val"), ("items[name=two].val", "/items[name=two]/val"),
            ("items[val=1]", "/items[val=1]"), ("items[name=zz].val", "/items[name=zz]/val"), ("items[1]", "/items[1]")],
    "list": [("[0]", "/[0]"), ("[1]", "/[1]"), ("[2][0]", "/[2][0]"), ("[3].k", "/[3]/k"), ("[8]", "/[8]")],
    "scalars": [("i", "/i"), ("s", "/s"), ("n", "/n"), ("t", "/t"), ("e", "/e"), ("f", "/f")],
    "nulls": [("a", "/a"), ("b[0]", "/b[0]"), ("c.d", "/c/d")],
    "multiline": [("lit", "/lit"), ("plain", "/plain")],
    "anchors": [("name", "/name"), ("use.x", "/use/x"), ("list[0]", "/list[0]")],
    "jmap": [("a", "/a"), ("c.e[1]", "/c/e[1]"), ("zz", "/zz")],
    "jaoh": [("items[0].val", "/items[0]/val")],
    "empty": [("new.key", "/new/key"), ("[0]", "/[0]")],
    "scalar_doc": [("a", "/a")],
}
SET_VALUES = ["new", "9", "", "multi\nline", "1.5", "true", "x: y"]


def gen_set(rng, tier):
    k = 1 if tier == "quick" else 4
    for doc, targets in SET_TARGETS.items():
        text = text_of(doc)
        for (pd, ps) in targets:
            for rep in range(k):
                for kind in ("value", "null", "delete", "check_ok", "check_bad", "saveto", "mustexist", "backup",
                             "format", "noinput"):
                    use_slash = rng.random() < 0.4
                    path = ps if use_slash else pd
                    argv = ["--change=" + path]
                    if use_slash and rng.random() < 0.5:
                        argv += ["-t", "/"]
                    if kind == "null":
                        argv.append("-N")
                    elif kind == "delete":
                        argv.append("-D")
                    elif kind == "noinput":
                        pass
                    else:
                        argv.append("--value=" + rng.choice(SET_VALUES))
                    if kind == "check_ok":
                        argv += ["-c", rng.choice(["two", "plain text", "1", "val", "a", "one"])]
                    if kind == "check_bad":
                        argv += ["-c", "certainly not the value"]
                    if kind == "saveto":
                        argv += ["-s", rng.choice(["saved", "/saved/here", path, "c.saved"])]
                    if kind == "mustexist":
                        argv.append("-m")
                    if kind == "format":
                        argv += ["-F", rng.choice(["bare", "dquote", "squote", "folded", "literal", "int", "float", "boolean"])]
                    noise = rng.choice(NOISE)
                    fn = fname(doc)
                    files = {fn: text}
                    a2 = list(argv)
                    if kind == "backup":
                        a2.append("-b")
                        if rng.random() < 0.4:
                            files[fn + ".bak"] = "stale\n"
                    yield C("set", a2 + noise + [fn], files)
                    if rep == 0 and kind in ("value", "delete", "check_bad", "mustexist"):
                        yield C("set", argv + ["-"], {}, stdin=text)
                        yield C("set", argv, {}, stdin=text)
    for c in gen_set_more(rng, tier):
        yield c
    # a YAML document in a .json file and a JSON document in a .yaml file
    yield C("set", ["-g", "a", "-a", "9", "doc.json"], {"doc.json": text_of("map")})
    yield C("set", ["-g", "a", "-a", "9", "doc.yaml"], {"doc.yaml": text_of("jmap")})
    yield C("set", ["-g", "a", "-a", "9", "-J", "2", "doc.json"], {"doc.json": text_of("jmap")})
    for b in BAD + ["multi2"]:
        yield C("set", ["-g", "a", "-a", "9", fname(b)], F(b))
        yield C("set", ["-g", "a", "-a", "9"], {}, stdin=text_of(b))
    t = text_of("map")
    yield C("set", ["-g", "a", "-a", "1"], {})
    yield C("set", ["-g", "a", "-a", "1", "-S"], {}, stdin=t)
    yield C("set", ["-g", "a", "-i", "-"], {}, stdin=t)
    yield C("set", ["-g", "a", "-i"], {}, stdin=t)
    yield C("set", ["-g", "a", "-a", "1", "-b", "-"], {}, stdin=t)
    yield C("set", ["-g", "a", "-a", "1", "-s", "a", fname("map")], F("map"))
    yield C("set", ["-g", "a", "-a", "1", "-H", "anch", fname("map")], F("map"))
    yield C("set", ["-g", "a", "-H", "& *", fname("map")], F("map"))
    yield C("set", ["-g", "a", "-R", "5", "-M", "x", fname("map")], F("map"))
    yield C("set", ["-g", "a", "-a", "1", "-r", "nokey", fname("map")], F("map"))
    yield C("set", ["-g", "a", "-a", "1", "-u", "nokey", fname("map")], F("map"))
    yield C("set", ["-g", "a", "-a", "1", "missing.yaml"], {})
    yield C("set", ["-g", "a", "-f", "nofile.txt", fname("map")], F("map"))
    yield C("set", ["-a", "1", fname("map")], F("map"))
    yield C("set", ["-g", "a", "-a", "1", "-N", fname("map")], F("map"))


# --tag / --aliasof / --mergekey / --file / --stdin / --random / --eyamlcrypt
MK_DOC = "defaults: {x: 1, y: 2}\ntarget: {z: 3}\nother:\n  y: 9\nscalar: 5\nlst: [{k: 1}, {k: 2}]\n"
TAG_TARGETS = [("map", ["a", "b", "c", "c.e", "c.e[0]", "zz", "c.*"]), ("scalars", ["i", "f", "t", "n", "s", "e", "q"]),
               ("dates", ["d", "ts", "when"]), ("sets", ["st", "other"]), ("anchors", ["name", "ref", "use", "base.x"]),
               ("jmap", ["a", "b", "c"]), ("multiline", ["lit", "fold"]), ("list", ["[0]", "[1]", "[2]", "[3]"]),
               ("scalar_doc", [""]), ("empty", ["new.key"])]
ALIAS_CASES = [("anchors", "ref", "list", None), ("anchors", "ref", "base.x", "newanch"), ("anchors", "ref", "base.x", None),
               ("anchors", "name", "base", "& b *"), ("anchors", "again[0]", "name", None), ("anchors", "ref", "nowhere", None),
               ("anchors", "nosuch", "base", None), ("anchors", "use", "list", "l"), ("anchors", "ref", "name", "other"),
               ("map", "b", "a", None), ("map", "c.e.*", "a", "shared"), ("map", "c.e", "c.d", "num"),
               ("map", "c", "c.e", None), ("aoh", "items.val", "items[0].name", "first"), ("jmap", "b", "a", None),
               ("map", "a", "a", "self"), ("map", "b", "c", "cmap")]
MERGEKEY_CASES = [("target", "defaults", None), ("other", "defaults", "dflt"), ("scalar", "defaults", None),
                  ("target", "scalar", None), ("target", "nowhere", None), ("nosuch", "defaults", None),
                  ("lst.*", "defaults", "d"), ("lst", "defaults", None), ("target", "other", "& o")]


def eyaml_bits():
    import os
    import sys
    here = os.path.dirname(os.path.abspath(__file__))
    if here not in sys.path:
        sys.path.insert(0, here)
    import eyaml_standin
    key = "STANDIN-EYAML-KEY c16key\n"
    other = "STANDIN-EYAML-KEY another\n"
    secret = eyaml_standin.encrypt_bytes(b"c16key", b"secret")
    return os.path.join(here, "eyaml_standin.py"), key, other, secret


def gen_set_more(rng, tier):
    reps = 1 if tier == "quick" else 3
    # --tag alone (tag_gathered_nodes) and with a new value / --saveto (set_value(..., tag=))
    for doc, paths in TAG_TARGETS:
        text, fn = text_of(doc), fname(doc)
        for pth in paths:
            for rep in range(reps):
                tag = rng.choice(["!x", "x", "!tagged", "!my/tag"])
                argv = ["--change=" + pth, "-T", tag] + rng.choice(NOISE)
                files = {fn: text}
                if rng.random() < 0.3:
                    argv.append("-b")
                    if rng.random() < 0.4:
                        files[fn + ".bak"] = "stale\n"
                yield C("set", argv + [fn], files)
                if rep == 0:
                    yield C("set", ["--change=" + pth, "-T", tag], {}, stdin=text)
                    yield C("set", ["--change=" + pth, "-T", tag, "-"], {}, stdin=text)
                    yield C("set", ["--change=" + pth, "-T", tag, "--value=" + rng.choice(SET_VALUES)] + rng.choice(NOISE) + [fn],
                            {fn: text})
                    yield C("set", ["--change=" + pth, "-T", tag, "-N", fn], {fn: text})
                    yield C("set", ["--change=" + pth, "-T", tag, "-a", "9", "-F", rng.choice(["int", "dquote", "bare"]),
                                    "-s", "saved.here", fn], {fn: text})
                    yield C("set", ["--change=" + pth, "-T", tag, "-m", fn], {fn: text})
    # --aliasof [--anchor]
    for (doc, chg, tgt, anch) in ALIAS_CASES:
        text, fn = text_of(doc), fname(doc)
        for sl in (False, True):
            c2 = ("/" + chg.replace(".", "/")) if sl else chg
            t2 = ("/" + tgt.replace(".", "/")) if sl else tgt
            argv = ["--change=" + c2, "-A", t2] + (["-H", anch] if anch is not None else []) + (["-t", "/"] if sl and rng.random() < 0.5 else [])
            yield C("set", argv + rng.choice(NOISE) + [fn], {fn: text})
            if not sl:
                yield C("set", argv, {}, stdin=text)
                yield C("set", argv + ["-m", fn], {fn: text})
                yield C("set", argv + ["-c", rng.choice(["val", "two", "nope"]), fn], {fn: text})
    yield C("set", ["-g", "ref", "-H", "lonely", "anchors.yaml"], F("anchors"))             # --anchor without --aliasof
    yield C("set", ["-g", "ref", "-A", "name", "-a", "v", "anchors.yaml"], F("anchors"))     # argparse: exclusive group
    # --mergekey [--anchor]
    for (chg, tgt, anch) in MERGEKEY_CASES:
        argv = ["--change=" + chg, "-K", tgt] + (["-H", anch] if anch is not None else [])
        yield C("set", argv + rng.choice(NOISE) + ["mk.yaml"], {"mk.yaml": MK_DOC})
        yield C("set", argv, {}, stdin=MK_DOC)
        yield C("set", argv + ["-b", "mk.yaml"], {"mk.yaml": MK_DOC})
    yield C("set", ["-g", "c", "-K", "c.d", "map.yaml"], F("map"))
    yield C("set", ["-g", "items[0]", "-K", "items[1]", "-H", "second", "aoh.yaml"], F("aoh"))
    # --file: the value is the file's content, right-stripped
    for (doc, pth) in [("map", "a"), ("map", "c.e[0]"), ("map", "new.key"), ("list", "[1]"), ("jmap", "a"), ("empty", "k"),
                       ("multiline", "lit"), ("scalars", "i")]:
        for val in ["from file\n\n", "42\n", "line one\nline two\n", "", "  padded  \n", "true"]:
            if tier == "quick" and rng.random() < 0.5:
                continue
            argv = ["--change=" + pth, "-f", "val.txt"] + rng.choice([[], [], ["-F", "literal"], ["-F", "int"], ["-m"], ["-T", "!t"]])
            yield C("set", argv + rng.choice(NOISE) + [fname(doc)], {fname(doc): text_of(doc), "val.txt": val})
    yield C("set", ["-g", "a", "-f", "val.txt"], {"val.txt": "piped doc\n"}, stdin=text_of("map"))
    yield C("set", ["-g", "a", "-f", "adir", "map.yaml"], dict(F("map"), adir=None))
    # --stdin: the value comes from STDIN, the document from the file
    for (doc, pth) in [("map", "a"), ("map", "c.zz"), ("list", "[0]"), ("jmap", "c.e[1]"), ("empty", "k.j")]:
        for val in ["piped\n", "", "7", "two\nlines\n", "x: y\n"]:
            if tier == "quick" and rng.random() < 0.4:
                continue
            argv = ["--change=" + pth, "-i"] + rng.choice([[], [], ["-F", "squote"], ["-b"], ["-T", "t"], ["-S"]])
            yield C("set", argv + rng.choice(NOISE) + [fname(doc)], {fname(doc): text_of(doc)}, stdin=val)
    yield C("set", ["-g", "a", "-i", "map.yaml"], F("map"))                                   # a terminal: empty value
    yield C("set", ["-g", "a", "-i", "-S"], {}, stdin="v")
    # --random LEN [--random-from POOL] (secrets.choice is replaced by a deterministic stand-in)
    for (doc, pth) in [("map", "a"), ("map", "pw.new"), ("aoh", "items.val"), ("list", "[1]"), ("empty", "secret")]:
        for (n, pool) in [("8", "abc"), ("1", "xy"), ("0", "abc"), ("12", None), ("5", "AbCdEf"), ("3", "x"), ("-2", "ab"),
                          ("4", "01"), ("6", "")]:
            if tier == "quick" and rng.random() < 0.4:
                continue
            argv = ["--change=" + pth, "-R", n] + (["-M", pool] if pool is not None else [])
            yield C("set", argv + rng.choice(NOISE) + [fname(doc)], {fname(doc): text_of(doc)})
    yield C("set", ["-g", "a", "-R", "6", "-M", "pq"], {}, stdin=text_of("map"))
    yield C("set", ["-g", "a", "-R", "six", "map.yaml"], F("map"))
    # --eyamlcrypt through the stand-in cipher of the C19 work
    binary, key, other, secret = eyaml_bits()
    edoc = "plain: text\nenc: %s\nfolded: >\n  some folded\n  text\nn: 5\n" % secret
    keys = {"priv.key": key, "pub.key": key}
    kopts = ["-x", binary, "-r", "priv.key", "-u", "pub.key"]
    for pth in ["plain", "enc", "folded", "n", "newly.made", "nosuch[0]"]:
        for extra in [[], ["-F", "folded"], ["-F", "literal"], ["-m"], ["-b"], ["-c", "secret"], ["-c", "wrong"], ["-s", "old.value"]]:
            if tier == "quick" and rng.random() < 0.5:
                continue
            yield C("set", ["--change=" + pth, "-a", "new secret", "-e"] + kopts + extra + rng.choice(NOISE) + ["e.yaml"],
                    dict(keys, **{"e.yaml": edoc}))
    yield C("set", ["-g", "plain", "-a", "v", "-e", "-x", "/nonexistent/eyaml", "e.yaml"], {"e.yaml": edoc})
    yield C("set", ["-g", "plain", "-a", "v", "-e", "-x", binary, "-r", "priv.key", "e.yaml"], dict(keys, **{"e.yaml": edoc}))
    yield C("set", ["-g", "enc", "-a", "v", "-c", "secret", "-x", binary, "-r", "priv.key", "e.yaml"], dict(keys, **{"e.yaml": edoc}))
    yield C("set", ["-g", "enc", "-a", "v", "-c", "secret", "-x", binary, "-r", "priv.key", "-u", "pub.key", "e.yaml"],
            {"e.yaml": edoc, "priv.key": other, "pub.key": other})                              # wrong key pair: decryption fails
    yield C("set", ["-g", "enc", "-a", "v", "-c", "secret"] + kopts + ["e.yaml"], dict(keys, **{"e.yaml": edoc}))
    yield C("set", ["-g", "plain", "-i", "-e"] + kopts + ["e.yaml"], dict(keys, **{"e.yaml": edoc}), stdin="from stdin")
    yield C("set", ["-g", "plain", "-a", "v", "-e"] + kopts, dict(keys), stdin=edoc)


# ---------------------------------------------------------------------------
# yaml-paths

EXPRS = ["=1", "=two", "^t", "$e", "%a", "=~/^[a-z]+$/", ">1", "<3", "!=1", "=zzz", "^l", "=2020-01-02", "=null", "=~/\\d/"]
BAD_EXPRS = ["x", "=", "", "=~/(/", "?a"]
PRINT_OPTS = [[], [], ["-F"], ["-X"], ["-P"], ["-L"], ["-L", "-F"], ["-L", "-P"], ["-L", "-P", "-F"], ["-P", "-F"],
              ["-n"], ["-n", "-t", "/"], ["-t", "/"], ["-L", "-n"], ["-m"], ["-m", "-L", "-F"]]
KEY_OPTS = [[], [], ["-k"], ["-K"], ["-i"], ["-a"], ["-A"], ["-Y"], ["-y"], ["-l"], ["-K", "-a"]]


def gen_paths(rng, tier):
    pool = GOOD + ["jmap", "jlist", "multi2", "multi3", "multi_bad_tail", "empty"] + BAD[:3]
    k = 800 if tier == "quick" else 7000
    for i in range(k):
        argv = []
        for _ in range(rng.choice([1, 1, 1, 2, 3])):
            e = rng.choice(EXPRS if rng.random() < 0.93 else BAD_EXPRS)
            argv.append("--search=" + e)
        if rng.random() < 0.25:
            for _ in range(rng.choice([1, 1, 2])):
                argv.append("--except=" + rng.choice(EXPRS if rng.random() < 0.9 else BAD_EXPRS))
        argv += rng.choice(PRINT_OPTS) + rng.choice(KEY_OPTS) + rng.choice(NOISE)
        cnt = rng.choice([1, 1, 2, 3])
        files, names = {}, []
        for j in range(cnt):
            n = rng.choice(pool)
            nm = "%d_%s" % (j, fname(n))
            files[nm] = text_of(n)
            names.append(nm)
        stdin = None
        r = rng.random()
        if r < 0.3:
            stdin = text_of(rng.choice(GOOD + ["multi2", "empty", "bad_flow"]))
            if rng.random() < 0.5:
                names.insert(rng.randrange(0, len(names) + 1), "-")
            elif rng.random() < 0.2:
                argv.append("-S")
        elif r < 0.34:
            names.append("missing.yaml")
        yield C("paths", argv + names, files, stdin=stdin)
    for n in GOOD + ["multi2", "jmap"]:
        yield C("paths", ["-s", "=1", "-F", fname(n)], F(n), twin={"file": fname(n), "how": "dash"})
        yield C("paths", ["-s", "^a", "-K", "-L", "-F", fname(n)], F(n), twin={"file": fname(n), "how": "omit"})
        yield C("paths", ["-s", "=1"], {}, stdin=text_of(n))
    yield C("paths", ["-s", "=1"], {})
    yield C("paths", ["-s", "=1", "-", "-"], {}, stdin="a: 1\n")
    yield C("paths", [fname("map")], F("map"))
    yield C("paths", ["-s", "=1", "-r", "nokey", fname("map")], F("map"))
    yield C("paths", ["-s", "=1", "-r", "k", "-u", "k", fname("map")], dict(F("map"), k="x"))
    yield C("paths", ["-s", "=1", "-u", "nokey", "-S"], {})


# ---------------------------------------------------------------------------

GENS = [("get", gen_get), ("validate", gen_validate), ("diff", gen_diff), ("merge", gen_merge), ("set", gen_set),
        ("paths", gen_paths)]


def chunks(tier, seed):
    import os
    only = os.environ.get("C16_TOOLS")
    size = 60
    for ti, (name, g) in enumerate(GENS):
        if only and name not in only.split(","):
            continue
        rng = random.Random(seed * 1009 + ti)
        buf = []
        n = 0
        for case in g(rng, tier):
            n += 1
            # a sample also goes through the installed console scripts (thorough tier)
            if (tier == "thorough" or os.environ.get("C16_SCRIPTS")) and n % 9 == 0:
                case["script"] = True
            buf.append(case)
            if len(buf) >= size:
                yield buf
                buf = []
        if buf:
            yield buf


def corpus_chunks():
    """Witnesses of the fixed defects and past disagreements, run first."""
    cases = [
        # fixed: yaml-get exited 0 on an empty document
        C("get", ["-p", "a", "empty.yaml"], {"empty.yaml": ""}),
        C("get", ["-p", "a"], {}, stdin=""),
        # fixed: yaml-merge with only an implied STDIN document crashed
        C("merge", [], {}, stdin="q: 1\n"),
        C("merge", ["-M", "merge_across"], {}, stdin="a: 1\n---\nb: 2\n"),
    ]
    cases.append(C("set", ["--change=a", "--value=9", "-F", "float", "map.yaml"], F("map")))    # repaired in the library: `!!float '9'` did not load again
    cases.append(C("merge", ["-S", "anchors.yaml", "r_anchors.yaml"],
                   {"anchors.yaml": text_of("anchors"), "r_anchors.yaml": text_of("anchors")}))   # repaired in the library: merging a document into itself never returned
    cases.append(C("diff", ["nulls.yaml", "r_nulls.yaml"],
                   {"nulls.yaml": text_of("nulls"), "r_nulls.yaml": text_of("nulls")}))           # repaired in the library: a list holding null differed from itself
    # known finding ruamel_block_scalar_indent: a block scalar starting with a space loses it on reload
    cases.append(C("set", ["--change=a", "--value=  padded", "-F", "literal", "map.yaml"], F("map")))
    # fixed 9aeb9d5: a value the YAML dumper cannot represent no longer costs the user the file
    cases.append(C("set", ["-g", "a", "-T", "!x", "map.yaml"], F("map")))
    cases.append(C("set", ["-g", "a", "-T", "!x", "-b", "map.yaml"], dict(F("map"), **{"map.yaml.bak": "stale\n"})))
    return [cases]
