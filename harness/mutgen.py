"""Shared by harness/c04.py, c03.py, c09b.py (write side of processor.py):
document / path generators, the shadow copy the judges use, and the encoding of
the coordinates (NodeCoords) the real read side gathered."""
import io
import random
from types import SimpleNamespace

import docenc
from common import hexs

_ENV = {}


def init_env():
    if _ENV:
        return _ENV
    from yamlpath.common import Parsers
    from yamlpath.wrappers import ConsolePrinter, NodeCoords
    from yamlpath import Processor, YAMLPath
    from yamlpath.enums import YAMLValueFormats, PathSearchKeywords
    from yamlpath.path import SearchKeywordTerms
    from yamlpath.exceptions import YAMLPathException
    log = ConsolePrinter(SimpleNamespace(quiet=True, verbose=False, debug=False))
    _ENV.update(Parsers=Parsers, Processor=Processor, YAMLPath=YAMLPath, NodeCoords=NodeCoords,
                YAMLValueFormats=YAMLValueFormats, PathSearchKeywords=PathSearchKeywords,
                SearchKeywordTerms=SearchKeywordTerms, YAMLPathException=YAMLPathException, log=log)
    return _ENV


class _SilentLog:
    """Swallows the loader's diagnostics (the verdict is the returned flag)."""

    def __getattr__(self, name):
        return lambda *a, **k: None


def load(text):
    return init_env()["Parsers"].get_yaml_editor().load(text)


def dump_reload(data):
    """Serialize with the project's editor and reload with the project's
    strict loader; returns (ok, reloaded data | error text)."""
    E = init_env()
    s = io.StringIO()
    E["Parsers"].get_yaml_editor().dump(data, s)
    text = s.getvalue()
    (doc, ok) = E["Parsers"].get_yaml_data(E["Parsers"].get_yaml_editor(), _SilentLog(), text, literal=True)
    return ok, doc, text


# --------------------------------------------------------------- documents
SCALARS = ["1", "1", "2", "5", "300", "a", "b", "x", "x", "foo", "bar", "'q'", '"dq"', "1.5", "true", "false",
           "null", "k1", "c", "''", "-3"]
KEYS = ["a", "b", "c", "x", "k1", "foo", "d", "e"]
# "7" loads as the INTEGER key 7: a path segment 7 reaches it through the str/int fallback of _get_nodes_by_key
# (C03 / C04 histories only: the creation model of C09 does not cover that fallback)
KEYS_INT = KEYS + ["7"]


class DocGen:
    def __init__(self, rng, max_depth=3, sets=True, container_aliases=False, key_aliases=True, map_anchors=False,
                 int_keys=False):
        self.keys = KEYS_INT if int_keys else KEYS
        self.rng = rng
        # anchored MAPPINGS (&m1 {...}, scalar values only, never aliased as a value: every container object
        # stays in the document once), keys spelled like those anchor names at other places, and mappings that
        # merge them in (`<<: *m1`): the is_ymk_anchor test of Processor._delete_nodes
        self.map_anchors = map_anchors
        self.mpool = ["m1", "m2", "m3"] if map_anchors else []
        self.mdone = []            # anchored mappings whose text is complete (usable by <<)
        self.anchors = []          # scalar anchors usable as aliases
        self.canchors = []         # container anchors
        self.n = 0
        self.max_depth = max_depth
        self.sets = sets
        self.container_aliases = container_aliases
        self.key_aliases = key_aliases

    def scalar(self, allow_alias=True):
        rng = self.rng
        if allow_alias and self.anchors and rng.random() < 0.22:
            return "*" + rng.choice(self.anchors)
        s = rng.choice(SCALARS)
        if s not in ("null", "''") and rng.random() < 0.16:
            self.n += 1
            name = "n%d" % self.n
            self.anchors.append(name)
            return "&%s %s" % (name, s)
        return s

    def value(self, depth, in_seq=False):
        rng = self.rng
        r = rng.random()
        if depth >= self.max_depth or r < 0.48:
            return self.scalar()
        if self.container_aliases and self.canchors and r < 0.52:
            return "*" + rng.choice(self.canchors)
        pre = ""
        if self.container_aliases and rng.random() < 0.1:
            self.n += 1
            pre = "&c%d " % self.n
            name = "c%d" % self.n
        if self.map_anchors and self.mpool and rng.random() < 0.22:
            name = self.mpool.pop(0)
            n = rng.choice([1, 2, 2, 3])
            keys = rng.sample(self.keys, n)
            txt = "&%s {%s}" % (name, ", ".join("%s: %s" % (k, self.scalar(allow_alias=False)) for k in keys))
            self.mdone.append(name)
            return txt
        if r < 0.72:
            out = pre + self.seq(depth)
        elif r < 0.95 or not self.sets or in_seq:
            out = pre + self.map(depth)
        else:
            return "!!set {%s}" % ", ".join(rng.sample(["x", "y", "z", "foo", "1"], rng.randint(1, 3)))
        if pre:
            self.canchors.append(name)
        return out

    def seq(self, depth):
        n = self.rng.choice([0, 1, 2, 3, 3, 4, 5])
        return "[%s]" % ", ".join(self.value(depth + 1, in_seq=True) for _ in range(n))

    def map(self, depth):
        rng = self.rng
        n = rng.choice([0, 1, 2, 2, 3, 4])
        keys = rng.sample(self.keys, n)
        items = []
        if self.map_anchors:
            if rng.random() < 0.35:
                keys.insert(rng.randrange(len(keys) + 1), rng.choice(["m1", "m2", "m3"]))   # a key spelled like an anchor name
            if self.mdone and rng.random() < 0.2:
                items.append("<<: *%s" % rng.choice(self.mdone))
        for k in keys:
            if self.key_aliases and self.anchors and rng.random() < 0.04:
                a = rng.choice(self.anchors)
                self.anchors.remove(a)        # a key alias may be used once per document (keys must stay unique)
                ktxt = "*%s " % a
            elif self.key_aliases and rng.random() < 0.04:
                self.n += 1
                name = "n%d" % self.n
                ktxt = "&%s %s" % (name, k)
                items.append("%s: %s" % (ktxt, self.value(depth + 1)))
                self.anchors.append(name)
                continue
            else:
                ktxt = k
            items.append("%s: %s" % (ktxt, self.value(depth + 1)))
        return "{%s}" % ", ".join(items)

    def doc(self):
        return self.map(0) if self.rng.random() < 0.65 else self.seq(0)


def gen_doc_text(rng, **kw):
    return DocGen(rng, **kw).doc()


# --------------------------------------------------------------- locations / paths
def is_set(x):
    return docenc.is_set(x)


def walk(data, loc=()):
    """(location, node) for every node; location steps are ('k', key) / ('i', idx) / ('m', member)."""
    yield loc, data
    if isinstance(data, dict):
        for k, v in data.items():
            yield from walk(v, loc + (("k", k),))
    elif isinstance(data, list):
        for i, v in enumerate(data):
            yield from walk(v, loc + (("i", i),))
    elif is_set(data):
        for m in data:
            yield loc + (("m", m),), m


def node_at(data, loc):
    for kind, r in loc:
        if kind == "m":
            return r
        data = data[r]
    return data


def path_text(data, loc, rng=None, neg=False):
    """Dot-notation YAML Path of a location (keys of the generators need no escaping)."""
    out = ""
    cur = data
    for kind, r in loc:
        if kind == "i":
            idx = r
            if neg and rng is not None and rng.random() < 0.6:
                idx = r - len(cur)
            out += "[%d]" % idx
        else:
            seg = str(r)
            out += ("." if out else "") + seg
        if kind != "m":
            cur = cur[r]
    return out if out else "/"


def scalar_text(v):
    if v is None:
        return "null"
    if isinstance(v, bool):
        return "true" if v else "false"
    return str(v)


def gen_path(rng, data, allow_root=True, collectors=True):
    """A YAML Path expected to match at least one node of data."""
    locs = [(l, n) for l, n in walk(data) if l]
    if not locs:
        return "/"
    kind = rng.random()
    loc, node = rng.choice(locs)
    parent_loc = loc[:-1]
    parent = node_at(data, parent_loc)
    ptxt = path_text(data, parent_loc)
    pfx = "" if ptxt == "/" else ptxt

    def join(base, seg):
        if seg.startswith("["):
            return base + seg
        return (base + "." if base else "") + seg

    if kind < 0.30:
        return path_text(data, loc)
    if kind < 0.40:
        return path_text(data, loc, rng, neg=True)
    if kind < 0.50:
        return join(pfx, "*")
    if kind < 0.64:
        # a search over the children of the parent
        if isinstance(parent, list):
            scal = [e for e in parent if not isinstance(e, (dict, list)) and not is_set(e)]
            if scal:
                v = rng.choice(scal)
                op = rng.choice(["=", "=", "!=", ">", "<", "^", "$", "%"])
                t = scalar_text(v)
                if t == "":
                    t = "x"
                return pfx + "[.%s%s]" % (op, t)
            return join(pfx, "*")
        if isinstance(parent, dict):
            k = str(loc[-1][1])
            op = rng.choice(["^", "=", "$", "%"])
            return pfx + "[.%s%s]" % (op, k[:1] if op in "^%" else (k[-1:] if op == "$" else k))
        return path_text(data, loc)
    if kind < 0.72:
        return join(pfx, "**") if rng.random() < 0.7 else "**"
    if kind < 0.76 and isinstance(parent, dict):
        return join(path_text(data, loc) if path_text(data, loc) != "/" else "", "[name()]")
    if kind < 0.79 and isinstance(parent, list) and rng.random() < 0.3:
        # an Array slice that selects NOTHING: past the end, reversed within range, before the start
        n = len(parent)
        r = rng.random()
        if r < 0.4:
            a = n + rng.randrange(0, 3)
            b = a + rng.randrange(0, 3)
        elif r < 0.8 and n >= 2:
            b = rng.randrange(0, n - 1)
            a = rng.randrange(b + 1, n)
        elif r < 0.9:
            a = -n - rng.randrange(1, 4)
            b = min(a + rng.randrange(0, 2), -n)
        else:
            a = -1
            b = -1 - rng.randrange(1, n + 2)
        return pfx + "[%d:%d]" % (a, b)
    if kind < 0.79 and isinstance(parent, list) and len(parent) >= 2:
        a = rng.randrange(0, len(parent))
        b = rng.randrange(a, len(parent) + 1)
        return pfx + "[%d:%d]" % (a, b)
    if kind < 0.80 and allow_root:
        return "/"
    if collectors:
        # collectors: union of two exact paths (same / reversed / duplicated / nested)
        loc2, _ = rng.choice(locs)
        r = rng.random()
        p1 = path_text(data, loc, rng, neg=rng.random() < 0.2)
        if r < 0.3:
            p2 = p1
        elif r < 0.5 and len(loc) > 1:
            p2 = path_text(data, loc[:-1])
        elif r < 0.7 and isinstance(parent, list) and len(parent) > 1:
            sib = rng.randrange(len(parent))
            p2 = path_text(data, parent_loc + (("i", sib),), rng, neg=rng.random() < 0.3)
        else:
            p2 = path_text(data, loc2)
        if p2 == "/" and not allow_root:
            p2 = p1
        if rng.random() < 0.12 and allow_root:
            p2 = "/"
        if rng.random() < 0.5:
            p1, p2 = p2, p1
        return "(%s)+(%s)" % (p1, p2)
    return path_text(data, loc)


# --------------------------------------------------------------- shadow copy
class Shadow:
    """Structure of the document BEFORE an operation: per container object the
    list of its child objects.  The real objects are mutated in place; the
    shadow is what the judges compare against."""

    def __init__(self, data):
        self.root = data
        self.kids = {}      # id(container) -> ("M", [(k, v)...]) | ("S", [v...]) | ("T", [m...])
        self.keep = []
        self.merged = {}    # id(mapping) -> True when its .merge list is non-empty (`<<:` user)
        self.referred = {}  # id(mapping) -> True when other mappings merge it in
        self.anchor_names = set()
        self._scan(data)

    def _scan(self, x):
        if id(x) in self.kids:
            return
        if isinstance(x, dict):
            items = list(x.items())
            self.kids[id(x)] = ("M", items)
            self.keep.append(x)
            if getattr(x, "_yaml_merge", None):
                self.merged[id(x)] = True
            if getattr(x, "_ref", None):
                self.referred[id(x)] = True
            for k, v in items:
                for y in (k, v):
                    try:
                        a = y.anchor.value if hasattr(y, "anchor") else None
                    except Exception:  # noqa
                        a = None
                    if a is not None:
                        self.anchor_names.add(a)
                self._scan(v)
        elif isinstance(x, list):
            items = list(x)
            self.kids[id(x)] = ("S", items)
            self.keep.append(x)
            for v in items:
                self._scan(v)
        elif is_set(x):
            self.kids[id(x)] = ("T", list(x))
            self.keep.append(x)

    def child_index(self, parent, ref):
        """Which child of `parent` (as it was) the reference designates, Python style."""
        ent = self.kids.get(id(parent))
        if ent is None:
            return None
        kind, items = ent
        try:
            if kind == "M":
                for i, (k, _) in enumerate(items):
                    if k == ref:
                        return i
                return None
            if kind == "S":
                if not isinstance(ref, int) or isinstance(ref, bool):
                    return None
                if 0 <= ref < len(items):
                    return ref
                if ref < 0 and ref + len(items) >= 0:
                    return ref + len(items)
                return None
            for i, m in enumerate(items):
                if m == ref:
                    return i
        except Exception:  # noqa
            return None
        return None


class ShadowEncoder(docenc.Encoder):
    """Encodes the document as the shadow remembers it, with edits:
    removed = {(id(container), index)}; replaced = {(id(container), index, 'v'|'k'): object}."""

    def __init__(self, shadow, removed=(), replaced=None):
        super().__init__()
        self.shadow = shadow
        self.removed = set(removed)
        self.replaced = replaced or {}

    def node(self, x):
        ent = self.shadow.kids.get(id(x))
        if ent is None:
            if isinstance(x, (dict, list)) or is_set(x):
                return super().node(x)      # a container created after the snapshot
            return self.leaf(x)
        kind, items = ent
        head = self.info(x)
        out = []
        for i, it in enumerate(items):
            if (id(x), i) in self.removed:
                continue
            if kind == "M":
                k, v = it
                k = self.replaced.get((id(x), i, "k"), k)
                v = self.replaced.get((id(x), i, "v"), v)
                out.append("(%s %s)" % (self.leaf(k), self.node(v)))
            elif kind == "S":
                v = self.replaced.get((id(x), i, "v"), it)
                out.append(self.node(v))
            else:
                v = self.replaced.get((id(x), i, "v"), it)
                out.append(self.leaf(v))
        return "(%s %s (%s))" % (kind, head, " ".join(out))


# --------------------------------------------------------------- coordinates
def is_name_kw(nc):
    E = init_env()
    seg = getattr(nc, "path_segment", None)
    if seg is None:
        return False
    try:
        (_, attrs) = seg
    except Exception:  # noqa
        return False
    return isinstance(attrs, E["SearchKeywordTerms"]) and attrs.keyword is E["PathSearchKeywords"].NAME


def is_empty_virtual(nc, doc_ids):
    """The node is an empty Python list that is no object of the document: the virtual result of an Array slice
    that selects nothing.  It designates no node (its parent / parentref are the sliced Array and the start of
    the slice)."""
    node = nc.node
    return isinstance(node, list) and len(node) == 0 and id(node) not in doc_ids


def coord_sexp(nc, enc):
    """Wire form of one gathered NodeCoords (ocaml/drv_mutate.ml)."""
    E = init_env()
    NC = E["NodeCoords"]
    if is_empty_virtual(nc, enc.oids) and isinstance(nc.parent, list) and isinstance(nc.parentref, int):
        # Processor._is_empty_slice: an empty list of NodeCoords
        return "(C () (%s %s) %s)" % ("none" if nc.parent is None else "i%d" % enc.oid(nc.parent),
                                      docenc.pyval_sexp(nc.parentref), "true" if is_name_kw(nc) else "false")
    parent = "none" if nc.parent is None else "i%d" % enc.oid(nc.parent)
    pc = "(%s %s)" % (parent, docenc.pyval_sexp(nc.parentref))
    nk = "true" if is_name_kw(nc) else "false"
    node = nc.node
    if isinstance(node, NC):
        return "(W %s %s %s)" % (coord_sexp(node, enc), pc, nk)
    if isinstance(node, list) and len(node) > 0 and isinstance(node[0], NC):
        return "(C (%s) %s %s)" % (" ".join(coord_sexp(c, enc) for c in node), pc, nk)
    return "(N %s %s)" % (pc, nk)


def flat_coords(ncs, for_delete=True):
    """Leaf coordinates in gather order (Collector results expanded)."""
    E = init_env()
    NC = E["NodeCoords"]
    out = []
    for nc in ncs:
        node = nc.node
        if isinstance(node, NC):
            out.extend(flat_coords([node]))
            if not for_delete:
                out.append(nc)
        elif isinstance(node, list) and len(node) > 0 and isinstance(node[0], NC):
            out.extend(flat_coords(node))
        else:
            out.append(nc)
    return out


def coord_sane(nc):
    """Does (parent, parentref) really locate nc.node?  (C02's subject; the
    write side trusts it.)"""
    p = nc.parent
    if p is None:
        return True
    try:
        if is_set(p):
            return any(m is nc.node for m in p if m == nc.parentref)
        return p[nc.parentref] is nc.node
    except Exception:  # noqa
        return False


def coord_sane_before(nc, shadow):
    """coord_sane evaluated against the pre-state (the document has been mutated since)."""
    p = nc.parent
    if p is None:
        return True
    ent = shadow.kids.get(id(p))
    if ent is None:
        return False
    idx = shadow.child_index(p, nc.parentref)
    if idx is None:
        return False
    kind, items = ent
    it = items[idx]
    if kind == "M":
        return it[1] is nc.node or is_name_kw(nc)
    return it is nc.node
