"""C09 (purity half): a required query, exists(), and an optional query on a path
that already exists leave the document exactly as it was.

Case = (document text, [paths]); per path three observations; a query that
changed the document (deep snapshot: structure + object identities + anchors,
or any call of Nodes.build_next_node) is observed as "(mutates)".
The creation half of C09 belongs to another module.
"""
import random

import evalcommon as ec
from evalcommon import init_worker, requests, observe, describe, undescribe, key  # noqa: F401

CONFIG = {
    "id": "C09",
    "also": ["C09b"],   # the creation half: harness/c09b.py + coq/Properties/C09b.v
    "rule": ("the C15 documents and paths (every handler branch) plus a collector-heavy stream: every document of "
             "the fixed list and every flow-YAML tree of <= 3 nodes x collector expressions built from 14 operands "
             "(keys, *, **, indexes, slices, searches, nested collectors) joined by +, - and & (all pairs, sampled "
             "triples), alone and followed by a further segment; under get_nodes(mustexist=True), "
             "get_nodes(mustexist=False) and exists().  A deep snapshot of the loaded document is compared before "
             "and after every single query.  non-trivial = some query returned nodes; distinct = distinct "
             "(document, path list)."),
    "trusted_base": [
        "modelled, not verified: yamlpath/processor.py 59-167, 811-2627; wrappers/nodecoords.py",
        "the model is a pure function of an immutable document; a writing statement is an explicit stream end "
        "(Mut) and no read path has one since collector subtraction works on a copy (fix 30ffde4); that nothing "
        "writes is what the deep snapshot of the real document checks on every query of the run",
        "parameters of the model: keyword-search handler; node-creating branches of _get_optional_nodes",
    ],
    "assumptions": [
        "the model is the code only as far as the correspondence run shows",
        "an optional query is judged on paths that already exist in the sense that the required query on the "
        "same document matched; a query that then still creates nodes is reported under finding F16b",
    ],
}

OPERANDS = ["a", "b", "*", "**", "[0]", "[1]", "[0:2]", "[.=1]", "[a=1]", "a.b", "h", "h.a", "(a)", "x"]
OPS = ["+", "-", "&"]
TAILS = ["", "[0]", ".a", "[.=1]", "*"]
EXTRA_DOCS = ["{h: {a: 1, b: 2}}", "{a: {x: 1}, b: {x: 1}}", "{a: 1, b: 1}", "[{a: 1}, {a: 1, b: 2}]",
              "{a: [1, 2], b: [2, 3]}", "[[1, 2], [2]]", "{a: {b: {c: 1}}, h: {a: {c: 1}}}"]


def collector_paths(rng, n_triples):
    out = []
    for x in OPERANDS:
        out.append("(%s)" % x)
        for op in OPS:
            for y in OPERANDS:
                out.append("(%s)%s(%s)" % (x, op, y))
    for _ in range(n_triples):
        parts = [rng.choice(OPERANDS) for _ in range(3)]
        out.append("(%s)%s(%s)%s(%s)%s" % (parts[0], rng.choice(OPS), parts[1], rng.choice(OPS), parts[2],
                                            rng.choice(TAILS)))
    return out


def mutates(line):
    return line == "(mutates)"


def judge(case, obs):
    doc, paths = case
    for i, p in enumerate(paths):
        req, opt, ex = obs[3 * i], obs[3 * i + 1], obs[3 * i + 2]
        if mutates(req):
            return "required query %r changed the document %r" % (p, doc)
        if mutates(ex):
            return "exists(%r) changed the document %r" % (p, doc)
        if mutates(opt) and req.startswith("(ok (") and req != "(ok ())":
            return "optional query %r changed the document %r although the path exists (required matched)" % (p, doc)
    return None


def f16b_partial_existence(case, obs):
    """the only changes are made by optional queries whose path the required query matches: the path exists in
    some branches (list elements, wildcard children) and its tail is created in the others.  (A change made by
    a required query or by exists() -- with or without a subtraction collector: finding F16 is fixed -- is
    attributed to nothing.)"""
    doc, paths = case
    if any(mutates(l) and i % 3 != 1 for i, l in enumerate(obs)):
        return False
    bad = [paths[i] for i in range(len(paths)) if mutates(obs[3 * i + 1]) and obs[3 * i].startswith("(ok (")
           and obs[3 * i] != "(ok ())"]
    return bool(bad)


FINDING_PREDS = {"optional_partial_existence": f16b_partial_existence}


def classify(case, obs):
    n = sum(1 for l in obs if mutates(l))
    coll = sum(1 for p in case[1] if "(" in p)
    return "coll%s:mut%s" % ("0" if coll == 0 else ("some" if coll < len(case[1]) else "all"),
                             "0" if n == 0 else "+")


def nontrivial(case, obs):
    return any(l.startswith("(ok (") and l != "(ok ())" for l in obs)


def corpus_chunks():
    yield [("{h: {a: 1, b: 2}}", ["(h)-(h.a)", "(h)-(h.a)+(h)"]), ("[{a: {b: 1}}, {a: {c: 1}}]", ["a.b"])]


def chunks(tier, seed):
    thorough = tier == "thorough"
    rng = random.Random(seed + 9)

    def gen():
        docs = list(ec.SPECIAL_DOCS) + EXTRA_DOCS + list(ec.small_docs(3))
        cps = collector_paths(rng, 600 if thorough else 150)
        for d in docs:
            if thorough:
                yield (d, cps)
            else:
                yield (d, rng.sample(cps, 120))
        for d in EXTRA_DOCS + list(ec.SPECIAL_DOCS):
            yield (d, cps)
        # the general C15 stream (no collectors needed here: they are above), thinned
        for i, c in enumerate(ec.gen_cases(tier, seed, with_collectors=True)):
            if i % (3 if thorough else 4) == 0:
                yield c
    return ec.chunks_by_weight(gen())
