"""C09 (purity half): a required query, exists(), and an optional query on a path
that already exists leave the document exactly as it was.

Case = (document text, [paths]); per path three observations; a query that
changed the document (deep snapshot: structure + object identities + anchors,
or any call of Nodes.build_next_node) is observed as "(mutates)".
The creation half of C09 belongs to another module.
"""
import random

import evalcommon as ec
from evalcommon import init_worker, describe, undescribe, key  # noqa: F401
from evalcommon import requests4 as requests, observe4 as observe  # noqa: F401

CONFIG = {
    "id": "C09",
    "also": ["C09b"],   # the creation half: harness/c09b.py + coq/Properties/C09b.v
    "rule": ("the C15 documents and paths (every handler branch) plus a collector-heavy stream: every document of "
             "the fixed list and every flow-YAML tree of <= 3 nodes x collector expressions built from 14 operands "
             "(keys, *, **, indexes, slices, searches, nested collectors) joined by +, - and & (all pairs, sampled "
             "triples), alone and followed by a further segment; under get_nodes(mustexist=True), "
             "get_nodes(mustexist=False), get_nodes(mustexist=False, default_value=...) and exists(); plus single-path "
             "cases over documents whose existing paths end at or pass through null values.  A deep snapshot of the loaded document is compared before "
             "and after every single query.  non-trivial = some query returned nodes; distinct = distinct "
             "(document, path list)."),
    "trusted_base": [
        "modelled, not verified: yamlpath/processor.py 59-167, 811-2627; wrappers/nodecoords.py",
        "the model is a pure function of an immutable document; a writing statement is an explicit stream end "
        "(Mut) and no read path has one since collector subtraction works on a copy (fix 30ffde4); that nothing "
        "writes is what the deep snapshot of the real document checks on every query of the run",
        "parameters of the model: keyword-search handler; node-creating branches of _get_optional_nodes",
    ],
    "assumptions": [
        "the model is the code only as far as the correspondence run shows",
        "an optional query is judged on paths that already exist in the sense that the required query on the "
        "same document matched; a query that then still creates nodes is reported under finding F16b",
    ],
}

OPERANDS = ["a", "b", "*", "**", "[0]", "[1]", "[0:2]", "[.=1]", "[a=1]", "a.b", "h", "h.a", "(a)", "x"]
OPS = ["+", "-", "&"]
TAILS = ["", "[0]", ".a", "[.=1]", "*"]
EXTRA_DOCS = ["{h: {a: 1, b: 2}}", "{a: {x: 1}, b: {x: 1}}", "{a: 1, b: 1}", "[{a: 1}, {a: 1, b: 2}]",
              "{a: [1, 2], b: [2, 3]}", "[[1, 2], [2]]", "{a: {b: {c: 1}}, h: {a: {c: 1}}}"]


def collector_paths(rng, n_triples):
    out = []
    for x in OPERANDS:
        out.append("(%s)" % x)
        for op in OPS:
            for y in OPERANDS:
                out.append("(%s)%s(%s)" % (x, op, y))
    for _ in range(n_triples):
        parts = [rng.choice(OPERANDS) for _ in range(3)]
        out.append("(%s)%s(%s)%s(%s)%s" % (parts[0], rng.choice(OPS), parts[1], rng.choice(OPS), parts[2],
                                            rng.choice(TAILS)))
    return out


def mutates(line):
    return line == "(mutates)"


N = 4        # observations per path: required, optional, exists(), optional with a default_value


def judge(case, obs):
    doc, paths = case
    fails = []          # (message, explained by a finding's own condition)
    for i, p in enumerate(paths):
        req, opt, ex, optd = obs[N * i], obs[N * i + 1], obs[N * i + 2], obs[N * i + 3]
        if mutates(req):
            fails.append(("required query %r changed the document %r" % (p, doc), False))
        if mutates(ex):
            fails.append(("exists(%r) changed the document %r" % (p, doc), False))
        if req.startswith("(ok (") and req != "(ok ())":
            for line, d in ((opt, None), (optd, ec.OPT_DEFAULT)):
                if mutates(line):
                    known = ec.optional_probe(doc, p, d)["lacking"]
                    fails.append(("optional query %r%s changed the document %r although the path exists (required "
                                  "matched%s)" % (p, "" if d is None else " with default_value %r" % d, doc,
                                                  "; in some branches only" if known else
                                                  " and every segment evaluation of the optional walk found its node"),
                                  known))
    # the message names a failure no listed finding's condition covers, when there is one
    for msg, known in fails:
        if not known:
            return msg
    return fails[0][0] if fails else None


def has_subtraction(path):
    return ")-(" in path


def req_matched(obs, i):
    return obs[N * i].startswith("(ok (") and obs[N * i] != "(ok ())"


def opt_changes(case, obs):
    """[(path, default)] of the optional queries that changed the document although the required query matched"""
    doc, paths = case
    out = []
    for i, p in enumerate(paths):
        if req_matched(obs, i):
            if mutates(obs[N * i + 1]):
                out.append((p, None))
            if mutates(obs[N * i + 3]):
                out.append((p, ec.OPT_DEFAULT))
    return out


def read_changes(case, obs):
    """paths whose required query or exists() changed the document"""
    return [case[1][i // N] for i, l in enumerate(obs) if mutates(l) and i % N in (0, 2)]


def f16b_partial_existence(case, obs):
    """the only changes are made by optional queries (no subtraction) whose path the required query matches, and
    each of them meets F16b's own condition: the path exists in some branches only - somewhere the optional
    walk evaluated a creatable segment on a node it had reached and that segment selected nothing there
    (ec.optional_probe: `lacking`), so the tail was created in that branch.  An optional query that changes the
    document although every segment evaluation of its walk found its node is NOT this finding."""
    doc, paths = case
    if read_changes(case, obs):
        return False
    bad = opt_changes(case, obs)
    if not bad:
        return False
    return all(ec.optional_probe(doc, p, d)["lacking"] for (p, d) in bad)


FINDING_PREDS = {"optional_partial_existence": f16b_partial_existence}


def classify(case, obs):
    n = sum(1 for l in obs if mutates(l))
    coll = sum(1 for p in case[1] if "(" in p)
    return "coll%s:mut%s" % ("0" if coll == 0 else ("some" if coll < len(case[1]) else "all"),
                             "0" if n == 0 else "+")


def nontrivial(case, obs):
    return any(l.startswith("(ok (") and l != "(ok ())" for l in obs)


def corpus_chunks():
    yield [("{h: {a: 1, b: 2}}", ["(h)-(h.a)", "(h)-(h.a)+(h)"]), ("[{a: {b: 1}}, {a: {c: 1}}]", ["a.b"])]


# optional queries (without / with a default_value) over paths that exist and end at, or pass through, null values:
# single-path cases, so that a failing one is a minimal replay
NULL_DOCS = ["{a: null}", "{a: {b: null}}", "[{a: null}]", "{a: [null]}", "[null]", "{a: null, b: 1}", "[null, 1]",
             "{a: {b: null, c: 1}}", "[{a: null}, {a: null}]", "{a: ~, b: {a: ~}}", "[[null]]", "{a: [{b: null}]}",
             "[{a: null}, {a: 1}]", "{a: {b: {c: null}}}"]
NULL_PATHS = ["a", "/a", "a.b", "/a/b", "[0].a", "a[0]", "[0]", "/[0]", "*", "**", "a.*", "b.a", "[0][0]", "a[0].b",
              "a.b.c", "[1]", "b", "a.c", "(a)", "(a)+(b)", "(a.b)", "[&x]", "a[0:1]", "[a=1]"]


def gen_null_cases():
    for d in NULL_DOCS:
        for p in NULL_PATHS:
            yield (d, [p])


def chunks(tier, seed):
    thorough = tier == "thorough"
    rng = random.Random(seed + 9)

    def gen():
        for c in gen_null_cases():
            yield c
        docs = list(ec.SPECIAL_DOCS) + EXTRA_DOCS + list(ec.small_docs(3))
        cps = collector_paths(rng, 600 if thorough else 150)
        for d in docs:
            if thorough:
                yield (d, cps)
            else:
                yield (d, rng.sample(cps, 120))
        for d in EXTRA_DOCS + list(ec.SPECIAL_DOCS):
            yield (d, cps)
        # the general C15 stream (no collectors needed here: they are above), thinned
        for i, c in enumerate(ec.gen_cases(tier, seed, with_collectors=True)):
            if i % (3 if thorough else 4) == 0:
                yield c
    return ec.chunks_by_weight(gen())
