"""C18: multi-document merges combine documents as the selected mode defines.

Case = (mode, [lhs YAML texts], [rhs YAML texts] | None, options).  Both streams
are written to FILES (one `---` document each; the text "" is an empty
document, i.e. a bare `---`); the left file is loaded with the real
yamlpath.commands.yaml_merge.get_doc_mergers and the real dispatcher
merge_docs(log, editor, config, lhs_mergers, rhs_file) is called -- it reads
the mode from the configuration, loads the right-hand file and calls
merge_condense_all / merge_across / merge_matrix.  rhs None = a file that
does not exist; a stream holding BAD = a file that does not parse (exit 3).
mode: condense | across | matrix | default (option absent) | a text that is
no mode (NameError).  Observation: the output documents when the exit state
is 0 (nothing is written otherwise), else the exit state (for condense-all,
which goes on after an error with a partially merged document, only the fact
that it is non-zero).
"""
import os
import tempfile
import random
from types import SimpleNamespace

from common import exc_line
import docenc
import oracles
import c05

CONFIG = {
    "id": "C18",
    "rule": ("left and right streams (files) of 1-3 (random: 0-4) documents drawn from the C05 document grammar (<= 3 "
             "nodes: hashes, arrays, sets, scalars, explicit nulls and EMPTY documents - a bare `---`) x the three "
             "modes x option mixes; exhaustive over all pairs of streams of length <= 2 over a 9-document core, a "
             "family placing an empty document at every position of left and right streams of length 1-4 under "
             "every mode, random beyond (a fifth of the documents empty); a malformed stream: missing / unparsable "
             "right-hand file, a mode text that is no mode, the mode option absent.  non-trivial = at least two "
             "pairwise merges happen; distinct = distinct case tuple."),
    "trusted_base": [
        "modelled, not verified: yamlpath/commands/yaml_merge.py merge_docs, merge_condense_all, merge_across, "
        "merge_matrix; MergerConfig.get_multidoc_mode / MultiDocModes.from_str",
        "input, not modelled: get_doc_mergers / Parsers.get_yaml_multidoc_data (file -> list of documents): the "
        "model receives every document of the stream loaded on its own by the repository's YAML editor, the "
        "implementation loads the file - a loader or dispatcher that drops, reorders or merges documents breaks the "
        "tie",
        "the pairwise step is C05's model (coq/Model/Merge.v) on the model side and the real Merger.merge_with on "
        "the implementation side; the theorems hold for any pairwise step",
        "not modelled: write_output_document, main()'s loop over several right-hand files and its single-file "
        "condense",
    ],
    "assumptions": [
        "after a failed pairwise merge the partially merged left document is not observed (no output is written when "
        "the exit state is non-zero); condense-all's exit state after a first failure is compared as non-zero only",
        "no per-path rules in this property's runs (MergerConfig.prepare is re-run per right-hand document)",
    ],
}

MODES = ("condense", "across", "matrix")
MODE_TEXT = {"condense": "condense_all", "across": "merge_across", "matrix": "matrix_merge"}
BAD = "{a: "          # a document text that does not parse
_ENV = {}


def init_worker():
    c05.init_worker()
    from yamlpath.commands import yaml_merge
    _ENV.update(ym=yaml_merge, tmp=tempfile.mkdtemp(prefix="c18_"))


def mode_text(mode):
    """the multi_doc_mode option text (None: the option is absent)"""
    return None if mode == "default" else MODE_TEXT.get(mode, mode)


def eff_mode(mode):
    """condense | across | matrix | None (no mode: NameError)"""
    t = mode_text(mode)
    if t is None:
        return "condense"
    return {"CONDENSE_ALL": "condense", "MERGE_ACROSS": "across", "MATRIX_MERGE": "matrix"}.get(t.upper())


def loadable(rs):
    return rs is not None and BAD not in rs


def stream_text(texts):
    return "".join("---\n" if t == "" else "--- %s\n" % t for t in texts)


def requests(case):
    mode, ls, rs, opts = case
    L = [c05.load(t) for t in ls]
    R = [c05.load(t) for t in rs] if loadable(rs) else []
    enc = docenc.Encoder()
    enc.fresh_oid()
    lsx = " ".join(enc.node(d) for d in L)
    rsx = " ".join(enc.node(d) for d in R)
    vals = []
    for d in L + R:
        c05.scalars_of(d, vals)
    cli = " ".join(c05.opt_sexp(opts.get(k)) for k in ("hashes", "arrays", "aoh", "sets", "anchors"))
    c_s = "(cfg false () () (%s) (none none none none none))" % cli
    return ["(mergedocs %s %s %s (%s) %s)" % (c05.opt_sexp(mode_text(mode)), c_s, oracles.lit_table(vals), lsx,
                                             "(docs %s)" % rsx if loadable(rs) else "none")]


class QuietLog:
    def __getattr__(self, name):
        return lambda *a, **k: None


def run_driver(case):
    """the real get_doc_mergers (left file) and merge_docs (right file)"""
    mode, ls, rs, opts = case
    E = c05._ENV
    ym = _ENV["ym"]
    ns = dict(opts)
    if mode_text(mode) is not None:
        ns["multi_doc_mode"] = mode_text(mode)
    cfg = E["MergerConfig"](E["log"], SimpleNamespace(**ns))
    editor = E["Parsers"].get_yaml_editor()
    lf = os.path.join(_ENV["tmp"], "l_%d.yaml" % os.getpid())
    rf = os.path.join(_ENV["tmp"], "r_%d.yaml" % os.getpid())
    with open(lf, "w") as f:
        f.write(stream_text(ls))
    if rs is None:
        if os.path.exists(rf):
            os.unlink(rf)
    else:
        with open(rf, "w") as f:
            f.write(stream_text(rs))
    log = QuietLog()
    LM, ok = ym.get_doc_mergers(log, editor, cfg, lf)
    if not ok:
        raise RuntimeError("left stream did not load")
    st = ym.merge_docs(log, editor, cfg, LM, rf)
    return st, [m.data for m in LM]


def observe(case):
    try:
        st, docs = run_driver(case)
    except Exception as e:  # noqa
        return [exc_line(e)]
    if st == 0:
        return ["(ok (%s))" % " ".join(c05.out_doc(d) for d in docs)]
    if 11 <= st <= 14:
        return ["(failed condense)"]
    return ["(failed i%d)" % st]


# ---- the property on the implementation's own outputs: every output is the
# ---- chain of real pairwise merges on freshly loaded documents
def pairwise(cfg_opts, l_data, r_text):
    E = c05._ENV
    cfg = E["MergerConfig"](E["log"], SimpleNamespace(**cfg_opts))
    m = E["Merger"](E["log"], l_data, cfg)
    m.merge_with(c05.load(r_text))
    return m.data


def expected(case):
    """(list of plain documents) or None when some pairwise merge fails"""
    mode, ls, rs, opts = case
    mode = eff_mode(mode)
    E = c05._ENV
    try:
        if mode == "condense":
            cur = c05.load(ls[0])
            for t in list(ls[1:]) + list(rs):
                cur = pairwise(opts, cur, t)
            return [c05.plain(cur)]
        if mode == "across":
            out = []
            for i in range(max(len(ls), len(rs))):
                if i < len(ls) and i < len(rs):
                    out.append(c05.plain(pairwise(opts, c05.load(ls[i]), rs[i])))
                elif i < len(ls):
                    out.append(c05.plain(c05.load(ls[i])))
                else:
                    out.append(c05.plain(c05.load(rs[i])))
            return out
        out = []
        for lt in ls:
            cur = c05.load(lt)
            for t in rs:
                cur = pairwise(opts, cur, t)
            out.append(c05.plain(cur))
        return out
    except (E["MergeException"],):
        return None


def judge(case, obs):
    line = obs[0]
    mode, ls, rs, opts = case
    if not ls:
        return None                       # the tool never calls the drivers without a left document
    if eff_mode(mode) is None:
        return None if line == "(raise (crash NameError))" else "a mode text that is no mode was accepted: %s" % line[:80]
    if line.startswith("(raise"):
        return "driver raised %s" % line
    if not loadable(rs):
        return None if line == "(failed i3)" else "an unloadable right-hand file did not end in exit state 3: %s" % line[:80]
    if line == "(failed i3)":
        return "exit state 3 although the right-hand file loads"
    mode = eff_mode(mode)
    exp = expected(case)
    if exp is None:
        return None if line.startswith("(failed") else "a failing pairwise merge went unreported: %s" % line[:80]
    if line.startswith("(failed"):
        return "exit state non-zero although every pairwise merge succeeds"
    from common import sexp_parse
    docs = sexp_parse(line)[1]
    got = [c05.plain_of_line("(ok %s)" % docenc.sexp_str(d)) for d in docs]
    n = {"condense": 1, "across": max(len(ls), len(rs)), "matrix": len(ls)}[mode]
    if len(got) != n:
        return "%s produced %d documents for stream lengths %d/%d (expected %d)" % (mode, len(got), len(ls), len(rs), n)
    for i, (e, g) in enumerate(zip(exp, got)):
        if not (c05.same_layout(e, g) and c05.same_layout(g, e)):
            return "output %d of %s is not the chain of pairwise merges: expected %r got %r" % (i, mode, e, g)
    return None


FINDING_PREDS = {}

CORE = ["{}", "{a: 1}", "{a: [1]}", "{a: [2], b: 2}", "[1]", "[{id: 1, v: 1}]", "~", "x", ""]


def empties_family():
    """an empty document at every position of the right / the left stream, every mode"""
    names = ["p", "q", "r", "s"]
    lefts = [("{x: 1}",), ("{x: 1}", "{y: 1}"), ("{x: 1}", "{y: 1}", "{z: 1}"), ("{x: 1}", "[0]", "{z: 1}", "{w: 1}")]
    for mode in MODES:
        for n in range(1, 5):
            full = ["{%s: %d}" % (names[i], i) for i in range(n)]
            for pos in range(n):
                for fill in ("", "~"):
                    st = tuple(fill if i == pos else t for i, t in enumerate(full))
                    for ls in lefts:
                        yield (mode, ls, st, {})             # empty document in the right stream
                    for rs in lefts:
                        yield (mode, st, rs, {})             # empty document in the left stream
            if n >= 2:
                two = tuple("" if i in (0, n - 1) else t for i, t in enumerate(full))
                for ls in lefts:
                    yield (mode, ls, two, {})


def chunks(tier, seed):
    rng = random.Random(seed)
    buf = []
    size = 300
    streams = [[a] for a in CORE] + [[a, b] for a in CORE for b in CORE]
    for c in empties_family():
        buf.append(c)
        if len(buf) >= size:
            yield buf
            buf = []
    for mode in MODES:
        for ls in streams:
            for rs in (streams if tier == "thorough" else rng.sample(streams, 14)):
                buf.append((mode, tuple(ls), tuple(rs), {}))
                if len(buf) >= size:
                    yield buf
                    buf = []
    pool = c05.docs_of_size(1) + c05.docs_of_size(2) + c05.docs_of_size(3)
    n = 6000 if tier == "quick" else 80000
    for i in range(n):
        top = rng.choice(["{", "{", "[", "any"])
        cand = [d for d in pool if top == "any" or d.startswith(top)] if rng.random() < 0.8 else pool
        ls = tuple("" if rng.random() < 0.2 else rng.choice(cand) for _ in range(rng.randint(1, 4)))
        rs = tuple("" if rng.random() < 0.2 else rng.choice(cand) for _ in range(rng.randint(0, 4)))
        o = dict(rng.choice(c05.ALL_COMBOS)) if rng.random() < 0.6 else {}
        mode = rng.choice(MODES)
        if i % 40 == 9:
            # malformed stream
            k = rng.randint(0, 3)
            if k == 0:
                rs = None
            elif k == 1:
                rs = rs[:1] + (BAD,) + rs[1:]
            elif k == 2:
                mode = rng.choice(["bogus", "Matrix_Merge", "ACROSS", ""])
            else:
                mode = "default"
        buf.append((mode, ls, rs, o))
        if len(buf) >= size:
            yield buf
            buf = []
    if buf:
        yield buf


def corpus_chunks():
    yield [
        ("matrix", ("{}", "{}"), ("{a: [1]}", "{a: [2]}"), {}),          # shared right-hand nodes (fixed 9157917)
        ("matrix", ("{x: 1}", "{y: 1}"), ("{a: {b: 1}}", "{a: {c: 2}}"), {}),
        ("across", ("{x: 1}", "[0]", "{z: 1}"), ("{a: 1}", "{q: 1}", "{b: 1}", "{c: 1}"), {}),
        ("across", ("{x: 1}", "{z: 1}"), ("[1]", "{b: 1}"), {}),
        ("matrix", ("{x: 1}", "{z: 1}"), ("{a: 1}", "[1]", "{b: 1}"), {}),
        ("condense", ("{x: 1}",), ("{a: 1}", "[1]", "{b: 1}"), {}),
        ("condense", ("{x: 1}", "[1]"), ("{a: 1}",), {}),
        ("across", ("{x: 1}", "{y: 1}", "{z: 1}"), ("{a: 1}", "", "{c: 1}"), {}),    # an empty right-hand document keeps its place
        ("across", ("{x: 1}",), ("", "{b: 1}"), {}),
        ("matrix", ("{x: 1}", ""), ("", "{b: 1}"), {}),
        ("condense", ("", "{x: 1}"), ("", "{b: 1}", ""), {}),
        ("across", ("{x: 1}",), None, {}),
        ("default", ("{x: 1}", "{y: 1}"), ("{a: 1}",), {}),
        ("bogus", ("{x: 1}",), ("{a: 1}",), {}),
    ]


def key(case):
    return (case[0], case[1], case[2], tuple(sorted(case[3].items())))


def classify(case, obs):
    o = obs[0]
    mode, ls, rs, _ = case
    empt = "+empty" if "" in ls or (rs and "" in rs) else ""
    return "%s:%d/%s%s:%s" % (mode if mode in MODES or mode == "default" else "othertext", len(ls),
                              "x" if rs is None else len(rs), empt,
                              "ok" if o.startswith("(ok") else "failed" if o.startswith("(failed") else "raise")


def nontrivial(case, obs):
    mode, ls, rs, _ = case
    mode = eff_mode(mode)
    if mode is None or not loadable(rs):
        return False
    n = {"condense": len(ls) - 1 + len(rs), "across": min(len(ls), len(rs)), "matrix": len(ls) * len(rs)}[mode]
    return n >= 2


def describe(case):
    return {"mode": case[0], "lhs": list(case[1]), "rhs": None if case[2] is None else list(case[2]),
            "options": case[3]}


def undescribe(d):
    return (d["mode"], tuple(d["lhs"]), None if d["rhs"] is None else tuple(d["rhs"]), d["options"])
