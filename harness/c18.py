"""C18: multi-document merges combine documents as the selected mode defines.

Case = (mode, [lhs YAML texts], [rhs YAML texts], options).  The real driver
functions yamlpath.commands.yaml_merge.merge_condense_all / merge_across /
merge_matrix are called with lists of real Merger objects.  Observation: the
output documents when the exit state is 0 (nothing is written otherwise),
else the exit state (for condense-all, which goes on after an error with a
partially merged document, only the fact that it is non-zero).
"""
import random
from types import SimpleNamespace

from common import exc_line
import docenc
import oracles
import c05

CONFIG = {
    "id": "C18",
    "rule": ("left and right streams of 1-3 (random: 0-4) documents drawn from the C05 document grammar (<= 3 nodes: "
             "hashes, arrays, sets, scalars, empty documents) x the three modes x option mixes; exhaustive over all "
             "pairs of streams of length <= 2 over an 8-document core, random beyond.  non-trivial = at least two "
             "pairwise merges happen; distinct = distinct case tuple."),
    "trusted_base": [
        "modelled, not verified: yamlpath/commands/yaml_merge.py merge_condense_all, merge_across, merge_matrix",
        "the pairwise step is C05's model (coq/Model/Merge.v) on the model side and the real Merger.merge_with on "
        "the implementation side; the theorems hold for any pairwise step",
        "not modelled: get_doc_mergers / file loading, write_output_document, main()'s loop over files",
    ],
    "assumptions": [
        "after a failed pairwise merge the partially merged left document is not observed (no output is written when "
        "the exit state is non-zero); condense-all's exit state after a first failure is compared as non-zero only",
        "no per-path rules in this property's runs (MergerConfig.prepare is re-run per right-hand document)",
    ],
}

MODES = ("condense", "across", "matrix")
_ENV = {}


def init_worker():
    c05.init_worker()
    from yamlpath.commands import yaml_merge
    _ENV.update(ym=yaml_merge)


def _mk(case):
    mode, ls, rs, opts = case
    E = c05._ENV
    cfg = E["MergerConfig"](E["log"], SimpleNamespace(**opts))
    L = [c05.load(t) for t in ls]
    R = [c05.load(t) for t in rs]
    return cfg, L, R


def requests(case):
    mode, ls, rs, opts = case
    cfg, L, R = _mk(case)
    enc = docenc.Encoder()
    enc.fresh_oid()
    lsx = " ".join(enc.node(d) for d in L)
    rsx = " ".join(enc.node(d) for d in R)
    vals = []
    for d in L + R:
        c05.scalars_of(d, vals)
    cli = " ".join(c05.opt_sexp(opts.get(k)) for k in ("hashes", "arrays", "aoh", "sets", "anchors"))
    c_s = "(cfg false () () (%s) (none none none none none))" % cli
    return ["(multidoc %s %s %s (%s) (%s))" % (mode, c_s, oracles.lit_table(vals), lsx, rsx)]


class QuietLog:
    def __getattr__(self, name):
        return lambda *a, **k: None


def run_driver(case):
    mode, ls, rs, opts = case
    E = c05._ENV
    cfg, L, R = _mk(case)
    LM = [E["Merger"](E["log"], d, cfg) for d in L]
    RM = [E["Merger"](E["log"], d, cfg) for d in R]
    fn = {"condense": _ENV["ym"].merge_condense_all, "across": _ENV["ym"].merge_across,
          "matrix": _ENV["ym"].merge_matrix}[mode]
    st = fn(QuietLog(), LM, RM)
    return st, [m.data for m in LM]


def observe(case):
    try:
        st, docs = run_driver(case)
    except Exception as e:  # noqa
        return [exc_line(e)]
    if st == 0:
        return ["(ok (%s))" % " ".join(c05.out_doc(d) for d in docs)]
    if case[0] == "condense":
        return ["(failed condense)"]
    return ["(failed i%d)" % st]


# ---- the property on the implementation's own outputs: every output is the
# ---- chain of real pairwise merges on freshly loaded documents
def pairwise(cfg_opts, l_data, r_text):
    E = c05._ENV
    cfg = E["MergerConfig"](E["log"], SimpleNamespace(**cfg_opts))
    m = E["Merger"](E["log"], l_data, cfg)
    m.merge_with(c05.load(r_text))
    return m.data


def expected(case):
    """(list of plain documents) or None when some pairwise merge fails"""
    mode, ls, rs, opts = case
    E = c05._ENV
    try:
        if mode == "condense":
            cur = c05.load(ls[0])
            for t in list(ls[1:]) + list(rs):
                cur = pairwise(opts, cur, t)
            return [c05.plain(cur)]
        if mode == "across":
            out = []
            for i in range(max(len(ls), len(rs))):
                if i < len(ls) and i < len(rs):
                    out.append(c05.plain(pairwise(opts, c05.load(ls[i]), rs[i])))
                elif i < len(ls):
                    out.append(c05.plain(c05.load(ls[i])))
                else:
                    out.append(c05.plain(c05.load(rs[i])))
            return out
        out = []
        for lt in ls:
            cur = c05.load(lt)
            for t in rs:
                cur = pairwise(opts, cur, t)
            out.append(c05.plain(cur))
        return out
    except (E["MergeException"],):
        return None


def judge(case, obs):
    line = obs[0]
    mode, ls, rs, opts = case
    if not ls:
        return None                       # the tool never calls the drivers without a left document
    if line.startswith("(raise"):
        return "driver raised %s" % line
    exp = expected(case)
    if exp is None:
        return None if line.startswith("(failed") else "a failing pairwise merge went unreported: %s" % line[:80]
    if line.startswith("(failed"):
        return "exit state non-zero although every pairwise merge succeeds"
    from common import sexp_parse
    docs = sexp_parse(line)[1]
    got = [c05.plain_of_line("(ok %s)" % docenc.sexp_str(d)) for d in docs]
    n = {"condense": 1, "across": max(len(ls), len(rs)), "matrix": len(ls)}[mode]
    if len(got) != n:
        return "%s produced %d documents for stream lengths %d/%d (expected %d)" % (mode, len(got), len(ls), len(rs), n)
    for i, (e, g) in enumerate(zip(exp, got)):
        if not (c05.same_layout(e, g) and c05.same_layout(g, e)):
            return "output %d of %s is not the chain of pairwise merges: expected %r got %r" % (i, mode, e, g)
    return None


FINDING_PREDS = {}

CORE = ["{}", "{a: 1}", "{a: [1]}", "{a: [2], b: 2}", "[1]", "[{id: 1, v: 1}]", "~", "x"]


def chunks(tier, seed):
    rng = random.Random(seed)
    buf = []
    size = 300
    streams = [[a] for a in CORE] + [[a, b] for a in CORE for b in CORE]
    for mode in MODES:
        for ls in streams:
            for rs in (streams if tier == "thorough" else rng.sample(streams, 14)):
                buf.append((mode, tuple(ls), tuple(rs), {}))
                if len(buf) >= size:
                    yield buf
                    buf = []
    pool = c05.docs_of_size(1) + c05.docs_of_size(2) + c05.docs_of_size(3)
    n = 6000 if tier == "quick" else 80000
    for i in range(n):
        top = rng.choice(["{", "{", "[", "any"])
        cand = [d for d in pool if top == "any" or d.startswith(top)] if rng.random() < 0.8 else pool
        ls = tuple(rng.choice(cand) for _ in range(rng.randint(1, 4)))
        rs = tuple(rng.choice(cand) for _ in range(rng.randint(0, 4)))
        o = dict(rng.choice(c05.ALL_COMBOS)) if rng.random() < 0.6 else {}
        buf.append((rng.choice(MODES), ls, rs, o))
        if len(buf) >= size:
            yield buf
            buf = []
    if buf:
        yield buf


def corpus_chunks():
    yield [
        ("matrix", ("{}", "{}"), ("{a: [1]}", "{a: [2]}"), {}),          # shared right-hand nodes (fixed 9157917)
        ("matrix", ("{x: 1}", "{y: 1}"), ("{a: {b: 1}}", "{a: {c: 2}}"), {}),
        ("across", ("{x: 1}", "[0]", "{z: 1}"), ("{a: 1}", "{q: 1}", "{b: 1}", "{c: 1}"), {}),
        ("across", ("{x: 1}", "{z: 1}"), ("[1]", "{b: 1}"), {}),
        ("matrix", ("{x: 1}", "{z: 1}"), ("{a: 1}", "[1]", "{b: 1}"), {}),
        ("condense", ("{x: 1}",), ("{a: 1}", "[1]", "{b: 1}"), {}),
        ("condense", ("{x: 1}", "[1]"), ("{a: 1}",), {}),
    ]


def key(case):
    return (case[0], case[1], case[2], tuple(sorted(case[3].items())))


def classify(case, obs):
    o = obs[0]
    return "%s:%d/%d:%s" % (case[0], len(case[1]), len(case[2]),
                            "ok" if o.startswith("(ok") else "failed" if o.startswith("(failed") else "raise")


def nontrivial(case, obs):
    mode, ls, rs, _ = case
    n = {"condense": len(ls) - 1 + len(rs), "across": min(len(ls), len(rs)), "matrix": len(ls) * len(rs)}[mode]
    return n >= 2


def describe(case):
    return {"mode": case[0], "lhs": list(case[1]), "rhs": list(case[2]), "options": case[3]}


def undescribe(d):
    return (d["mode"], tuple(d["lhs"]), tuple(d["rhs"]), d["options"])
