"""Shared machinery of the evaluator properties (C15, C01, C09 purity, C02).

A case is (doc_text, [path, ...]).  For every path three queries are observed
on the REAL Processor: get_nodes(mustexist=True), get_nodes(mustexist=False),
exists().  The document is loaded once per case and re-used while a deep
snapshot (structure + object identities + anchors) shows it unchanged; a query
that changes it is observed as "(mutates)" and the document is reloaded.

Observation lines (compared with the model's, see ocaml/drv_eval.ml):
  (ok (ITEM ...)) | (ok true|false) | (raise ype) | (raise (crash Name)) | (mutates)
"""
import itertools
import random

from common import hexs, sexp_parse
import common
import docenc
import oracles

_ENV = {}
MODES = ("req", "opt", "exists")


def exc_line(e):
    """common.exc_line, with the class names the model's wire format uses."""
    line = common.exc_line(e)
    return "(raise (crash NotImplemented))" if line == "(raise (crash NotImplementedError))" else line


def init_worker():
    from types import SimpleNamespace
    from yamlpath.common import Parsers, Nodes
    from yamlpath.wrappers import ConsolePrinter, NodeCoords
    from yamlpath import Processor, YAMLPath
    from yamlpath.path import SearchTerms, CollectorTerms, SearchKeywordTerms
    from yamlpath.enums import PathSearchMethods, PathSegmentTypes
    from yamlpath.common import Searches
    from yamlpath.exceptions import YAMLPathException
    import c14
    c14.init_worker()
    log = ConsolePrinter(SimpleNamespace(quiet=True, verbose=False, debug=False))
    # the node-creating branches of _get_optional_nodes all go through Nodes.build_next_node (or change a
    # set of the document); count the calls so that creation on a virtual list is observed too
    _orig_bnn = Nodes.build_next_node

    def _counting_bnn(*a, **k):
        _ENV["creations"] = _ENV.get("creations", 0) + 1
        return _orig_bnn(*a, **k)
    if not getattr(Nodes, "_verif_wrapped", False):
        Nodes.build_next_node = staticmethod(_counting_bnn)
        Nodes._verif_wrapped = True
    _ENV.update(Parsers=Parsers, Processor=Processor, YAMLPath=YAMLPath, NodeCoords=NodeCoords, log=log,
                SearchTerms=SearchTerms, CollectorTerms=CollectorTerms, SearchKeywordTerms=SearchKeywordTerms,
                PathSearchMethods=PathSearchMethods, Nodes=Nodes, PathSegmentTypes=PathSegmentTypes,
                Searches=Searches, YAMLPathException=YAMLPathException, seg_line=c14.seg_line,
                yaml=Parsers.get_yaml_editor())


def load(text):
    return _ENV["yaml"].load(text)


# ---------------------------------------------------------------- path terms
def path_terms(path, depth=0):
    """(search terms, regex terms) occurring anywhere in the path, nested
    attribute / collector sub-paths included; parse errors end the descent."""
    E = _ENV
    terms, regex = set(), set()
    if depth > 6:
        return terms, regex
    for strip in (True, False):
        try:
            segs = list(E["YAMLPath"](path)._parse_path(strip))
        except Exception:  # noqa
            continue
        for (_t, a) in segs:
            if isinstance(a, E["SearchTerms"]):
                terms.add(a.term)
                if a.method is E["PathSearchMethods"].REGEX:
                    regex.add(a.term)
                t2, r2 = path_terms(a.attribute, depth + 1)
                terms |= t2
                regex |= r2
            elif isinstance(a, E["CollectorTerms"]):
                t2, r2 = path_terms(a.expression, depth + 1)
                terms |= t2
                regex |= r2
    return terms, regex


def all_nodes(data, out):
    out.append(data)
    if isinstance(data, dict):
        for k, v in data.items():
            out.append(k)
            all_nodes(v, out)
    elif isinstance(data, (list, tuple)):
        for e in data:
            all_nodes(e, out)
    elif docenc.is_set(data):
        for e in data:
            out.append(e)


def is_container(x):
    return isinstance(x, (dict, list, tuple)) or docenc.is_set(x)


class LoadedDoc:
    def __init__(self, text):
        self.text = text
        self.data = load(text)
        self.sexp, self.enc = docenc.encode(self.data)
        self.nodes = []
        all_nodes(self.data, self.nodes)
        self.scalars = [n for n in self.nodes if not is_container(n)]
        ents = []
        for n in self.nodes:
            if is_container(n):
                try:
                    ents.append("(i%d %s)" % (self.enc.oids[id(n)], hexs(str(n))))
                except RecursionError:
                    pass      # str() of a very deep container: the real code cannot compute it either
            elif id(n) in self.enc.oids:
                # repr() of the scalars: what str() of a hash the evaluator builds itself (the reduced copy
                # of collector subtraction) is made of -- ocaml/drv_eval.ml nstr_of_table
                try:
                    ents.append("(i%d %s)" % (self.enc.oids[id(n)], hexs(repr(n))))
                except Exception:  # noqa
                    pass
        self.nstr = "(%s)" % " ".join(ents)
        # str(typed haystack) of every node, for the regex table
        self.hay_texts = []
        seen = set()
        for n in self.nodes:
            try:
                if is_container(n):
                    t = str(n)
                elif type(n).__name__ == "ScalarBoolean":
                    t = str(bool(n))          # searches.py converts an anchored boolean to a real bool
                else:
                    t = str(_ENV["Nodes"].typed_value(n))
            except Exception:  # noqa
                continue
            if t not in seen:
                seen.add(t)
                self.hay_texts.append(t)
        # name() turns keys and indexes into nodes: the texts of the indexes and of None (the root's name)
        longest = max([len(n) for n in self.nodes if isinstance(n, (list, tuple))] + [0])
        for t in ["None"] + [str(i) for i in range(min(longest, 12))]:
            if t not in seen:
                seen.add(t)
                self.hay_texts.append(t)

    def snapshot(self):
        return docenc.Encoder.node(self.enc, self.data)


def reduced_copy_texts(ld, path):
    """str() of the hashes collector subtraction builds itself while this path is evaluated (reduced shallow
    copies: no object of the document, so not in ld.hay_texts); gathered by running the real query on a scratch
    load with yamlpath.processor.copy recorded.  Only a regular expression can be matched against them."""
    import yamlpath.processor as pm
    if not hasattr(pm, "copy"):
        return []
    made, orig = [], pm.copy

    def recording_copy(x):
        c = orig(x)
        made.append(c)
        return c
    pm.copy = recording_copy
    try:
        data = load(ld.text)
        for must in (True, False):
            try:
                list(_ENV["Processor"](_ENV["log"], data).get_nodes(path, mustexist=must))
            except Exception:  # noqa
                pass
    finally:
        pm.copy = orig
    out = []
    for c in made:
        try:
            t = str(c)
        except Exception:  # noqa
            continue
        if t not in out and t not in ld.hay_texts:
            out.append(t)
    return out


def tables_for(ld, path):
    terms, regex = path_terms(path)
    lit = oracles.lit_table(list(ld.scalars) + sorted(terms))
    hay = ld.hay_texts
    if regex and ")-" in path.replace(" ", ""):
        hay = hay + reduced_copy_texts(ld, path)
    re_t = oracles.re_table([(p, t) for p in sorted(regex) for t in hay])
    return lit, re_t


def request_lines(ld, path):
    lit, re_t = tables_for(ld, path)
    return ["(eval %s %s %s %s %s %s)" % (m, hexs(path), ld.sexp, lit, re_t, ld.nstr) for m in MODES]


# ---------------------------------------------------------------- observation
def parent_sexp(ld, p):
    if p is None:
        return "none"
    k = id(p)
    if k in ld.enc.oids:
        return "(n i%d)" % ld.enc.oids[k]
    if isinstance(p, list):
        return "(l)"
    if isinstance(p, dict):
        return "(m)"          # a hash the evaluator built itself (collector subtraction: reduced shallow copy)
    if isinstance(p, _ENV["NodeCoords"]):
        return "(c)"
    return "(? %s)" % type(p).__name__


def ref_sexp(r):
    if r is None:
        return "none"
    return docenc.pyval_sexp(r)


def psegs_sexp(path):
    E = _ENV
    if path is None:
        return "(nopath)"
    try:
        segs = E["YAMLPath"](path.original if isinstance(path, E["YAMLPath"]) else str(path))._parse_path(True)
        return "(ok (%s))" % " ".join(E["seg_line"](x) for x in segs)
    except Exception as e:  # noqa
        return exc_line(e)


def node_or_name_sexp(ld, x):
    """In a query whose path contains a name() segment (name_mode), a scalar node whose value is its own
    parentref is printed by value: the result of name() is the key
    or index object itself, whose CPython identity is an accident (interned small ints and 1-char strings
    may or may not coincide with scalars of the document).  ocaml/drv_eval.ml applies the same rule."""
    n = x.node
    if _ENV.get("name_mode") and not (is_container(n) or isinstance(n, (list, _ENV["NodeCoords"]))):
        try:
            pv = docenc.pyval_sexp(n)
            # None: name() of the root is the None singleton, whose identity is that of every null of the document
            if n is None or pv == ref_sexp(x.parentref):
                return "(v %s)" % pv
        except Exception:  # noqa
            pass
    return item_sexp(ld, n)


def item_sexp(ld, x):
    E = _ENV
    if isinstance(x, E["NodeCoords"]):
        ptxt = x.path.original if isinstance(x.path, E["YAMLPath"]) else ("" if x.path is None else str(x.path))
        anc = " ".join("(%s %s)" % (parent_sexp(ld, a), ref_sexp(b)) for (a, b) in x.ancestry)
        return "(nc %s %s %s %s %s (%s))" % (node_or_name_sexp(ld, x), parent_sexp(ld, x.parent), ref_sexp(x.parentref),
                                             hexs(ptxt), psegs_sexp(x.path), anc)
    k = id(x)
    if k in ld.enc.oids:
        return "(n i%d)" % ld.enc.oids[k]
    if isinstance(x, list):
        return "(l%s)" % "".join(" " + item_sexp(ld, e) for e in x)
    if isinstance(x, dict):   # the reduced shallow copy made by collector subtraction: keys by value, values as items
        return "(m%s)" % "".join(" (%s %s)" % (docenc.pyval_sexp(k), item_sexp(ld, v)) for k, v in x.items())
    return "(? %s)" % type(x).__name__


OPT_DEFAULT = "D9"      # the default_value of the "optd" observations: a text no generated document holds


def observe_one(ld, path, mode, default=None):
    """-> (line, mutated)     mode "optd" = the optional query WITH a default_value (harness modules that
    observe it send the model's (eval opt ...) request a second time: the value is only read where nodes are
    created, which both sides report as (mutates))"""
    E = _ENV
    proc = E["Processor"](E["log"], ld.data)
    before = ld.sexp
    exc = None
    res = None
    E["creations"] = 0
    E["name_mode"] = "name(" in path
    try:
        if mode == "exists":
            res = proc.exists(path)
        elif mode == "optd" or default is not None:
            res = list(proc.get_nodes(path, mustexist=False,
                                      default_value=OPT_DEFAULT if default is None else default))
        else:
            res = list(proc.get_nodes(path, mustexist=(mode == "req")))
    except RecursionError as e:
        exc = e
    except Exception as e:  # noqa
        exc = e
    after = ld.snapshot()
    if after != before or E["creations"]:
        return "(mutates)", after != before
    if exc is not None:
        return exc_line(exc), False
    if mode == "exists":
        return "(ok %s)" % ("true" if res else "false"), False
    return "(ok (%s))" % " ".join(item_sexp(ld, x) for x in res), False


_CACHE = {}


def requests(case):
    doc, paths = case
    ld = LoadedDoc(doc)
    out = []
    for p in paths:
        out.extend(request_lines(ld, p))
    _CACHE[(doc, tuple(paths))] = ld
    _CACHE2[(doc, tuple(paths))] = ld
    return out


_CACHE2 = {}


def is_collector_path(path):
    t = path
    for k in ("has_child(", "name(", "max(", "min(", "parent(", "unique(", "distinct("):
        t = t.replace(k, "")
    return "(" in t


def frag_requests(case):
    """model-only requests: the fragment of Spec/SpecC15kw.v each collector path (and every 6th other path) is in"""
    doc, paths = case
    ld = _CACHE2.pop((doc, tuple(paths)), None)
    _CACHE2.clear()
    if ld is None:
        return []
    out = []
    for i, p in enumerate(paths):
        if is_collector_path(p) or i % 6 == 0:
            lit, re_t = tables_for(ld, p)
            out.append("(frag %s %s %s %s %s)" % (hexs(p), ld.sexp, lit, re_t, ld.nstr))
    return out


def frag_stats(case, outs):
    doc, paths = case
    sel = [p for i, p in enumerate(paths) if is_collector_path(p) or i % 6 == 0]
    h = {}
    for p, o in zip(sel, outs):
        k = "%s:%s" % ("collector" if is_collector_path(p) else "plain", o.strip("()").replace("frag ", "frag="))
        h[k] = h.get(k, 0) + 1
    return h


def observe(case):
    doc, paths = case
    ld = _CACHE.pop((doc, tuple(paths)), None) or LoadedDoc(doc)
    out = []
    for p in paths:
        for m in MODES:
            line, mutated = observe_one(ld, p, m)
            out.append(line)
            if mutated:
                ld = LoadedDoc(doc)
    return out


def describe(case):
    return {"doc": case[0], "paths": list(case[1])}


def undescribe(d):
    return (d["doc"], list(d["paths"]))


def key(case):
    return (case[0], tuple(case[1]))


# ---------------------------------------------------------------- generators
# documents: small trees over a tiny key/value alphabet, as YAML flow text
SCALARS = ["null", "true", "1", "1.5", "a", "'1'", "b", "''", "0", "-1", "ab", "'true'"]
KEYS = ["a", "b", "1", "'1'", "ab"]


def small_docs(max_nodes):
    """All documents (flow YAML) with at most max_nodes nodes over a reduced alphabet."""
    sc = ["null", "true", "1", "a", "'1'", "1.5"]
    ks = ["a", "b", "1"]
    memo = {}

    def trees(n):
        if n in memo:
            return memo[n]
        out = []
        if n >= 1:
            if n == 1:
                out.extend(sc)
                out.extend(["{}", "[]"])
            else:
                # sequences with children sizes summing to n-1
                for parts in compositions(n - 1):
                    for combo in itertools.product(*[trees(p) for p in parts]):
                        out.append("[" + ", ".join(combo) + "]")
                # maps: distinct keys in order
                for parts in compositions(n - 1):
                    if len(parts) > len(ks):
                        continue
                    for keys in itertools.permutations(ks, len(parts)):
                        if list(keys) != sorted(keys) and len(parts) > 2:
                            continue
                        for combo in itertools.product(*[trees(p) for p in parts]):
                            out.append("{" + ", ".join("%s: %s" % (k, v) for k, v in zip(keys, combo)) + "}")
        memo[n] = out
        return out

    def compositions(n):
        if n == 0:
            return
        for first in range(1, n + 1):
            if first == n:
                yield (n,)
            else:
                for rest in compositions(n - first):
                    yield (first,) + rest

    for n in range(1, max_nodes + 1):
        for t in trees(n):
            yield t


SPECIAL_DOCS = [
    "[null]", "[null, {a: 1}]", "[{a: null}, {a: {b: 1}}]", "[{b: 1}, {c: 2}]", "[{c: 2}, {b: 1}]",
    "{x: {a1: 1, a2: 2}}", "{x: [{a: 1}]}", "{x: [{a: 1}, [2, 3]]}", "{h: {a: 1, b: 2}}", "{1: x, a: y}",
    "[1, {a: 1}]", "[[1, 2], [3]]", "[[], 1]", "{a: [], b: {}}", "[1, 1, 300, 300]",
    "s: !!set\n  ? a\n  ? b\n", "s: !!set\n  ? 1\n  ? a\n", "!!set\n? a\n? b\n",
    "a: &x 1\nb: *x\n", "a: &x {k: 1}\nb: *x\nc: [*x, &y 2, *y]\n", "- &x a\n- *x\n- &y [1]\n- *y\n",
    "&k a: 1\nb: *k\n", "{a: {a: {a: 1}}}", "[{a: [{a: 1}, {a: 2}]}, {a: [{b: 3}]}]",
    "{a: '{[1]: 2}', b: '(', c: 'x y'}", "[1.5, '1.5', 2, '2', true, 'True', null, 'null', '']",
    "{'a.b': 1, 'c/d': 2, 'e f': 3, '[g]': 4, \"h'\": 5, '(i)': 6, 'j^': 7, 'k$': 8, 'l%': 9, 'm\\\\': 10, '&n': 11, '/o': 12}",
    "{a: 2001-01-01, b: 0x10, c: 1_000, d: 1e3, e: ~}",
    "[{name: one, val: 1}, {name: two, val: 2}, {name: three, val: 3, sub: {name: deep}}]",
    "{true: 1, 1.5: 2, null: 3, 2: 4}",
    "a: &x true\nb: *x\nc: [*x, false, &y 1, *y]\n",
]

INDEXES = ["0", "1", "-1", "2", "-2", "-3", "5", "-9"]
SLICES = ["0:1", "0:2", "1:1", "1:9", "-9:1", "-1:1", "2:1", "0:0", "-2:-1", "5:9", "a:b", "a:z", "0:a", "1:2"]
OPS = ["=", "==", "^", "$", "%", "<", ">", "<=", ">=", "=~"]
TERMS = ["a", "1", "1.5", "true", "", "b", "0", "null", "ab"]
ATTRS = [".", "a", "b", "1", "a.b", "*", "a.*", "**", "/a/b", "a[0]"]
RTERMS = ["/a/", "/^1/", "/(/", "/./", "/[/"]


def seg_vocab(rich):
    """Segment spellings as they appear inside a dot-notation path: (text, needs_sep)."""
    segs = []
    for k in ["a", "b", "1", "ab", "'1'", "x", "-1", "0", "2"]:
        segs.append((k, True))
    for i in INDEXES:
        segs.append(("[%s]" % i, False))
    for s in SLICES:
        segs.append(("[%s]" % s, False))
    segs.append(("*", True))
    segs.append(("**", True))
    segs.append(("a*", True))
    segs.append(("*a", True))
    segs.append(("a*b", True))
    for a in ["x", "y", "k"]:
        segs.append(("[&%s]" % a, False))
        segs.append(("&%s" % a, True))
    attrs = ATTRS if rich else [".", "a", "a.b", "*"]
    terms = TERMS if rich else ["a", "1", "true", ""]
    for at in attrs:
        for op in OPS:
            if op == "=~":
                for rt in (RTERMS if rich else ["/a/", "/(/"]):
                    segs.append(("[%s=~%s]" % (at, rt), False))
                    segs.append(("[%s!=~%s]" % (at, rt), False))
                continue
            for t in terms:
                if t == "" and op not in ("=", "^"):
                    continue
                segs.append(("[%s%s%s]" % (at, op, t), False))
                if op in ("=", "<", "^") or rich:
                    segs.append(("[%s!%s%s]" % (at, op, t), False))
    return segs


COLLECTORS = ["(a)", "(b)", "(*)", "(**)", "([0])", "(a)+(b)", "(a)-(b)", "(a)&(b)", "(*)-(a)", "(**)&(a)",
              "(a)+(b)-(a)", "([0:2])", "(a.b)", "((a)+(b))", "(a)(b)", "()", "(a)+([0])", "(*)-([0])",
              "([.=1])", "(a)-(a)", "(**)-(a)", "(*)&(*)", "([0])+([1])-([0])"]


# ---- keyword-search segments (keywordsearches.py through Keywords.v / EvalKw.v) ----
KW_SEGS = [
    "[has_child(a)]", "[!has_child(a)]", "[has_child(b)]", "[has_child(1)]", "[has_child(&x)]", "[!has_child(&x)]",
    "[has_child(&y)]", "[has_child()]", "[has_child(,)]", "[!has_child(,)]", "[has_child(a,b)]", "[has_child(name)]",
    "[name()]", "[!name()]", "[name(a)]", "[name(a,b)]",
    "[max()]", "[!max()]", "[max(a)]", "[!max(a)]", "[max(b)]", "[max(val)]", "[max(a,b)]", "[max(1)]",
    "[min()]", "[!min()]", "[min(a)]", "[!min(a)]", "[min(b)]", "[min(val)]", "[min(a,b)]", "[min(k)]",
    "[parent()]", "[parent(0)]", "[parent(1)]", "[parent(2)]", "[parent(3)]", "[parent(9)]", "[parent(-1)]",
    "[parent(x)]", "[!parent()]", "[parent(1,2)]", "[parent( 2 )]", "[parent(1_0)]",
    "[unique()]", "[!unique()]", "[unique(a)]", "[!unique(a)]", "[unique(val)]", "[unique(a,b)]",
    "[distinct()]", "[!distinct()]", "[distinct(a)]", "[distinct(b)]", "[distinct(a,b)]",
    # parameter texts SearchKeywordTerms.parameters cannot split (the parser accepts an ESCAPED quote; F31, repaired)
    "[max(\\')]", "[has_child(\\\")]", "[!unique(a\\')]",
]

# documents for the keyword handlers: nulls, empty containers, mixed-type lists, lists holding lists / hashes
# (unhashable members), Array-of-Hashes and hash-of-hashes with the attribute present / absent / null /
# a container, the "single node" shape, sets, anchors, nesting for parent() chains
KW_DOCS = [
    "[3, 1, 3, null, 2]", "[1, 1.0, true, '1', a]", "[b, a, null, b, 10, '9']", "[1, [2], 1]", "[1, {a: 1}, 1]",
    "[[1], [1]]", "[[], {}]", "[]", "{}", "[null]", "[null, null]", "[1.5, 2.5, 2.50, null]",
    "[{a: 1}, {a: 3}, {b: 2}, {a: null}, null, {a: 3}]", "[{a: null}, {a: 1}]", "[null, {a: 2}, {a: 1}]",
    "[{a: [1]}, {a: 2}]", "[{a: {b: 1}}, {a: {b: 1}}, {a: 1}]", "[{a: b, b: 1}, {a: b, b: 2}, {a: c}]",
    "{r1: {a: 1}, r2: {a: 2}, r3: {b: 1}, r4: {a: null}, r5: {a: 2}}", "{r1: {a: 1}, r2: 5}",
    "{r1: {a: [1]}, r2: {a: 1}}", "{a: 1, r: {a: 1}}", "{a: {a: 1}, b: 2}", "{r1: null, r2: {a: 1}}",
    "{x: [{a: 1}, {a: 2}], y: {p: {a: 1}, q: {a: 1}}, z: [3, 1, 2], w: null, e: [], f: {}}",
    "{a: {b: {c: [1, 2, {d: 5}]}}}", "x: [[{a: 1}]]\n", "[[{a: 1}, {a: 2}], [{a: 3}]]",
    "s: !!set\n  ? a\n  ? b\n", "!!set\n? a\n? b\n", "!!set\n? null\n",
    "a: &x {k: 1}\nb: *x\nc: [*x, &y 2, *y]\n", "- &x a\n- *x\n- &y [1]\n- *y\n", "[{k: &x 1}, {j: 2}, null]",
    "{&x k: 1, j: &y {m: 1}}", "{'a.b': {a: 1}, 'c/d': {a: 2}, 'e f': [1, 2]}",
]

KW_PREFIXES = [("a", True), ("b", True), ("x", True), ("r1", True), ("z", True), ("y", True), ("c", True),
               ("[0]", False), ("[1]", False), ("[-1]", False), ("[5]", False), ("*", True), ("**", True),
               ("[0:2]", False), ("[1:1]", False), ("[0:9]", False), ("[5:9]", False), ("[a:z]", False),
               ("[a=1]", False), ("[.>1]", False), ("[.=~/./]", False), ("[a!=1]", False), ("[&x]", False),
               ("(a)", False), ("(*)", False), ("(**)", False), ("([0:2])", False), ("(a)+(b)", False)]
KW_SUFFIXES = [("a", True), ("b", True), ("k", True), ("[0]", False), ("[-1]", False), ("[0:1]", False),
               ("*", True), ("**", True), ("[.>1]", False), ("[a=1]", False), ("[.=~/./]", False), ("[&x]", False)]
KW_CHAINS = ["a.b.c[parent()][parent()]", "a.b.c[2].d[parent(2)][parent()][name()]", "**[parent()]", "**[parent(2)]",
             "**[name()]", "*[parent()][name()]", "*.*[parent()]", "*.*[parent(2)]", "**[parent()][parent()]",
             "x[0].a[parent(2)][has_child(a)]", "x[max(a)][parent()]", "x[max(a)].a", "x[!max(a)][name()]",
             "y[distinct(a)][parent()][name()]", "y[unique(a)]", "**[has_child(a)][max(a)]", "**[max(a)]",
             "**[!has_child(a)]", "*[max()]", "*[unique()]", "*[has_child(a)]", "z[max()][parent()][min()]",
             "x[0:2][max(a)][parent()]", "x[0:1][0:1][0][max(a)]", "x[0:1][0:1][0][has_child(a)]",
             "[0:2][0:1][0][unique(a)]", "[0:1][0:1][0][max(a)]", "[0:9][unique()]", "[0:9][!unique()]",
             "[0:9][max()]", "[0:9][!min()]", "[0:9][distinct()][parent()]", "[1:1][max()]", "[1:1][has_child(1)]",
             "[0:9][has_child(a)]", "[0:9][!has_child(a)]", "[0:9][name()]", "[0:9][parent()][name()]",
             "/x/*[parent()]", "/**[name()]", "/y/*[name()]", "/a/b/c[parent(3)]", "/a/b/c[parent(4)]",
             "(**)[unique()]", "(*)[max()]", "(**)[!max()]", "(a)[name()]", "(*)[parent()]", "(*)[0][parent()]",
             "(x.*)[distinct()]", "(a)+(b)[min()]", "[has_child(a)][has_child(b)]", "[name()][name()]",
             "[name()][.=~/./]", "**[name()][.^a]", "[max(a)][max(b)]", "[parent(0)][parent(0)]"]


def kw_two_segment_paths():
    out = []
    for k in KW_SEGS:
        for pre in KW_PREFIXES:
            out.append(join_dot([pre, (k, False)]))
        for suf in KW_SUFFIXES:
            out.append(join_dot([(k, False), suf]))
    for pre in KW_PREFIXES[:13]:
        for k in KW_SEGS[::3]:
            out.append(to_slash([pre, (k, False)]))
    return out


def gen_kw_cases(tier, seed):
    """Keyword segments at every position of a path, over the keyword documents and the general ones."""
    thorough = tier == "thorough"
    rng = random.Random(seed * 7919 + 13)
    one = list(KW_SEGS) + [to_slash([(k, False)]) for k in KW_SEGS]
    two = kw_two_segment_paths()
    # an anchored YAML boolean (ruamel ScalarBoolean) among values COMPARED by max/min is outside the domain
    # of Keywords.v (docs/C13.md); the general stream keeps those documents
    docs = list(KW_DOCS) + [d for d in SPECIAL_DOCS if "&x true" not in d]
    for d in docs:
        yield (d, one + KW_CHAINS)
    for d in small_docs(3 if thorough else 2):
        yield (d, one)
    for d in docs:
        k = len(two) if thorough else 500
        for part in chunk_list(rng.sample(two, min(k, len(two))), 800):
            yield (d, part)
    # small trees x sampled two-segment paths
    for d in small_docs(4 if thorough else 3):
        if not thorough and rng.random() < 0.7:
            continue
        yield (d, rng.sample(two, 12) + rng.sample(KW_CHAINS, 4))
    # random documents x random paths with keyword segments at random positions
    vocab = seg_vocab(True)
    kwv = [(k, False) for k in KW_SEGS]
    for _ in range(6000 if thorough else 900):
        d = random_doc(rng) if rng.random() < 0.7 else random_kw_doc(rng)
        paths = []
        for _ in range(10):
            n = rng.randint(1, 4)
            parts = [rng.choice(vocab) if rng.random() < 0.55 else rng.choice(KW_PREFIXES + KW_SUFFIXES) for _ in range(n)]
            for _ in range(rng.randint(1, 2)):
                parts.insert(rng.randint(0, len(parts)), rng.choice(kwv))
            paths.append(to_slash(parts) if rng.random() < 0.3 else join_dot(parts))
        yield (d, paths)


# ---- collector expressions whose operands select scalars (C15: "collectors limited to operands selecting scalars") ----
SC_OPERANDS = ["a", "b", "c", "*", "**", "[0]", "[1]", "[-1]", "x.a", "x.*", "z[0]", "z.*", "[.>1]", "[.=~/./]",
               "**[.^a]", "z[max()]", "w", "nope"]
SC_DOCS = ["{a: 1, b: 2, c: a}", "[1, 2, 1, null]", "{x: {a: 1, b: 1}, z: [3, 1, 2], w: null, a: 1}", "{a: 1}",
           "[a]", "{}", "[]", "{a: null, b: '', c: 1.5}", "[a, b, a]", "{z: [1, 1], x: {a: 1}, b: true}"]
SC_TAILS = ["", "[0]", "[-1]", "[0:1]", "[max()]", "[!min()]", "[unique()]", "[distinct()]", "[.=1]", "[parent()]",
            "[name()]", "[has_child(a)]", "*"]


def gen_scalar_collector_cases(tier, seed):
    thorough = tier == "thorough"
    rng = random.Random(seed * 31 + 5)
    paths = []
    for x in SC_OPERANDS:
        for t in SC_TAILS:
            paths.append("(%s)%s" % (x, t))
        for op in "+-&":
            for y in SC_OPERANDS:
                paths.append("(%s)%s(%s)" % (x, op, y))
    for _ in range(1500 if thorough else 300):
        n = rng.randint(2, 4)
        e = "(%s)" % rng.choice(SC_OPERANDS)
        for _ in range(n - 1):
            e += "%s(%s)" % (rng.choice("+-&"), rng.choice(SC_OPERANDS))
        paths.append(e + rng.choice(SC_TAILS))
    for d in SC_DOCS:
        for part in chunk_list(paths if thorough else rng.sample(paths, 700), 700):
            yield (d, part)


def random_kw_doc(rng):
    """collections for the keyword handlers: plain lists over mixed pools, AoH / hash-of-hashes with the
    attribute present / absent / null / a container"""
    pool = rng.choice([["1", "2", "3", "null"], ["a", "ab", "b", "null", "''"], ["1", "1.0", "true", "'1'", "a"],
                       ["1.5", "2.5", "2.50", "null"], ["1", "[1]", "{a: 1}", "null", "a"]])
    def attr():
        r = rng.random()
        if r < 0.15:
            return None
        return rng.choice(pool)
    def rec():
        a = attr()
        items = []
        if a is not None:
            items.append("a: %s" % a)
        if rng.random() < 0.4:
            items.append("b: %s" % rng.choice(pool))
        return "{" + ", ".join(items) + "}"
    r = rng.random()
    n = rng.randint(0, 5)
    if r < 0.3:
        body = "[" + ", ".join(rng.choice(pool) for _ in range(n)) + "]"
    elif r < 0.65:
        body = "[" + ", ".join(("null" if rng.random() < 0.15 else rec()) for _ in range(n)) + "]"
    else:
        body = "{" + ", ".join("r%d: %s" % (i, (rng.choice(pool) if rng.random() < 0.15 else rec())) for i in range(n)) + "}"
    if rng.random() < 0.5:
        return "{x: %s, a: 1}" % body
    return body


def join_dot(parts):
    out = ""
    for i, (t, needs_sep) in enumerate(parts):
        if i > 0 and needs_sep:
            out += "."
        out += t
    return out


def to_slash(parts):
    out = ""
    for (t, needs_sep) in parts:
        if needs_sep:
            out += "/" + t
        else:
            out += t
    if not out.startswith("/"):
        out = "/" + out
    return out


def random_doc(rng, depth=0, budget=None):
    if budget is None:
        budget = [rng.randint(3, 40)]
    budget[0] -= 1
    r = rng.random()
    if depth > 5 or budget[0] <= 0 or r < 0.35:
        return rng.choice(SCALARS)
    if r < 0.62:
        n = rng.randint(0, 4)
        keys = rng.sample(KEYS + ["c", "x", "2"], min(n, 5))
        return "{" + ", ".join("%s: %s" % (k, random_doc(rng, depth + 1, budget)) for k in keys) + "}"
    if r < 0.9:
        n = rng.randint(0, 4)
        if rng.random() < 0.4:   # array of hashes
            return "[" + ", ".join("{" + ", ".join("%s: %s" % (k, random_doc(rng, depth + 2, budget))
                                                   for k in rng.sample(["a", "b", "1"], rng.randint(0, 3))) + "}"
                                   for _ in range(n)) + "]"
        return "[" + ", ".join(random_doc(rng, depth + 1, budget) for _ in range(n)) + "]"
    return rng.choice(["[]", "{}", "null"])


def random_path(rng, vocab, maxlen):
    n = rng.randint(1, maxlen)
    parts = [rng.choice(vocab) for _ in range(n)]
    if rng.random() < 0.12:
        parts.insert(rng.randint(0, len(parts)), (rng.choice(COLLECTORS), False))
    return to_slash(parts) if rng.random() < 0.35 else join_dot(parts)


def chunk_list(it, size):
    buf = []
    for x in it:
        buf.append(x)
        if len(buf) >= size:
            yield buf
            buf = []
    if buf:
        yield buf


def deep_doc(n, kind):
    if kind == "seq":
        return "[" * n + "1" + "]" * n
    if kind == "map":
        return "".join("{a: " for _ in range(n)) + "1" + "}" * n
    return "".join("{a: [" for _ in range(n)) + "1" + "]}" * n


def gen_cases(tier, seed, with_collectors=True):
    """Yield cases (doc, [paths])."""
    thorough = tier == "thorough"
    rng = random.Random(seed)
    vocab = seg_vocab(True)
    vocab_small = seg_vocab(False)
    one = [join_dot([s]) for s in vocab]
    onesl = [to_slash([s]) for s in vocab if s[1]]
    colls = COLLECTORS if with_collectors else []
    # 1. every special document and every tree of <= 2 (quick) / 3 (thorough) nodes x every
    #    1-segment path (both notations) and every collector expression; 3-node trees (quick) /
    #    4-node trees (thorough) x a sample of them
    full = list(SPECIAL_DOCS) + list(small_docs(3 if thorough else 2))
    for d in full:
        yield (d, one)
        yield (d, onesl + colls)
    nxt = [d for d in small_docs(4 if thorough else 3)][len(list(small_docs(3 if thorough else 2))):]
    for d in nxt:
        extra = onesl + colls
        yield (d, rng.sample(one, 400 if thorough else 120) + rng.sample(extra, min(len(extra), 30 if thorough else 10)))
    # 2. special docs x every (thorough) / sampled (quick) 2-segment path over the small vocabulary
    two = [join_dot([s, t]) for s in vocab_small for t in vocab_small]
    twos = [to_slash([s, t]) for s in vocab_small for t in vocab_small]
    for d in list(SPECIAL_DOCS):
        k = len(two) if thorough else 1500
        for part in chunk_list(rng.sample(two, min(k, len(two))), 800):
            yield (d, part)
        yield (d, rng.sample(twos, min(k // 3, len(twos))))
    for d in small_docs(3):
        yield (d, rng.sample(two, 400 if thorough else 40) + rng.sample(twos, 100 if thorough else 10))
    # 3. 4- and 5-node trees x sampled 2-segment paths over the rich vocabulary
    for d in small_docs(5 if thorough else 4):
        if not thorough and rng.random() < 0.5:
            continue
        parts = [join_dot([rng.choice(vocab), rng.choice(vocab)]) for _ in range(8 if thorough else 4)]
        yield (d, parts)
    # 4. random larger documents x random longer paths
    nrand = 15000 if thorough else 2500
    for _ in range(nrand):
        d = random_doc(rng)
        paths = [random_path(rng, vocab, 5) for _ in range(12)]
        yield (d, paths)
    # 5. deep documents (RecursionError must not surface)
    for n in (50, 200, 400):
        for kind in ("seq", "map", "mix"):
            yield (deep_doc(n if kind != "mix" else n // 2, kind), ["**", "a", "[0]", "**.a", "**[.=1]", "*", "a.**"])


def chunks_by_weight(cases, budget=2500):
    """Group cases into chunks of roughly `budget` paths."""
    buf, w = [], 0
    for c in cases:
        buf.append(c)
        w += len(c[1])
        if w >= budget:
            yield buf
            buf, w = [], 0
    if buf:
        yield buf


# ---------------------------------------------------------------- domain helpers for the judges
def scalar_operands(doc, path, mode):
    """True when every node selected by every collector operand evaluated during this query is a
    scalar (C15: 'collectors limited to operands selecting scalars').  Instrumented re-run."""
    E = _ENV
    from yamlpath.enums import PathSegmentTypes
    state = {"nonscalar": False}

    def has_container(u):
        if isinstance(u, list) and not (id(u) in ids):
            return any(has_container(x) for x in u)
        return is_container(u)

    data = load(doc)
    nodes = []
    all_nodes(data, nodes)
    ids = set(id(n) for n in nodes)

    class P(E["Processor"]):
        def _get_required_nodes(self, data, yaml_path, depth=0, **kw):
            relay = kw.get("relay_segment")
            watch = (depth == 0 and relay is not None and relay[0] is PathSegmentTypes.COLLECTOR)
            for nc in super()._get_required_nodes(data, yaml_path, depth, **kw):
                if watch and has_container(E["NodeCoords"].unwrap_node_coords(nc)):
                    state["nonscalar"] = True
                yield nc

    proc = P(E["log"], data)
    try:
        if mode == "exists":
            proc.exists(path)
        else:
            list(proc.get_nodes(path, mustexist=(mode == "req")))
    except Exception:  # noqa
        pass
    return not state["nonscalar"]


def collector_then_text(path, depth=0):
    """A COLLECTOR-typed segment that carries no collector terms: text glued to a closing parenthesis
    ('(a)b'); known finding F25."""
    E = _ENV
    from yamlpath.enums import PathSegmentTypes
    if depth > 6:
        return False
    try:
        segs = list(E["YAMLPath"](path)._parse_path(True))
    except Exception:  # noqa
        return False
    for (t, a) in segs:
        if t is PathSegmentTypes.COLLECTOR and not isinstance(a, E["CollectorTerms"]):
            return True
        if isinstance(a, E["CollectorTerms"]) and collector_then_text(a.expression, depth + 1):
            return True
        if isinstance(a, E["SearchTerms"]) and collector_then_text(a.attribute, depth + 1):
            return True
    return False


# ---------------------------------------------------------------- optional queries, looked at closely
MODES4 = ("req", "opt", "exists", "optd")


def requests4(case):
    """requests of a module that also observes the optional query with a default value: per path the three
    (eval ...) lines and the (eval opt ...) line once more"""
    doc, paths = case
    ld = LoadedDoc(doc)
    out = []
    for p in paths:
        three = request_lines(ld, p)
        out.extend(three)
        out.append(three[1])
    _CACHE[(doc, tuple(paths))] = ld
    return out


def observe4(case):
    doc, paths = case
    ld = _CACHE.pop((doc, tuple(paths)), None) or LoadedDoc(doc)
    out = []
    for p in paths:
        for m in MODES4:
            line, mutated = observe_one(ld, p, m)
            out.append(line)
            if mutated:
                ld = LoadedDoc(doc)
    return out


def optional_probe(doc, path, default=None):
    """One optional query (get_nodes(mustexist=False, default_value=default)) on a fresh load of `doc`, watched
    from outside the code that decides about creation.  Returns a dict:
      ids      identities (LoadedDoc numbering; -1 = an object the document did not hold) of the yielded nodes,
               or None when the query raised
      changed  the document differs afterwards (deep snapshot) or Nodes.build_next_node was called
      lacking  some segment evaluation made DIRECTLY by the optional walk - one (node, segment) pair the walk
               reached - selected nothing although the segment is one that may be created (not a search, keyword,
               wildcard or traversal): the path does NOT exist in that branch, its tail is missing there.  This is
               the condition of finding F16b; it is read off the segment handlers' own answers, not off the
               walk's bookkeeping
      null_mid a segment other than the last one selected a null node (finding F10: the walk stops there)
    """
    import sys as _sys
    E = _ENV
    T = E["PathSegmentTypes"]
    never = (T.SEARCH, T.KEYWORD_SEARCH, T.MATCH_ALL, T.TRAVERSE)
    st = {"lacking": False, "null_mid": False, "ok": True}
    ld = LoadedDoc(doc)

    class P(E["Processor"]):
        def _get_nodes_by_path_segment(self, data, yaml_path, segment_index, **kw):
            direct = _sys._getframe(1).f_code.co_name == "_get_optional_nodes"
            n = 0
            for nc in super()._get_nodes_by_path_segment(data, yaml_path, segment_index, **kw):
                n += 1
                if direct and isinstance(nc, E["NodeCoords"]) and nc.node is None \
                        and segment_index < len(yaml_path.escaped) - 1:
                    st["null_mid"] = True
                yield nc
            if direct and n == 0:
                try:
                    if yaml_path.escaped[segment_index][0] not in never:
                        st["lacking"] = True
                except Exception:  # noqa
                    pass

    out = {"ids": None, "changed": False, "lacking": False, "null_mid": False}
    E["creations"] = 0
    try:
        res = list(P(E["log"], ld.data).get_nodes(path, mustexist=False, default_value=default))
        ids = []
        for x in res:
            n = x.node if isinstance(x, E["NodeCoords"]) else x
            if isinstance(n, list) and id(n) not in ld.enc.oids:
                ids.append(("virt", tuple(ld.enc.oids.get(id(e.node if isinstance(e, E["NodeCoords"]) else e), -1)
                                          for e in n)))
            else:
                ids.append(ld.enc.oids.get(id(n), -1))
        out["ids"] = ids
    except RecursionError:
        pass
    except Exception:  # noqa
        pass
    out["changed"] = bool(E["creations"]) or ld.snapshot() != ld.sexp
    out["lacking"] = st["lacking"]
    out["null_mid"] = st["null_mid"]
    return out
