"""C14: parsing any text as a YAML Path ends in segments or a YAML Path error.

Case = one Python str.  Observations per case: for each separator setting
(auto, dot, slash): the escaped parse, the unescaped parse, str(); plus
SearchKeywordTerms.parameters on the same text.
"""
import itertools
import random
import signal

from common import hexs, exc_line

CONFIG = {
    "id": "C14",
    "rule": ("every string of length <= 4 (thorough adds length 5 over rotating 12-symbol sub-alphabets) over the "
             "27-symbol alphabet of all syntactically significant characters plus a b 1, then seeded random strings "
             "(character-level, token-level, printable ASCII and non-ASCII) up to length 40; each under "
             "auto/dot/slash separator x escaped parse, unescaped parse, str(); plus SearchKeywordTerms.parameters.  "
             "non-trivial = length >= 2; distinct = distinct text (measured with a hash set)."),
    "trusted_base": [
        "modelled, not verified: yamlpath/yamlpath.py _parse_path/_expand_splats/original setter/"
        "_stringify_yamlpath_segments/ensure_escaped, path/*.py __str__ and parameters, enums' str()",
        "Python str modelled as UTF-8 byte strings: int() on non-ASCII digits, non-ASCII whitespace in strip(), "
        "and non-ASCII case mapping are outside the modelled domain (generators avoid them)",
    ],
    "assumptions": [
        "the model is the code only as far as the correspondence run shows (zero disagreements on the inputs listed in coverage)",
        "forced separator settings are installed by assigning YAMLPath._separator, the field the parser reads "
        "(the constructor argument is overwritten by the `original` setter)",
    ],
}

MODES = ("auto", "dot", "slash")
ALPHABET = ". / \\ [ ] ( ) ' \" & * = ! < > ~ ^ $ % + - , :".split(" ") + [" ", "a", "b", "1"]
assert len(ALPHABET) == 27, len(ALPHABET)
# non-ASCII characters with no case mapping, no digit value, not whitespace
UNI = ["ß", "日", "\U0001F600", "·", "→", "Ж", "²", "①", "¹⁰"]
TOKENS = ALPHABET + ["has_child(", "name()", "parent(", "max(", "min(", "unique(", "distinct(",
                     "=~", "!=", ">=", "<=", "==", "**", "&a", "[&a]", "['", "']", '["', '"]',
                     "\\.", "\\/", "\\[", "\\]", "\\ ", "\\\\", "/x/", "|x|", "[0]", "[1:2]", "[-1]",
                     "[a=b]", "[²]", "[-①]", "(a)", ")+(", ")-(", ")&(", "abc", "_", "0", "9", "\t", "\n", "x*y", "*x", "x*"]


def requests(s):
    h = hexs(s)
    out = []
    for m in MODES:
        out.append("(parse %s true %s)" % (m, h))
        out.append("(parse %s false %s)" % (m, h))
        out.append("(pathstr %s %s)" % (m, h))
    out.append("(kwparams %s)" % h)
    return out


RULE_NAMES = ["escape_next", "capturing_regex", "backslash", "space", "regex_delim", "anchor_mark",
              "collector_operator", "must_be", "quote", "open_paren", "close_keyword", "close_collector",
              "open_bracket", "search_operator", "nested_bracket", "close_bracket", "stray_close_bracket",
              "separator", "append(default)"]


def extra_requests(s):
    # which rule of the model's chain fires at every character (coverage of the model's case structure)
    return ["(rules auto true %s)" % hexs(s)]


def model_stats(s, outs):
    h = {}
    for tok in outs[0].strip("()").split():
        name = "rule%02d_%s" % (int(tok) + 1, RULE_NAMES[int(tok)]) if tok.isdigit() and int(tok) < len(RULE_NAMES) else "rule?" + tok
        h[name] = h.get(name, 0) + 1
    return h


_ENV = {}


def init_worker():
    from yamlpath import YAMLPath
    from yamlpath.enums import PathSeparators, PathSegmentTypes, PathSearchKeywords
    from yamlpath.path import SearchTerms, SearchKeywordTerms, CollectorTerms
    _ENV.update(YAMLPath=YAMLPath, PathSeparators=PathSeparators, SearchTerms=SearchTerms,
                SearchKeywordTerms=SearchKeywordTerms, CollectorTerms=CollectorTerms,
                PathSearchKeywords=PathSearchKeywords,
                seps={"auto": PathSeparators.AUTO, "dot": PathSeparators.DOT, "slash": PathSeparators.FSLASH})


class Deadline(Exception):
    pass


def _alarm(signum, frame):
    raise Deadline()


def seg_line(seg):
    E = _ENV
    t, a = seg
    tn = "NONE" if t is None else t.name
    if isinstance(a, E["SearchTerms"]):
        av = "(search %s %s %s %s)" % ("true" if a.inverted else "false", a.method.name,
                                       hexs(a.attribute), hexs(a.term))
    elif isinstance(a, E["SearchKeywordTerms"]):
        av = "(kw %s %s %s)" % ("true" if a.inverted else "false", a.keyword.name, hexs(a._parameters))
    elif isinstance(a, E["CollectorTerms"]):
        av = "(coll %s %s)" % (a.operation.name, hexs(a.expression))
    elif a is None:
        av = "none"
    elif isinstance(a, bool):
        av = "?bool"
    elif isinstance(a, int):
        av = "i%d" % a
    elif isinstance(a, str):
        av = hexs(a)
    else:
        av = "?%s" % type(a).__name__
    return "(%s %s)" % (tn, av)


def segs_line(segs):
    return "(ok (%s))" % " ".join(seg_line(x) for x in segs)


def make_path(s, mode):
    E = _ENV
    p = E["YAMLPath"](s)
    if mode != "auto":
        # the constructor's pathsep argument is reset by the `original` setter,
        # and the public separator setter parses before switching; the parser
        # itself only reads self.separator, so set the field it reads.
        p._separator = E["seps"][mode]
    return p


def observe(s):
    out = []
    signal.signal(signal.SIGALRM, _alarm)
    for m in MODES:
        for what in ("esc", "unesc", "str"):
            signal.setitimer(signal.ITIMER_REAL, 10.0)
            try:
                p = make_path(s, m)
                if what == "esc":
                    line = segs_line(p._parse_path(True))
                elif what == "unesc":
                    line = segs_line(p._parse_path(False))
                else:
                    line = "(ok %s)" % hexs(str(p))
            except Deadline:
                line = "(raise (crash Timeout))"
            except Exception as e:  # noqa
                line = exc_line(e)
            finally:
                signal.setitimer(signal.ITIMER_REAL, 0)
            out.append(line)
    try:
        t = _ENV["SearchKeywordTerms"](False, _ENV["PathSearchKeywords"].NAME, s)
        out.append("(ok (%s))" % " ".join(hexs(x) for x in t.parameters))
    except Exception as e:  # noqa
        out.append(exc_line(e))
    return out


def judge(s, obs):
    """The property on the implementation's own observations."""
    for i, line in enumerate(obs[:9]):
        if not (line.startswith("(ok") or line == "(raise ype)"):
            return "parse/str under %s (%s) ended in %s" % (MODES[i // 3], ("escaped", "unescaped", "str")[i % 3], line)
    return None


def classify(s, obs):
    kinds = "".join("o" if l.startswith("(ok") else ("y" if l == "(raise ype)" else "X") for l in obs[:3])
    return "len%02d:%s" % (min(len(s), 41), kinds)


def nontrivial(s, obs):
    return len(s) >= 2


def key(s):
    return s


def describe(s):
    return {"text": s, "hex": hexs(s)}


FINDING_PREDS = {}


# texts of repaired parser defects (F30: tangled brackets / parentheses; F21: escaped or regex quote-wrapped search
# terms; F25: text glued to a collector) - too long for the exhaustive part, run first on every tier
WITNESSES = ["[(a)]", "a[(b)]", "(][max(())]", "[a=(b)]", "[a='(b)']", "[a='(b)'=c]", "[a=[b(c)]=d]", "[max()\\])",
             "[max('a)]]", "[max(])", "'a]'", "(a])", "(a[0])", "[a=[b]]", "[a=\\']", "[a=\\'x\\']", "[a=~/'x'/]",
             "[a='x']", "[a='x\\'']", "[' '=\\'x\\']", "[a=\"'x'\"]", "[a='x'<\\'y\\']", "(a)b", "(a)'b'", "a.(&b)",
             "[max(\\')]"]


def chunks(tier, seed):
    yield list(WITNESSES)
    L = 4
    size = 1500
    buf = []
    for n in range(0, L + 1):
        for tup in itertools.product(ALPHABET, repeat=n):
            buf.append("".join(tup))
            if len(buf) >= size:
                yield buf
                buf = []
    if tier == "thorough":
        # length 5 over rotating 12-symbol sub-alphabets (always containing the brackets)
        rng = random.Random(seed * 7919 + 5)
        core = ["[", "]", "(", ")", "\\", "'"]
        rest = [c for c in ALPHABET if c not in core]
        for _ in range(4):
            sub = core + rng.sample(rest, 6)
            for tup in itertools.product(sub, repeat=5):
                buf.append("".join(tup))
                if len(buf) >= size:
                    yield buf
                    buf = []
    rng = random.Random(seed)
    nrand = 400000 if tier == "thorough" else 40000
    pool_chars = ALPHABET * 3 + [chr(c) for c in range(32, 127)] + UNI + ["\t", "\n", "\x00", "\x7f"]
    for i in range(nrand):
        k = i % 4
        if k == 0:
            s = "".join(rng.choice(ALPHABET) for _ in range(rng.randint(5, 12)))
        elif k == 1:
            s = "".join(rng.choice(TOKENS) for _ in range(rng.randint(1, 10)))
        elif k == 2:
            s = "".join(rng.choice(pool_chars) for _ in range(rng.randint(1, 40)))
        else:
            s = "".join(rng.choice(TOKENS + UNI) for _ in range(rng.randint(1, 14)))
        buf.append(s)
        if len(buf) >= size:
            yield buf
            buf = []
    if buf:
        yield buf


def undescribe(d):
    return d["text"]
