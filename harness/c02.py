"""C02: every result locates its node -- parent[parentref] is the node, the
ancestry chain walks from the root to it, and re-evaluating the reported path
returns that node and no other.

Case = (document text, [paths]); per path three observations compared with the
model (each NodeCoords with parent identity, parentref, reported path as parsed
segments, ancestry).  The judge works on the live objects returned by the real
Processor (required query): for every result that designates a real document
node it indexes the real parent, walks the real ancestry and re-queries
str(result.path) in both notations.
"""
import random
import re as _re

import evalcommon as ec
from evalcommon import init_worker, requests, describe, undescribe, key  # noqa: F401

CONFIG = {
    "id": "C02",
    "rule": ("the C01 stream (documents x paths of the fragment, both notations) plus documents whose keys contain "
             "every character the path syntax escapes (. / [ ] ( ) ' \" space ^ $ % \\\\ & and leading /), anchors and "
             "aliases, 80 edge-shaped keys (blank-edged, numeric-looking, bracket-led, operators, quotes, back-slashes) "
             "each at four positions with siblings, and seeded random keys over the punctuation alphabet; every result "
             "of every required query is checked.  non-trivial = some result was checked; "
             "distinct = distinct (document, path list)."),
    "trusted_base": [
        "modelled, not verified: yamlpath/processor.py 811-2627 (coordinates built by every handler), "
        "wrappers/nodecoords.py, YAMLPath.__add__/append/escape_path_section",
        "re-resolution of reported paths runs on the real code only (the model side compares the reported path as "
        "parsed segments); keyword-search results (has_child, parent, ...) are another module's",
    ],
    "assumptions": [
        "the model is the code only as far as the correspondence run shows",
        "virtual results (slices, collectors) are excluded as the property says",
    ],
}

ESC_DOCS = [
    "{'a.b': {'c.d': 1}, 'e/f': {'g/h': 2}, 'i j': [3, {'k l': 4}]}",
    "{'[x]': 1, '(y)': {'[z]': 2}, \"q'\": 3, 'r\"': 4, 'a^': 5, 'b$': 6, 'c%': 7, '&d': {'&e': 8}}",
    "{'/lead': {'/x': 1}, 'tr/': 2, '.dot': {'.x': 3}, 'back\\\\slash': 4, ' sp': 5, 'sp ': 6}",
    "[{'a.b': 1}, {'a.b': 2, 'c/d': [3]}]",
    "{a: &anc {b: 1}, c: *anc, d: [*anc, &s x, *s]}",
    "{'*': 1, '**': 2, 'a*': 3, '=': 4, '!': 5, '~': 6, '<': 7, '>': 8, ',': 9, ':': 10, '-1': 11, '0': 12}",
    "s: !!set\n  ? a.b\n  ? c/d\n  ? 'e f'\n",
]
ESC_PATHS = ["*", "**", "*.*", "**.*", "/*", "/**", "[.!=zzz]", "*[.!=zzz]", "**[.!=zzz]", "[.=~/./]", "*.*.*",
             "[0]", "[0].*", "*[0]", "[&anc]", "*[&s]", "**[&anc]", "a", "c", "d.*", "s.*", "s[.%/]", "[a:zz]"]

_FAIL = {}


def node_desc(ld, x):
    k = id(x)
    return "#%d" % ld.enc.oids[k] if k in ld.enc.oids else type(x).__name__


def check_result(ld, nc, path):
    """-> None | (message, kind)"""
    E = ec._ENV
    node = nc.node
    if isinstance(node, E["NodeCoords"]):
        return None
    if isinstance(node, list) and id(node) not in ld.enc.oids:
        return None                     # virtual result
    if id(node) not in ld.enc.oids:
        return None
    ptxt = nc.path.original if nc.path is not None else ""
    try:
        nseg = len(E["YAMLPath"](ptxt).escaped)
    except Exception:  # noqa
        nseg = -1
    if any(id(a) not in ld.enc.oids for (a, _r) in nc.ancestry) or \
            (nc.parent is not None and id(nc.parent) not in ld.enc.oids):
        return None                     # reached through a virtual (slice) result
    odd = odd_along(nc)
    if nc.parent is None:
        if node is ld.data:
            return None                 # the document root has no parent
        return ("result %s of %r has no parent" % (node_desc(ld, node), path), None)
    par, ref = nc.parent, nc.parentref
    try:
        if ec.docenc.is_set(par):
            ok = any(e is node for e in par)
        elif isinstance(par, (dict, list)):
            ok = par[ref] is node
        else:
            ok = False
    except Exception:  # noqa
        ok = False
    if not ok:
        return ("parent[parentref] is not the node for result %s of %r (parentref %r)"
                % (node_desc(ld, node), path, ref), None)
    # ancestry
    cur = ld.data
    okc = True
    for (a, r) in nc.ancestry:
        if a is not cur:
            okc = False
            break
        try:
            if ec.docenc.is_set(a):
                nxt = [e for e in a if e is r or e == r]
                cur = nxt[0]
            else:
                cur = a[r]
        except Exception:  # noqa
            okc = False
            break
    if not okc or cur is not node:
        return ("the ancestry chain of result %s of %r does not walk from the root to it" % (node_desc(ld, node), path),
                None)
    # the reported path resolves to that node and no other, in both notations
    from yamlpath.enums import PathSeparators
    for sepname in ("DOT", "FSLASH"):
        try:
            yp = E["YAMLPath"](nc.path)
            yp.separator = PathSeparators[sepname]
            txt = str(yp)
        except Exception as e:  # noqa
            return ("str(path) of result %s of %r raises %s" % (node_desc(ld, node), path, type(e).__name__),
                    "escape" if odd else None)
        try:
            back = list(E["Processor"](E["log"], ld.data).get_nodes(txt, mustexist=True))
        except Exception as e:  # noqa
            return ("re-query of %r (reported for result %s of %r) raises %s"
                    % (txt, node_desc(ld, node), path, type(e).__name__), "escape" if odd else None)
        if not back or any(b.node is not node for b in back) or (len(back) > 1 and "&" not in txt):
            kind = "escape" if odd else None
            if kind is None and "&" in txt and any(b.node is node for b in back):
                kind = "anchor"
            return ("re-query of %r (reported for result %s of %r) returns %s"
                    % (txt, node_desc(ld, node), path, [node_desc(ld, b.node) for b in back]), kind)
    return None


_TAKEN_FOR_ESCAPED = _re.compile(r"""\\[\\./()\[\]^$% '"]""")


def odd_ref(r, first):
    """a key / member that escape_path_section cannot protect, so that the reported path does not lead back
    (finding F26) - exactly the classes that fail on the unchanged library: not a string (other than int); the
    empty string; a leading anchor mark '&'; a '*' anywhere (re-read as a wildcard); a back-slash in front of a
    character escape_path_section escapes (ensure_escaped takes the pair for an escape it already made); and, for
    the FIRST segment of the path only, a leading '/' (the text then reads as forward-slash notation) and a key made
    only of white space other than the blank ' ' (a tab: only ' ' is escaped, so the whole path text is blank and
    YAMLPath takes it for the empty = root path).
    Keys that merely contain or start / end with escapable characters - blanks at either end included - are
    escaped correctly today and are NOT in this class."""
    if not isinstance(r, str):
        return not isinstance(r, int) or isinstance(r, bool)
    return (r == "" or r[0] == "&" or "*" in r or _TAKEN_FOR_ESCAPED.search(r) is not None
            or (first and (r[0] == "/" or (r.isspace() and " " not in r))))


def odd_along(nc):
    for j, (a, r) in enumerate(nc.ancestry):
        if isinstance(a, dict):
            if odd_ref(r, j == 0) or (isinstance(r, int) and not isinstance(r, bool) and str(r) in a):
                return True
        elif ec.docenc.is_set(a):
            if odd_ref(r, j == 0) or not isinstance(r, str):   # a set member is only ever compared with the key TEXT
                return True
    return False


def observe(case):
    doc, paths = case
    obs = ec.observe(case)
    ld = ec.LoadedDoc(doc)
    fails = []
    checked = 0
    E = ec._ENV
    for i, p in enumerate(paths):
        if not obs[3 * i].startswith("(ok ("):
            continue
        try:
            res = list(E["Processor"](E["log"], ld.data).get_nodes(p, mustexist=True))
        except Exception:  # noqa
            continue
        for nc in res:
            checked += 1
            r = check_result(ld, nc, p)
            if r is not None and len(fails) < 60:
                # every failing result counts (no stopping at the first one of a path: a result that a listed
                # finding explains must not hide a later one that nothing explains)
                fails.append(r)
    _FAIL[(doc, tuple(paths))] = (fails, checked)
    return obs


def _fails(case, obs):
    k = (case[0], tuple(case[1]))
    if k not in _FAIL:
        observe(case)
    return _FAIL[k]


def judge(case, obs):
    fails, _ = _fails(case, obs)
    for msg, kind in fails:
        if kind is None:
            return msg            # name a failure no listed finding's condition covers, when there is one
    return fails[0][0] if fails else None


def f_escape(case, obs):
    """every failure of the case is a reported path that does not resolve back, and the path to that result goes
    through a key or set member of the classes listed at odd_ref (what escape_path_section cannot protect today)"""
    fails, _ = _fails(case, obs)
    return bool(fails) and all(k is not None for _, k in fails) and any(k == "escape" for _, k in fails)


def f_anchor(case, obs):
    """every failure is explained by a listed finding, at least one is a reported [&anchor] path that also
    matches OTHER nodes (an anchored key yields its value, and an alias of that key elsewhere is matched as a
    value)"""
    fails, _ = _fails(case, obs)
    return bool(fails) and all(k is not None for _, k in fails) and any(k == "anchor" for _, k in fails)


FINDING_PREDS = {"odd_key_path": f_escape, "anchor_path_matches_others": f_anchor}


def classify(case, obs):
    k = (case[0], tuple(case[1]))
    checked = _FAIL.get(k, ([], 0))[1]
    return "checked:%s" % ("0" if checked == 0 else ("1-9" if checked < 10 else "10+"))


def nontrivial(case, obs):
    k = (case[0], tuple(case[1]))
    return _FAIL.get(k, ([], 0))[1] > 0


def corpus_chunks():
    yield [("{x: [{a: 1}]}", ["x.a", "x.*.a"]), ("{x: [{a: 1}, [2, 3]]}", ["**"]),
           ("s: !!set\n  ? a\n  ? b\n", ["s.*", "**", "s.a"]),
           ("[ab, {a: -1}, 1]", ["[-9:1][.=ab]", "[0:2][.=ab]", "[1:3][.=1]"])]


# keys of every escapable / syntactically meaningful shape, each in its own small documents (top level, below a
# key, below a list element, as a set member; always with siblings, so that a path re-read as a wildcard or as
# another key shows) - single cases, a failing one is a minimal replay
EDGE_KEYS = ["sp ", " sp", " both ", " ", "  ", "a b", "a  b ", "", "1", "-1", "+1", "1_0", "01", "1.5", "/lead", "tr/",
             "//", "&d", "a&b", "*", "a*", "*a", "**", "[x", "x[", "(y", "y(", "]", ")", "[0]", "(a)", "back\\slash",
             "\\", "a\\", "\\a", "a\\.b", "a\\/b", "a\\\\b", "a\\ b", "a\\[", "a.b", "a/b", ".dot", "dot.", "'q",
             "q'", "'q'", '"q', 'q"', "=", "!", "a=b", "a!b", "~", "<", ">", ",", ":", "^a", "a^", "a$", "$a", "%", "a%b",
             "true", "null", "{", "}", "#", "@", "0", "x y z", "\t", "\ta", "a\t", "a\tb", " \t", "\n", " .", ". ", "a. b", "[ ]",
             "é "]


def yq(k):
    """a key text as a YAML double-quoted scalar"""
    import json
    return json.dumps(k, ensure_ascii=False)


def path_parses(k):
    """the path text the library reports for key k parses at all.  Keys for which it does not (a back-slash in
    front of a bracket, parenthesis or quote: the escaper takes the pair for an escape it already made and the
    demarcation stays open) are kept out of the generated stream: model and implementation agree on them - both
    report a YAML Path error for the reported path - but the shared comparison does not canonicalise an error
    family nested inside a result line, so the lines differ in spelling only."""
    try:
        from yamlpath import YAMLPath
        from yamlpath.enums import PathSeparators
        for sep in (PathSeparators.DOT, PathSeparators.FSLASH):
            list(YAMLPath(YAMLPath.escape_path_section(k, sep))._parse_path(True))
        return True
    except Exception:  # noqa
        return False


def edge_cases():
    for k in EDGE_KEYS:
        if not path_parses(k):
            continue
        q = yq(k)
        yield ("{zz: 6, %s: 5}" % q, ["*"])
        yield ("{zz: 6, %s: 5, a1: 7}" % q, ["/*", "**"])
        yield ("{zz: {x: 6}, %s: {x: 5, %s: 4}, a1: {x: 7}}" % (q, q), ["*.x", "**", "/*/*"])
        yield ("{o: {zz: 6, %s: 5, a1: 7}}" % q, ["o.*", "/o/*", "**"])
        yield ("[{zz: 6, %s: [5, {%s: 4}], a1: 7}]" % (q, q), ["[0].*", "**", "*.*[0]"])
        yield ("s: !!set\n  ? zz\n  ? %s\n  ? a1\n" % q, ["s.*", "**"])


KEY_ALPHABET = "aab1 ./\\[]()'\"^$%&*=!~<>,:{}#-+_ "


def random_key(rng):
    while True:
        n = rng.choice([1, 1, 2, 2, 3, 4])
        k = "".join(rng.choice(KEY_ALPHABET) for _ in range(n))
        if path_parses(k):
            return k


def random_key_doc(rng, depth=0):
    r = rng.random()
    if depth >= 3 or r < 0.3:
        return rng.choice(["1", "x", "null", "'y z'"])
    if r < 0.8:
        ks = []
        for _ in range(rng.randint(1, 3)):
            k = random_key(rng)
            if k not in ks:
                ks.append(k)
        return "{" + ", ".join("%s: %s" % (yq(k), random_key_doc(rng, depth + 1)) for k in ks) + "}"
    return "[" + ", ".join(random_key_doc(rng, depth + 1) for _ in range(rng.randint(1, 2))) + "]"


def chunks(tier, seed):
    thorough = tier == "thorough"
    rng = random.Random(seed * 7 + 2)

    def gen():
        for c in edge_cases():
            yield c
        for _ in range(4000 if thorough else 500):
            d = random_key_doc(rng)
            if d[0] in "{[":
                yield (d, ["**", "*", "*.*", "/**"])
        for d in ESC_DOCS:
            yield (d, ESC_PATHS)
        for i, (d, paths) in enumerate(ec.gen_cases(tier, seed, with_collectors=False)):
            ps = [p for p in paths if "(" not in p]
            if ps and i % (2 if thorough else 3) == 0:
                yield (d, ps)
    return ec.chunks_by_weight(gen(), 1500)
