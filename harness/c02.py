"""C02: every result locates its node -- parent[parentref] is the node, the
ancestry chain walks from the root to it, and re-evaluating the reported path
returns that node and no other.

Case = (document text, [paths]); per path three observations compared with the
model (each NodeCoords with parent identity, parentref, reported path as parsed
segments, ancestry).  The judge works on the live objects returned by the real
Processor (required query): for every result that designates a real document
node it indexes the real parent, walks the real ancestry and re-queries
str(result.path) in both notations.
"""
import random

import evalcommon as ec
from evalcommon import init_worker, describe, undescribe, key  # noqa: F401
from common import hexs

CONFIG = {
    "id": "C02",
    "rule": ("the C01 stream (documents x paths of the fragment, both notations) plus documents whose keys contain "
             "every character the path syntax escapes (. / [ ] ( ) ' \" space ^ $ % \\\\ & and leading /), anchors and "
             "aliases, 80 edge-shaped keys (blank-edged, numeric-looking, bracket-led, operators, quotes, back-slashes) "
             "each at four positions with siblings and below [parent()] / [has_child()] segments, and seeded random keys "
             "over the punctuation alphabet; every result of every required query is checked.  non-trivial = some result was checked; "
             "distinct = distinct (document, path list)."),
    "trusted_base": [
        "modelled, not verified: yamlpath/processor.py 811-2627 (coordinates built by every handler), "
        "wrappers/nodecoords.py, YAMLPath.__add__/append/escape_path_section",
        "re-resolution of reported paths runs on the real code only (the model side compares the reported path as "
        "parsed segments); keyword-search results are generated here only for [parent()] / [has_child()] over the "
        "edge-key documents, the keyword handlers themselves are C13's / C15's",
    ],
    "assumptions": [
        "the model is the code only as far as the correspondence run shows",
        "virtual results (slices, collectors) are excluded as the property says",
    ],
}

ESC_DOCS = [
    "{'a.b': {'c.d': 1}, 'e/f': {'g/h': 2}, 'i j': [3, {'k l': 4}]}",
    "{'[x]': 1, '(y)': {'[z]': 2}, \"q'\": 3, 'r\"': 4, 'a^': 5, 'b$': 6, 'c%': 7, '&d': {'&e': 8}}",
    "{'/lead': {'/x': 1}, 'tr/': 2, '.dot': {'.x': 3}, 'back\\\\slash': 4, ' sp': 5, 'sp ': 6}",
    "[{'a.b': 1}, {'a.b': 2, 'c/d': [3]}]",
    "{a: &anc {b: 1}, c: *anc, d: [*anc, &s x, *s]}",
    "{'*': 1, '**': 2, 'a*': 3, '=': 4, '!': 5, '~': 6, '<': 7, '>': 8, ',': 9, ':': 10, '-1': 11, '0': 12}",
    "s: !!set\n  ? a.b\n  ? c/d\n  ? 'e f'\n",
]
KEY_DOCS = [
    # a back-slash before every kind of character, doubled back-slashes, trailing back-slash
    r"""{'a\)b': 1, 'c\^d': 2, 'e\$f': 3, 'g\%h': 4, 'i\': 5, 'j\k': 6, 'l\.m': 7, 'n\/o': 8, 'p\(q': 9, 'r\[s': 10, """
    r"""'t\]u': 11, 'v\ w': 12, "x\\'y": 13, 'z\\z': 14, 'b\\': 15, "q\\\"r": 16}""",
    """{' ': {' ': 1}, '  lead': 2, 'trail  ': 3, "\\t": {"\\t": 4}, '(p': 5, '[b': 6, ']c': 7, ')d': 8, '+1': 9, '1_0': 10}""",
    "{5: five, '2': two, 3: three, '3': string-three, -4: minus, true: yes, 1.5: float, null: nothing}",
    "[{'a.b': [[{'c/d': [1, {'e f': 2}]}]]}, [[3]]]",
    "s: !!set\n  ? a\n  ? 'b*'\n  ? '&c'\n  ? 'd\\.e'\n  ? 7\n",
]
def py_escape(section, sepc):
    """YAMLPath.escape_path_section re-implemented (so that generating cases needs no repository import)"""
    escaped = section
    for symbol in ["\\", sepc, "(", ")", "[", "]", "^", "$", "%", " ", "'", '"']:
        rt = "\\" + symbol
        escaped = rt.join(part.replace(symbol, rt) for part in escaped.split(rt))
    return escaped


def straight_text(loc, sepname):
    """the text of a location given as a list of keys (str, or ('k', int)) and positions (('i', n))"""
    sepc = "." if sepname == "dot" else "/"
    out = "/" if sepname == "slash" else ""
    first = True
    for r in loc:
        if isinstance(r, tuple) and r[0] == "i":
            out += "[%d]" % r[1]
        else:
            k = str(r[1]) if isinstance(r, tuple) else r
            out += ("" if first else sepc) + py_escape(k, sepc)
        first = False
    return out


# straight key / index paths into the documents above: every handler of a KEY / INDEX segment sees keys with
# every escapable character (the wildcard paths of ESC_PATHS reach them through other handlers only)
STRAIGHT = {
    ("E", 0): [["a.b", "c.d"], ["e/f", "g/h"], ["i j", ("i", 1), "k l"], ["i j", ("i", 0)]],
    ("E", 1): [["[x]"], ["(y)", "[z]"], ["q'"], ['r"'], ["a^"], ["b$"], ["c%"], ["&d", "&e"]],
    ("E", 2): [["/lead", "/x"], ["tr/"], [".dot", ".x"], ["back\\slash"], [" sp"], ["sp "]],
    ("E", 3): [[("i", 0), "a.b"], [("i", 1), "c/d", ("i", 0)]],
    ("K", 0): [[k] for k in ["a\\)b", "c\\^d", "e\\$f", "g\\%h", "i\\", "j\\k", "l\\.m", "n\\/o", "p\\(q", "r\\[s", "t\\]u",
                             "v\\ w", "x\\'y", "z\\\\z", "b\\\\", 'q\\"r']],
    ("K", 1): [[" ", " "], ["  lead"], ["trail  "], ["\t", "\t"], ["(p"], ["[b"], ["]c"], [")d"], ["+1"], ["1_0"]],
    ("K", 2): [[("k", 5)], ["2"], [("k", 3)], ["3"], [("k", -4)]],
    ("K", 3): [[("i", 0), "a.b", ("i", 0), ("i", 0), "c/d", ("i", 1), "e f"], [("i", 1), ("i", 0), ("i", 0)]],
    ("K", 4): [["s", "a"], ["s", "b*"], ["s", "&c"], ["s", "d\\.e"]],
}


def straight_paths(kind, idx):
    out = []
    for loc in STRAIGHT.get((kind, idx), []):
        for sepname in ("dot", "slash"):
            t = straight_text(loc, sepname)
            if t not in out:
                out.append(t)
    return out


ESC_PATHS = ["*", "**", "*.*", "**.*", "/*", "/**", "[.!=zzz]", "*[.!=zzz]", "**[.!=zzz]", "[.=~/./]", "*.*.*",
             "[0]", "[0].*", "*[0]", "[&anc]", "*[&s]", "**[&anc]", "a", "c", "d.*", "s.*", "s[.%/]", "[a:zz]",
             # a traversal FOLLOWED by a segment, in forward-slash notation, through keys holding the other
             # notation's separator (seed C02_4: the hash branch escaped with the query's separator)
             "/**/*", "/**/c.d", "/**/.x", "/**/g\\/h", "/**/k l", "/**[.!=zzz]", "**.c\\.d", "/**/b"]

_FAIL = {}


def node_desc(ld, x):
    k = id(x)
    return "#%d" % ld.enc.oids[k] if k in ld.enc.oids else type(x).__name__


# ---- the guard of C02_path_resolves_partial (Model/PathBuild.v), mirrored; tied to the extracted
# ---- pb_safe / safe_key on every checked result (requests "pb-safe") ----
HARD = "([] '\""


def py_safe_key(k, sepc):
    """PathBuild.safe_key: non-empty, no '*', no leading '&', no back-slash directly before a back-slash,
    the separator, ( [ ] blank or a quote"""
    if k == "" or "*" in k or k[0] == "&":
        return False
    bad = "\\" + sepc + HARD
    return not any(c == "\\" and k[i + 1] in bad for i, c in enumerate(k[:-1]))


def py_has_ns(t):
    return any(not (9 <= ord(c) <= 13 or 28 <= ord(c) <= 32) for c in t)


def py_safe(sepname, data, loc):
    """PathBuild.pb_safe for a location given as [(kind, ref)] with kind K (mapping key) / I (index) / E (member)"""
    E = ec._ENV
    sepc = "." if sepname == "dot" else "/"
    if data is None:
        return False
    cur = data
    for kind, r in loc:
        if kind == "I":
            if not isinstance(cur, list) or not (0 <= r < len(cur)):
                return False
            cur = cur[r]
        elif kind == "K":
            if not isinstance(cur, dict):
                return False
            if isinstance(r, str):
                if not py_safe_key(str.__str__(r), sepc):
                    return False
            elif isinstance(r, int) and type(r) is not bool:
                if any(isinstance(k, str) and str.__str__(k) == str(int(r)) for k in cur):
                    return False
            else:
                return False
            if r not in cur:
                return False
            cur = cur[r]
        else:
            if not ec.docenc.is_set(cur) or not isinstance(r, str) or not py_safe_key(str.__str__(r), sepc):
                return False
            hit = [m for m in cur if m == r]
            if not hit:
                return False
            cur = hit[0]
    if sepname == "dot" and loc and loc[0][0] in ("K", "E"):
        k = str(loc[0][1])
        if k[:1] == "/":
            return False
        from yamlpath.enums import PathSeparators
        if not py_has_ns(E["YAMLPath"].escape_path_section(k, PathSeparators.DOT)):
            return False
    return True


def loc_of(nc):
    """the location of a result, read off its ancestry: [(kind, ref)]"""
    out = []
    for (a, r) in nc.ancestry:
        if isinstance(a, dict):
            out.append(("K", r))
        elif ec.docenc.is_set(a):
            out.append(("E", r))
        else:
            # a query by a negative index records the index as written; the location is the normalised position
            out.append(("I", r + len(a) if isinstance(r, int) and r < 0 else r))
    return out


def straight(nc):
    """the reported path is the text of the location: KEY / INDEX segments only, no negative index"""
    return plain_segments(nc.path.original) and \
        not any(isinstance(a, list) and isinstance(r, int) and r < 0 for (a, r) in nc.ancestry)


def loc_sexp(loc):
    return "(%s)" % " ".join(
        "(I i%d)" % r if kind == "I" else "(%s %s)" % (kind, ec.docenc.pyval_sexp(r)) for kind, r in loc)


def plain_segments(txt):
    """the path text consists of KEY and INDEX segments only (no [&anchor], slice, search ...)"""
    from yamlpath.enums import PathSegmentTypes
    try:
        return all(t in (PathSegmentTypes.KEY, PathSegmentTypes.INDEX) and (t is PathSegmentTypes.KEY or isinstance(a, int))
                   for (t, a) in ec._ENV["YAMLPath"](txt).escaped)
    except Exception:  # noqa
        return False


def located_results(ld, paths, limit):
    """[(path, nc, loc)] for the results of the required queries that designate a real node reached through real
    containers (what check_result looks at), at most `limit` per case (None = all)"""
    E = ec._ENV
    out = []
    for p in paths:
        try:
            res = list(E["Processor"](E["log"], ld.data).get_nodes(p, mustexist=True))
        except Exception:  # noqa
            continue
        for nc in res:
            if limit is not None and len(out) >= limit:
                return out
            node = nc.node
            if isinstance(node, E["NodeCoords"]) or id(node) not in ld.enc.oids or nc.parent is None:
                continue
            if any(id(a) not in ld.enc.oids for (a, _r) in nc.ancestry) or id(nc.parent) not in ld.enc.oids:
                continue
            try:
                loc = loc_of(nc)
                loc_sexp(loc)
            except Exception:  # noqa
                continue
            out.append((p, nc, loc))
    return out


_EDGE_DOCS = []


def pb_limit(case):
    """every result of the escapable-key, guard-stress and edge-key documents (short texts), two of any other case"""
    if not _EDGE_DOCS:
        _EDGE_DOCS.append(set(d for d, _ in edge_cases()))
    return None if case[0] in ESC_DOCS or case[0] in KEY_DOCS or case[0] in _EDGE_DOCS[0] else 2


def pb_requests(ld, case):
    """model requests for the located results: the append-form text, the guard in both notations, and - when the
    guard holds - the text str() shows"""
    out = []
    for (_p, nc, loc) in located_results(ld, case[1], pb_limit(case)):
        ls = loc_sexp(loc)
        if straight(nc):
            out.append("(pb-orig %s)" % ls)
        for sepname in ("dot", "slash"):
            out.append("(pb-safe %s %s %s)" % (sepname, ld.sexp, ls))
        if py_safe("dot", ld.data, loc) and straight(nc):
            out.append("(pb-text dot %s)" % ls)
    return out


def pb_observe(ld, case):
    from yamlpath.enums import PathSeparators
    E = ec._ENV
    out = []
    for (_p, nc, loc) in located_results(ld, case[1], pb_limit(case)):
        if straight(nc):
            out.append("(ok %s)" % hexs(nc.path.original))
        for sepname in ("dot", "slash"):
            out.append("(ok %s)" % ("true" if py_safe(sepname, ld.data, loc) else "false"))
        if py_safe("dot", ld.data, loc) and straight(nc):
            yp = E["YAMLPath"](nc.path)
            yp.separator = PathSeparators.DOT
            out.append("(ok %s)" % hexs(str(yp)))
    return out


def requests(case):
    out = ec.requests(case)
    ld = ec.LoadedDoc(case[0])
    return out + pb_requests(ld, case)


def check_result(ld, nc, path):
    """-> None | (message, kind)"""
    E = ec._ENV
    node = nc.node
    if isinstance(node, E["NodeCoords"]):
        return None
    if isinstance(node, list) and id(node) not in ld.enc.oids:
        return None                     # virtual result
    if id(node) not in ld.enc.oids:
        return None
    ptxt = nc.path.original if nc.path is not None else ""
    try:
        nseg = len(E["YAMLPath"](ptxt).escaped)
    except Exception:  # noqa
        nseg = -1
    if any(id(a) not in ld.enc.oids for (a, _r) in nc.ancestry) or \
            (nc.parent is not None and id(nc.parent) not in ld.enc.oids):
        return None                     # reached through a virtual (slice) result
    try:
        loc = loc_of(nc)
        safe_dot = py_safe("dot", ld.data, loc)
        safe_by = {"DOT": safe_dot, "FSLASH": safe_dot and py_safe("slash", ld.data, loc)}
    except Exception:  # noqa
        safe_by = {"DOT": False, "FSLASH": False}
    if nc.parent is None:
        if node is ld.data:
            return None                 # the document root has no parent
        return ("result %s of %r has no parent" % (node_desc(ld, node), path), None)
    par, ref = nc.parent, nc.parentref
    try:
        if ec.docenc.is_set(par):
            ok = any(e is node for e in par)
        elif isinstance(par, (dict, list)):
            ok = par[ref] is node
        else:
            ok = False
    except Exception:  # noqa
        ok = False
    if not ok:
        return ("parent[parentref] is not the node for result %s of %r (parentref %r)"
                % (node_desc(ld, node), path, ref), None)
    # ancestry
    cur = ld.data
    okc = True
    for (a, r) in nc.ancestry:
        if a is not cur:
            okc = False
            break
        try:
            if ec.docenc.is_set(a):
                nxt = [e for e in a if e is r or e == r]
                cur = nxt[0]
            else:
                cur = a[r]
        except Exception:  # noqa
            okc = False
            break
    if not okc or cur is not node:
        return ("the ancestry chain of result %s of %r does not walk from the root to it" % (node_desc(ld, node), path),
                None)
    # the reported path resolves to that node and no other, in both notations
    from yamlpath.enums import PathSeparators
    for sepname in ("DOT", "FSLASH"):
        # C02_reported_path_canonical_partial: under the guard the re-query MUST return exactly the node;
        # a failure is attributed to the listed finding only when the guard is false
        odd = not safe_by[sepname]
        try:
            yp = E["YAMLPath"](nc.path)
            yp.separator = PathSeparators[sepname]
            txt = str(yp)
        except Exception as e:  # noqa
            return ("str(path) of result %s of %r raises %s" % (node_desc(ld, node), path, type(e).__name__),
                    "escape" if odd else None)
        try:
            back = list(E["Processor"](E["log"], ld.data).get_nodes(txt, mustexist=True))
        except Exception as e:  # noqa
            return ("re-query of %r (reported for result %s of %r) raises %s"
                    % (txt, node_desc(ld, node), path, type(e).__name__), "escape" if odd else None)
        if not back or any(b.node is not node for b in back) or (len(back) > 1 and "&" not in txt):
            kind = "escape" if odd else None
            if kind is None and "&" in txt and any(b.node is node for b in back):
                kind = "anchor"
            return ("re-query of %r (reported for result %s of %r) returns %s"
                    % (txt, node_desc(ld, node), path, [node_desc(ld, b.node) for b in back]), kind)
    return None


def observe(case):
    doc, paths = case
    obs = ec.observe(case)
    ld = ec.LoadedDoc(doc)
    fails = []
    checked = 0
    E = ec._ENV
    for i, p in enumerate(paths):
        if not obs[3 * i].startswith("(ok ("):
            continue
        try:
            res = list(E["Processor"](E["log"], ld.data).get_nodes(p, mustexist=True))
        except Exception:  # noqa
            continue
        for nc in res:
            checked += 1
            r = check_result(ld, nc, p)
            if r is not None and len(fails) < 60:
                # every failing result counts (no stopping at the first one of a path: a result that a listed
                # finding explains must not hide a later one that nothing explains)
                fails.append(r)
    _FAIL[(doc, tuple(paths))] = (fails, checked)
    return obs + pb_observe(ec.LoadedDoc(doc), case)


def _fails(case, obs):
    k = (case[0], tuple(case[1]))
    if k not in _FAIL:
        observe(case)
    return _FAIL[k]


def judge(case, obs):
    fails, _ = _fails(case, obs)
    for msg, kind in fails:
        if kind is None:
            return msg            # name a failure no listed finding's condition covers, when there is one
    return fails[0][0] if fails else None


def f_escape(case, obs):
    """every failure of the case is a reported path that does not resolve back, and the path to that result goes
    through a key or set member for which the mirrored guard py_safe (= PathBuild.pb_safe, the guard of
    C02_reported_path_canonical_partial) is false in the notation that failed: what escape_path_section cannot
    protect today.  (Branch `judges` had narrowed the older hand-written class list `odd_ref` to the keys that
    fail today; compared on 73 204 results with py_safe and the real re-query, the list was still too wide - a
    back-slash before ) ^ $ % and before the OTHER notation's separator resolves correctly - while no result
    that resolves wrongly had py_safe true, so py_safe is the only rule and the list is gone.)"""
    fails, _ = _fails(case, obs)
    return bool(fails) and all(k is not None for _, k in fails) and any(k == "escape" for _, k in fails)


def f_anchor(case, obs):
    """every failure is explained by a listed finding, at least one is a reported [&anchor] path that also
    matches OTHER nodes (an anchored key yields its value, and an alias of that key elsewhere is matched as a
    value)"""
    fails, _ = _fails(case, obs)
    return bool(fails) and all(k is not None for _, k in fails) and any(k == "anchor" for _, k in fails)


_UNICODE_BLANKS = "\u00a0\u0085\u1680\u2000\u2001\u2002\u2003\u2004\u2005\u2006\u2007\u2008\u2009\u200a\u2028\u2029\u202f\u205f\u3000"


def f_unicode_blank(case, obs):
    """F26b: the document holds a non-ASCII white-space character (a key made only of such characters is
    stripped to nothing by the `original` setter's str.strip()).  The generators do not produce such
    documents - the byte-string model of str.strip() knows ASCII white space only - so this predicate
    only matters for hand-made replays."""
    return any(ch in case[0] for ch in _UNICODE_BLANKS)


FINDING_PREDS = {"odd_key_path": f_escape, "anchor_path_matches_others": f_anchor,
                 "unicode_blank_key": f_unicode_blank}


def classify(case, obs):
    k = (case[0], tuple(case[1]))
    checked = _FAIL.get(k, ([], 0))[1]
    return "checked:%s" % ("0" if checked == 0 else ("1-9" if checked < 10 else "10+"))


def nontrivial(case, obs):
    k = (case[0], tuple(case[1]))
    return _FAIL.get(k, ([], 0))[1] > 0


def corpus_chunks():
    yield [("{x: [{a: 1}]}", ["x.a", "x.*.a"]), ("{x: [{a: 1}, [2, 3]]}", ["**"]),
           ("s: !!set\n  ? a\n  ? b\n", ["s.*", "**", "s.a"]),
           ("[ab, {a: -1}, 1]", ["[-9:1][.=ab]", "[0:2][.=ab]", "[1:3][.=1]"])]


# keys of every escapable / syntactically meaningful shape, each in its own small documents (top level, below a
# key, below a list element, as a set member; always with siblings, so that a path re-read as a wildcard or as
# another key shows) - single cases, a failing one is a minimal replay
EDGE_KEYS = ["sp ", " sp", " both ", " ", "  ", "a b", "a  b ", "", "1", "-1", "+1", "1_0", "01", "1.5", "/lead", "tr/",
             "//", "&d", "a&b", "*", "a*", "*a", "**", "[x", "x[", "(y", "y(", "]", ")", "[0]", "(a)", "back\\slash",
             "\\", "a\\", "\\a", "a\\.b", "a\\/b", "a\\\\b", "a\\ b", "a\\[", "a.b", "a/b", ".dot", "dot.", "'q",
             "q'", "'q'", '"q', 'q"', "=", "!", "a=b", "a!b", "~", "<", ">", ",", ":", "^a", "a^", "a$", "$a", "%", "a%b",
             "true", "null", "{", "}", "#", "@", "0", "x y z", "\t", "\ta", "a\t", "a\tb", " \t", "\n", " .", ". ", "a. b", "[ ]",
             "é "]


def yq(k):
    """a key text as a YAML double-quoted scalar"""
    import json
    return json.dumps(k, ensure_ascii=False)


def path_parses(k):
    """the path text the library reports for key k parses at all.  Keys for which it does not (a back-slash in
    front of a bracket, parenthesis or quote: the escaper takes the pair for an escape it already made and the
    demarcation stays open) are kept out of the generated stream: model and implementation agree on them - both
    report a YAML Path error for the reported path - but the shared comparison does not canonicalise an error
    family nested inside a result line, so the lines differ in spelling only."""
    try:
        from yamlpath import YAMLPath
        from yamlpath.enums import PathSeparators
        for sep in (PathSeparators.DOT, PathSeparators.FSLASH):
            list(YAMLPath(YAMLPath.escape_path_section(k, sep))._parse_path(True))
        return True
    except Exception:  # noqa
        return False


def edge_cases():
    for k in EDGE_KEYS:
        if not path_parses(k):
            continue
        q = yq(k)
        yield ("{zz: 6, %s: 5}" % q, ["*"])
        yield ("{zz: 6, %s: 5, a1: 7}" % q, ["/*", "**"])
        yield ("{zz: {x: 6}, %s: {x: 5, %s: 4}, a1: {x: 7}}" % (q, q), ["*.x", "**", "/*/*"])
        yield ("{o: {zz: 6, %s: 5, a1: 7}}" % q, ["o.*", "/o/*", "**"])
        yield ("[{zz: 6, %s: [5, {%s: 4}], a1: 7}]" % (q, q), ["[0].*", "**", "*.*[0]"])
        yield ("s: !!set\n  ? zz\n  ? %s\n  ? a1\n" % q, ["s.*", "**"])
        # keyword segments below / at the key (the evaluator model answers them since branch evalkw): [parent()]
        # reports a path made by POPPING the last segment of the child's reported path, [has_child()] relays it
        yield ("{zz: {x: 6}, %s: {x: 5, y: {x: 4}}}" % q,
               ["*.x[parent()]", "/*/x[parent()]", "**[parent()]", "*.y.x[parent(2)]", "*[has_child(x)]",
                straight_text([k, "x"], "dot") + "[parent()]", straight_text([k, "y", "x"], "slash") + "[parent()][parent()]"])


KEY_ALPHABET = "aab1 ./\\[]()'\"^$%&*=!~<>,:{}#-+_ "


def random_key(rng):
    while True:
        n = rng.choice([1, 1, 2, 2, 3, 4])
        k = "".join(rng.choice(KEY_ALPHABET) for _ in range(n))
        if path_parses(k):
            return k


def random_key_doc(rng, depth=0):
    r = rng.random()
    if depth >= 3 or r < 0.3:
        return rng.choice(["1", "x", "null", "'y z'"])
    if r < 0.8:
        ks = []
        for _ in range(rng.randint(1, 3)):
            k = random_key(rng)
            if k not in ks:
                ks.append(k)
        return "{" + ", ".join("%s: %s" % (yq(k), random_key_doc(rng, depth + 1)) for k in ks) + "}"
    return "[" + ", ".join(random_key_doc(rng, depth + 1) for _ in range(rng.randint(1, 2))) + "]"


def chunks(tier, seed):
    thorough = tier == "thorough"
    rng = random.Random(seed * 7 + 2)

    def gen():
        for c in edge_cases():
            yield c
        for _ in range(4000 if thorough else 500):
            d = random_key_doc(rng)
            if d[0] in "{[":
                yield (d, ["**", "*", "*.*", "/**"])
        for i, d in enumerate(ESC_DOCS):
            yield (d, ESC_PATHS + straight_paths("E", i))
        for i, d in enumerate(KEY_DOCS):
            yield (d, ESC_PATHS + straight_paths("K", i))
        for i, (d, paths) in enumerate(ec.gen_cases(tier, seed, with_collectors=False)):
            ps = [p for p in paths if "(" not in p]
            if ps and i % (2 if thorough else 3) == 0:
                yield (d, ps)
    return ec.chunks_by_weight(gen(), 1500)
