"""C08: path text and parsed segments round-trip in both notations.

Case = (sep, styled segments, peer, tail):
  sep     "dot" | "slash"
  segs    tuple of styled segments (see GRAMMAR below)
  peer    None | (sep2, segs2)      a second path, for the == clause
  tail    None | styled segment     appended then popped
The text is produced by the reference writer (Spec/C08Spec.v render_ref; its
Python mirror below is compared with the extracted one on every case), parsed
by the real yamlpath, written back by the implementation's own str() in both
notations, re-parsed and re-written.
"""
import itertools
import random
import signal

from common import hexs, exc_line
import c14

CONFIG = {
    "id": "C08",
    "rule": ("styled segment sequences from a grammar of every segment kind (KEY plain/quoted, INDEX, slice, ANCHOR "
             "bare/bracketed, *, **, SEARCH 9 operators x inversion prefix/infix x term escaped/quoted/quoted with nested pairs of the other quote/regex delimiter, "
             "KEYWORD 7 keywords x inversion, COLLECTOR 4 operators with nested expressions): every sequence of length <= 2 "
             "(thorough: <= 3 over a reduced pool) over a pool of representative segments, every single KEY and SEARCH "
             "term text of length <= 2 (thorough <= 3 for keys) over letters, digits and all 13 escapable specials, then "
             "seeded random sequences up to length 8 with random texts up to length 8; both notations; a peer path for ==; "
             "a tail segment for append/pop.  non-trivial = at least 2 segments or a text with an escapable special; "
             "distinct = distinct (sep, rendered text, peer text, tail text)."),
    "trusted_base": [
        "modelled, not verified: yamlpath/yamlpath.py __str__/__eq__/__add__/append/pop/original/separator/escaped/"
        "unescaped/_parse_path/_expand_splats/_stringify_yamlpath_segments/strip_path_prefix/ensure_escaped/"
        "escape_path_section, path/searchterms.py __str__, path/searchkeywordterms.py __str__, path/collectorterms.py "
        "__str__, enums/pathseparators.py infer_separator",
        "the Python mirror of render_ref/wf/wfc in harness/c08.py is compared with the extracted Coq functions on every case",
        "Python str modelled as UTF-8 byte strings (texts are generated from ASCII plus non-ASCII letters without case or "
        "digit value); str.strip() of the whole path text is modelled for ASCII white-space only",
    ],
    "assumptions": [
        "the model is the code only as far as the correspondence run shows (zero disagreements on the inputs listed in coverage)",
        "forced separator settings are installed by assigning YAMLPath._separator, the field the parser reads",
        "SearchTerms.__str__ picks a regex delimiter from a fixed candidate list; a regular expression containing all ten "
        "candidates falls back to the old '/'-with-'\\/' rendering, which is not a fixed point (guard wfc)",
    ],
}

SEPC = {"dot": ".", "slash": "/"}
# quote demarcation; "sqn" / "dqn" (search terms only): the OTHER quote character is written bare, in pairs -- a nested
# demarcation like [b="'x'"] (Spec/C08Spec.v st_nest)
QCH = {"sq": "'", "dq": '"', "sqn": "'", "dqn": '"'}
OTHER = {"sqn": '"', "dqn": "'"}
OPS = {"CONTAINS": "%", "ENDS_WITH": "$", "EQUALS": "=", "STARTS_WITH": "^", "GREATER_THAN": ">", "LESS_THAN": "<",
       "GREATER_THAN_OR_EQUAL": ">=", "LESS_THAN_OR_EQUAL": "<=", "REGEX": "=~"}
COPS = {"NONE": "", "ADDITION": "+", "SUBTRACTION": "-", "INTERSECTION": "&"}
KWS = ["DISTINCT", "HAS_CHILD", "NAME", "MAX", "MIN", "PARENT", "UNIQUE"]
ESCAPABLE = "\\./()[]^$% '\""

# ---------------------------------------------------------------- mirror of Spec/C08Spec.v


def esc_with(specials, text):
    return "".join("\\" + c if c in specials else c for c in text)


def key_specials(sepc):
    return "\\" + sepc + "()[]^$% '\""


QUOTED_SPECIALS = "\\'\"()[]"


def term_specials(q):
    if q is None:
        return OPERAND_SPECIALS
    if q in OTHER:
        return "\\" + QCH[q] + "()[]"
    return QUOTED_SPECIALS


OPERAND_SPECIALS = "\\()[]^$% '\"=!><~"
PARAM_SPECIALS = "\\()[] '\""


def needs_sep(x):
    k = x[0]
    return k in ("KEY", "STAR", "TRAV") or (k == "ANCHOR" and not x[2])


def body(sepc, x):
    k = x[0]
    if k == "KEY":
        _, t, q = x
        return esc_with(key_specials(sepc), t) if q is None else QCH[q] + esc_with(QUOTED_SPECIALS, t) + QCH[q]
    if k == "INDEX":
        return "[%d]" % x[1]
    if k == "SLICE":
        return "[%s]" % x[1]
    if k == "ANCHOR":
        return ("[&%s]" % x[1]) if x[2] else "&" + x[1]
    if k == "STAR":
        return "*"
    if k == "TRAV":
        return "**"
    if k == "SEARCH":
        _, inv, m, attr, term, prefix, q, d = x
        if m == "REGEX":
            tt = d + term + d
        elif q is None:
            tt = esc_with(term_specials(q), term)
        else:
            tt = QCH[q] + esc_with(term_specials(q), term) + QCH[q]
        return ("[" + ("!" if inv and prefix else "") + esc_with(OPERAND_SPECIALS, attr)
                + ("!" if inv and not prefix else "") + OPS[m] + tt + "]")
    if k == "KW":
        _, inv, kw, params = x
        return "[" + ("!" if inv else "") + kw.lower() + "(" + esc_with(PARAM_SPECIALS, params) + ")]"
    if k == "COLL":
        return COPS[x[1]] + "(" + x[2] + ")"
    raise ValueError(x)


def render(sep, segs):
    sepc = SEPC[sep]
    out = "/" if sep == "slash" else ""
    first = True
    for x in segs:
        if needs_sep(x) and not first:
            out += sepc
        out += body(sepc, x)
        first = False
    return out


def first_not_in(bad, s):
    return s == "" or s[0] not in bad


ALNUM = set("abcdefghijklmnopqrstuvwxyzABCDEFGHIJKLMNOPQRSTUVWXYZ0123456789")


def is_name_char(c):
    return c in ALNUM or c in "_-"


def balanced(e):
    d = 0
    for c in e:
        if c == "(":
            d += 1
        elif c == ")":
            if d == 0:
                return False
            d -= 1
    return d == 0


def wf_expr(e):
    return e != "" and balanced(e) and all(c not in "\\ '\"[]" for c in e) and first_not_in("&", e)


def wf_seg(prev_coll, x):
    k = x[0]
    if k == "KEY":
        _, t, q = x
        return (t != "" and first_not_in("&", t) and (not prev_coll or first_not_in("+-&", t))
                and (q is not None or "*" not in t))
    if k == "INDEX":
        return True
    if k == "SLICE":
        return ":" in x[1] and all(is_name_char(c) or c == ":" for c in x[1])
    if k == "ANCHOR":
        _, n, br = x
        return n != "" and all(is_name_char(c) for c in n) and (br or not prev_coll or first_not_in("+-&", n))
    if k in ("STAR", "TRAV"):
        return True
    if k == "SEARCH":
        _, inv, m, attr, term, prefix, q, d = x
        if not (attr != "" and first_not_in("&", attr)):
            return False
        if m == "REGEX":
            return d not in term and d != " " and d != "\\"
        # a nested demarcation closes again (the former F21 clause, quote_wrapped, is gone since the parser repair)
        return q not in OTHER or term.count(OTHER[q]) % 2 == 0
    if k == "KW":
        return True
    if k == "COLL":
        return wf_expr(x[2]) and (x[1] == "NONE" or prev_coll)
    return False


def blank(text):
    return all(ord(c) in (9, 10, 11, 12, 13, 28, 29, 30, 31, 32) for c in text)


def wf(sep, segs):
    prev = False
    for x in segs:
        if not wf_seg(prev, x):
            return False
        prev = x[0] == "COLL"
    return len(segs) == 0 or not blank(render(sep, segs))


def no_bs_before(syms, s):
    return not any(s[i] == "\\" and s[i + 1] in syms for i in range(len(s) - 1))


BOTH_KEY_SYMS = "./()[]^$% '\""
TERM_SYMS = " =^$%!><~'\""
CANON_DELIMS = "/|#@,;:_-+"


def wfc_seg(x):
    k = x[0]
    if k == "KEY":
        return "*" not in x[1] and no_bs_before(BOTH_KEY_SYMS, x[1])
    if k == "SEARCH":
        _, inv, m, attr, term, prefix, q, d = x
        if m == "REGEX":
            return any(c not in term for c in CANON_DELIMS)
        return no_bs_before(TERM_SYMS, term)
    return True


def wfc(sep, segs):
    return wf(sep, segs) and all(wfc_seg(x) for x in segs)


# ---------------------------------------------------------------- wire forms


def tf(b):
    return "true" if b else "false"


def seg_wire(x):
    """The segment a styled segment denotes, in the line format of c14.seg_line / drv_path.seg_sexp."""
    k = x[0]
    if k == "KEY":
        return "(KEY %s)" % hexs(x[1])
    if k == "INDEX":
        return "(INDEX i%d)" % x[1]
    if k == "SLICE":
        return "(INDEX %s)" % hexs(x[1])
    if k == "ANCHOR":
        return "(ANCHOR %s)" % hexs(x[1])
    if k == "STAR":
        return "(MATCH_ALL none)"
    if k == "TRAV":
        return "(TRAVERSE none)"
    if k == "SEARCH":
        return "(SEARCH (search %s %s %s %s))" % (tf(x[1]), x[2], hexs(x[3]), hexs(x[4]))
    if k == "KW":
        return "(KEYWORD_SEARCH (kw %s %s %s))" % (tf(x[1]), x[2], hexs(x[3]))
    if k == "COLL":
        return "(COLLECTOR (coll %s %s))" % (x[1], hexs(x[2]))
    raise ValueError(x)


def style_wire(x):
    k = x[0]
    q, br, pre, d = None, False, False, "/"
    if k == "KEY":
        q = x[2]
    elif k == "ANCHOR":
        br = x[2]
    elif k == "SEARCH":
        pre, q, d = x[5], x[6], x[7]
    return "(%s %s %s %s)" % (q or "none", tf(br), tf(pre), hexs(d))


def sseg_wire(x):
    return "(%s %s)" % (seg_wire(x), style_wire(x))


def list_wire(segs):
    return "(%s)" % " ".join(sseg_wire(x) for x in segs)


def expected_line(segs):
    return "(ok (%s))" % " ".join(seg_wire(x) for x in segs)


# ---------------------------------------------------------------- requests / observations


def requests(case):
    sep, segs, peer, tail = case
    T = render(sep, segs)
    h = hexs(T)
    lw = list_wire(segs)
    out = ["(render %s %s)" % (sep, lw), "(wf %s %s)" % (sep, lw), "(wfc %s %s)" % (sep, lw),
           "(parse %s true %s)" % (sep, h), "(parse %s false %s)" % (sep, h), "(parse auto true %s)" % h,
           "(canon %s)" % h]
    if peer is not None:
        sep2, segs2 = peer
        lw2 = list_wire(segs2)
        out += ["(render %s %s)" % (sep2, lw2), "(wf %s %s)" % (sep2, lw2),
                "(yprog %s ((eq %s)))" % (h, hexs(render(sep2, segs2))),
                "(yprog %s ((strip %s) orig str (add s6b5c2e) (strip s2f) (strip %s)))" % (h, hexs(render(sep2, segs2[:1])), h)]
    if tail is not None:
        out += ["(body %s %s)" % (sep, sseg_wire(tail)), "(wfc %s %s)" % (sep, list_wire(tuple(segs) + (tail,))),
                "(yprog %s (esc (append %s) orig esc pop orig esc))" % (h, hexs(body(SEPC[sep], tail)))]
    return out


def init_worker():
    c14.init_worker()


class Deadline(Exception):
    pass


def _alarm(signum, frame):
    raise Deadline()


def guarded(fn):
    signal.signal(signal.SIGALRM, _alarm)
    signal.setitimer(signal.ITIMER_REAL, 10.0)
    try:
        return fn()
    except Deadline:
        return "(raise (crash Timeout))"
    except Exception as e:  # noqa
        return exc_line(e)
    finally:
        signal.setitimer(signal.ITIMER_REAL, 0)


def parse_line(text, mode, strip):
    return guarded(lambda: c14.segs_line(c14.make_path(text, mode)._parse_path(strip)))


def str_line(text, mode):
    return guarded(lambda: "(ok %s)" % hexs(str(c14.make_path(text, mode))))


def canon_obs(T):
    """For each notation, on a fresh object: p = YAMLPath(T); p.separator = N; str(p); each canonical text
    re-parsed and re-stringified under its own notation."""
    E = c14._ENV
    seps = E["seps"]
    out = []
    texts = []
    for mode in ("dot", "slash"):
        def one():
            p = E["YAMLPath"](T)
            p.separator = seps[mode]
            return str(p)
        try:
            signal.signal(signal.SIGALRM, _alarm)
            signal.setitimer(signal.ITIMER_REAL, 10.0)
            c = one()
            texts.append(c)
            out.append("(ok %s)" % hexs(c))
        except Deadline:
            texts.append(None)
            out.append("(raise (crash Timeout))")
        except Exception as e:  # noqa
            texts.append(None)
            out.append(exc_line(e))
        finally:
            signal.setitimer(signal.ITIMER_REAL, 0)
    for mode, c in zip(("dot", "slash"), texts):
        if c is None:
            out += ["skip", "skip"]
        else:
            out += [parse_line(c, mode, True), str_line(c, mode)]
    return "(%s)" % " ".join(out)


def yprog_obs(T, ops):
    """The public-API program of the yprog request, on a real YAMLPath."""
    E = c14._ENV
    out = []
    p = E["YAMLPath"](T)
    for op in ops:
        def run():
            kind = op[0]
            if kind == "str":
                return "(ok %s)" % hexs(str(p))
            if kind == "orig":
                return "(ok %s)" % hexs(p.original)
            if kind == "esc":
                return c14.segs_line(p.escaped)
            if kind == "unesc":
                return c14.segs_line(p.unescaped)
            if kind == "sep":
                p.separator = E["seps"][op[1]]
                return "(ok unit)"
            if kind == "append":
                p.append(op[1])
                return "(ok unit)"
            if kind == "add":
                return "(ok %s)" % hexs((p + op[1]).original)
            if kind == "pop":
                return "(ok %s)" % c14.seg_line(p.pop())
            if kind == "eq":
                return "(ok %s)" % tf(p == E["YAMLPath"](op[1]))
            if kind == "strip":
                r = E["YAMLPath"].strip_path_prefix(p, E["YAMLPath"](op[1]))
                return "(ok same)" if r is p else "(ok %s)" % hexs(r.original)
            raise ValueError(op)
        out.append(guarded(run))
    return "(%s)" % " ".join(out)


def observe(case):
    sep, segs, peer, tail = case
    T = render(sep, segs)
    out = ["s" + T.encode("utf-8", "surrogatepass").hex(), tf(wf(sep, segs)), tf(wfc(sep, segs)),
           parse_line(T, sep, True), parse_line(T, sep, False), parse_line(T, "auto", True), canon_obs(T)]
    if peer is not None:
        sep2, segs2 = peer
        T2 = render(sep2, segs2)
        out += [hexs(T2), tf(wf(sep2, segs2)), yprog_obs(T, [("eq", T2)]),
                yprog_obs(T, [("strip", render(sep2, segs2[:1])), ("orig",), ("str",), ("add", "k\\."), ("strip", "/"),
                              ("strip", T)])]
    if tail is not None:
        B = body(SEPC[sep], tail)
        out += [hexs(B), tf(wfc(sep, tuple(segs) + (tail,))),
                yprog_obs(T, [("esc",), ("append", B), ("orig",), ("esc",), ("pop",), ("orig",), ("esc",)])]
    return out


# ---------------------------------------------------------------- the property on the implementation's observations


def split_top(line):
    """Top-level items of a parenthesised line."""
    assert line[0] == "(" and line[-1] == ")", line
    items, depth, cur = [], 0, ""
    for ch in line[1:-1]:
        if ch == "(":
            depth += 1
        elif ch == ")":
            depth -= 1
        if ch == " " and depth == 0:
            if cur:
                items.append(cur)
            cur = ""
        else:
            cur += ch
    if cur:
        items.append(cur)
    return items


def excluded(sep, T):
    """Dot-notation text whose first character is '/' (excluded by the notation's own definition)."""
    return sep == "dot" and T.startswith("/")


def dot_canon_excluded(segs):
    """The canonical dot-notation text of these segments begins with '/' (the first segment is a key whose text
    starts with '/', which dot notation writes as it is): a dot-notation text whose first character is '/', the
    class the property excludes by the notation's own definition -- whether such a text is given or is the
    canonical text the implementation has to produce (str() under the dot separator, pop()'s rebuilt path)."""
    return len(segs) > 0 and segs[0][0] == "KEY" and segs[0][1].startswith("/")


def judge(case, obs):
    """The round-trip clauses, evaluated on the real YAMLPath objects' observations.  The domain is the
    grammar's well-formedness (no guard exists because of a known finding any more: F21 and F23 are repaired)."""
    sep, segs, peer, tail = case
    T = render(sep, segs)
    exp = expected_line(segs)
    if wf(sep, segs):
        if obs[3] != exp:
            return "parse(%s, escaped) of the rendered text %r gives %s, expected %s" % (sep, T, obs[3], exp)
        if not excluded(sep, T) and obs[5] != exp:
            return "parse(auto, escaped) of the rendered text %r gives %s, expected %s" % (T, obs[5], exp)
    if wfc(sep, segs) and not excluded(sep, T):
        it = split_top(obs[6])
        cd, cs, pd, fd, ps, fs = it
        for name, c, p, f in (("dot", cd, pd, fd), ("slash", cs, ps, fs)):
            if not c.startswith("(ok"):
                return "canonical %s string of %r: %s" % (name, T, c)
            if name == "dot" and c.startswith("(ok s2f") and (dot_canon_excluded(segs) or len(segs) == 0):
                # a dot-notation text starting with '/': excluded by the notation's own definition (the root path
                # "/" shown under the dot separator is written "/" as well)
                continue
            if p != exp:
                return "canonical %s string %s of %r re-parses to %s, expected %s" % (name, c, T, p, exp)
            if f != c:
                return "canonical %s string %s of %r is not a fixed point: %s" % (name, c, T, f)
    i = 7
    if peer is not None:
        sep2, segs2 = peer
        T2 = render(sep2, segs2)
        # == compares parsed segments (since the repair of F23): the domain is wf, not wfc
        if wf(sep, segs) and wf(sep2, segs2) and not excluded(sep, T) and not excluded(sep2, T2):
            same = [seg_wire(x) for x in segs] == [seg_wire(x) for x in segs2]
            got = obs[i + 2]
            if got != "((ok %s))" % tf(same):
                return "%r == %r gives %s but the segments are %s" % (T, T2, got, "equal" if same else "different")
        i += 4
    if tail is not None:
        whole = tuple(segs) + (tail,)
        if wfc(sep, whole) and wfc(sep, segs) and not excluded(sep, T) and T != "":
            it = split_top(obs[i + 2])
            before, _, mid_orig, mid, popped, after_orig, after = it
            if before != exp:
                return "segments of %r before append: %s" % (T, before)
            if not popped.startswith("(ok"):
                return "pop() after append(%r) to %r: %s" % (body(SEPC[sep], tail), T, popped)
            if sep == "dot" and dot_canon_excluded(segs) and after_orig.startswith("(ok s2f"):
                # pop() could not cut the segment from the text and rebuilt the path as its canonical dot-notation
                # text, which begins with '/': excluded by the notation's own definition (same rule as above)
                pass
            elif after != exp:
                return "append(%r) then pop() on %r leaves segments %s (text %s), expected %s" % (
                    body(SEPC[sep], tail), T, after, after_orig, exp)
    return None


# no listed finding is left for C08 (F21: both halves repaired; F23 repaired)
FINDING_PREDS = {}


def classify(case, obs):
    sep, segs, peer, tail = case
    kinds = "".join({"KEY": "k", "INDEX": "i", "SLICE": "l", "ANCHOR": "a", "STAR": "*", "TRAV": "t", "SEARCH": "s",
                     "KW": "w", "COLL": "c"}[x[0]] for x in segs[:4])
    flags = ("W" if obs[1] == "true" else "w") + ("C" if obs[2] == "true" else "c")
    return "%s:%s%s:n%d:%s%s" % (sep, flags, "", min(len(segs), 9), kinds, "+" if len(segs) > 4 else "")


def nontrivial(case, obs):
    sep, segs, peer, tail = case
    return len(segs) >= 2 or any(c in ESCAPABLE for c in render(sep, segs))


def key(case):
    sep, segs, peer, tail = case
    return (sep, render(sep, segs), None if peer is None else render(peer[0], peer[1]),
            None if tail is None else body(SEPC[sep], tail))


def describe(case):
    sep, segs, peer, tail = case
    return {"sep": sep, "segs": [list(x) for x in segs], "peer": None if peer is None else [peer[0], [list(x) for x in peer[1]]],
            "tail": None if tail is None else list(tail), "text": render(sep, segs)}


def undescribe(d):
    def seg(x):
        return tuple(x)
    peer = None if d["peer"] is None else (d["peer"][0], tuple(seg(x) for x in d["peer"][1]))
    return (d["sep"], tuple(seg(x) for x in d["segs"]), peer, None if d["tail"] is None else seg(d["tail"]))


# ---------------------------------------------------------------- generators

TEXT_ALPHA = list(ESCAPABLE) + ["a", "b", "1"]
UNI = ["ß", "日", "Ж"]


def texts_upto(alpha, n):
    for L in range(1, n + 1):
        for t in itertools.product(alpha, repeat=L):
            yield "".join(t)


def rnd_text(rng, lo=1, hi=8, extra=""):
    pool = TEXT_ALPHA * 2 + ["c", "Z", "0", "_"] + list(extra)
    if rng.random() < 0.1:
        pool = pool + UNI
    return "".join(rng.choice(pool) for _ in range(rng.randint(lo, hi)))


def rnd_expr(rng, depth=0):
    parts = []
    for _ in range(rng.randint(0, 3)):
        r = rng.random()
        if r < 0.55 or depth >= 2:
            parts.append(rng.choice(["a", "b.c", "/x/y", "k1", "*", "a.b", "x_y", "q-r", "&z"[0:0] + "z"]))
        elif r < 0.8:
            parts.append("(" + rnd_expr(rng, depth + 1) + ")")
        else:
            parts.append(rng.choice(["+", "-", ".", "/", "%", "=", ",", ":"]))
    return "".join(parts)


def pick_delim(rng, term):
    cands = [d for d in "/|#@,;:_-+~!=%a1]" if d not in term]
    return rng.choice(cands) if cands else "/"


def term_quote(rng, term, valid=True):
    """Demarcation of a search term: none (twice as likely), a quote pair, or a quote pair inside which the other
    quote character stays bare -- offered when its occurrences pair up (always, in the malformed stream)."""
    q = rng.choice([None, None, "sq", "dq", "sqn", "dqn"])
    if q in OTHER and valid and term.count(OTHER[q]) % 2 == 1:
        q = q[:2]
    return q


def rnd_seg(rng, prev_coll=False, valid=True):
    r = rng.random()
    if r < 0.25:
        t = rnd_text(rng, extra="*&+-" if not valid else "")
        return ("KEY", t, rng.choice([None, None, "sq", "dq"]))
    if r < 0.32:
        return ("INDEX", rng.choice([0, 1, -1, 7, 10, -12, 123456789012345678901234567890]))
    if r < 0.38:
        return ("SLICE", rng.choice(["1:2", "-3:-1", "a:b", "0:0", ":", "a_b:c-d", "10:", ":5"]))
    if r < 0.45:
        return ("ANCHOR", rng.choice(["a", "anchor_1", "x-y", "A9", "-n"]), rng.random() < 0.5)
    if r < 0.5:
        return ("STAR",)
    if r < 0.55:
        return ("TRAV",)
    if r < 0.8:
        m = rng.choice(list(OPS))
        term = rnd_text(rng, lo=0, extra="=!><~" * 1)
        attr = rng.choice(["a", ".", "a.b", "/a/b", "full name", "x%", "k=", "a*", "(n)", "[i]", "!"]) if rng.random() < 0.7 \
            else rnd_text(rng, extra="=!><~")
        if rng.random() < 0.15:
            # quotes in pairs inside the term: what the nested demarcation is for
            term = rng.choice(["'%s'", '"%s"', "%s''", 'a"b"%s', "'%s'\"x\"", "''%s"]) % term
        return ("SEARCH", rng.random() < 0.4, m, attr, term, rng.random() < 0.5, term_quote(rng, term, valid),
                pick_delim(rng, term))
    if r < 0.9:
        return ("KW", rng.random() < 0.3, rng.choice(KWS), rng.choice(["", "a", "a,b", "a, b", "1", "x\\,y", "'q r'", ")"])
                if rng.random() < 0.7 else rnd_text(rng, lo=0, extra=","))
    op = rng.choice(["NONE", "ADDITION", "SUBTRACTION", "INTERSECTION"]) if prev_coll else \
        (rng.choice(["NONE", "NONE", "NONE", "ADDITION"]) if not valid else "NONE")
    return ("COLL", op, rnd_expr(rng))


def rnd_segs(rng, n, valid=True):
    out = []
    prev = False
    for _ in range(n):
        x = rnd_seg(rng, prev, valid)
        out.append(x)
        prev = x[0] == "COLL"
    return tuple(out)


def restyle(rng, segs):
    """Same segments, other styles."""
    out = []
    for x in segs:
        if x[0] == "KEY":
            out.append(("KEY", x[1], rng.choice([None, "sq", "dq"])))
        elif x[0] == "ANCHOR":
            out.append(("ANCHOR", x[1], rng.random() < 0.5))
        elif x[0] == "SEARCH":
            out.append(x[:5] + (rng.random() < 0.5, term_quote(rng, x[4]), pick_delim(rng, x[4])))
        else:
            out.append(x)
    return tuple(out)


def mutate(rng, segs):
    """A nearby, usually different, segment sequence."""
    segs = list(segs)
    r = rng.random()
    if segs and r < 0.4:
        i = rng.randrange(len(segs))
        segs[i] = rnd_seg(rng, False)
    elif segs and r < 0.6:
        del segs[rng.randrange(len(segs))]
    else:
        segs.insert(rng.randint(0, len(segs)), rnd_seg(rng, False))
    return tuple(segs)


def tweak(rng, segs):
    """The same sequence with ONE property of ONE segment changed (the inversion flag, the operator, one text, the
    keyword, the collector operator, the index, the kind of a key / anchor): what == must tell apart."""
    if not segs:
        return (("KEY", "a", None),)
    segs = list(segs)
    i = rng.randrange(len(segs))
    x = segs[i]
    k = x[0]

    def other_text(t):
        return t + "a" if rng.random() < 0.5 or not t else t[:-1] + ("b" if t[-1] != "b" else "c")

    if k == "KEY":
        segs[i] = rng.choice([("KEY", other_text(x[1]), x[2]), ("ANCHOR", "a", False), ("STAR",)])
    elif k == "INDEX":
        segs[i] = rng.choice([("INDEX", x[1] + 1), ("KEY", str(x[1]), "sq"), ("SLICE", "%d:" % x[1])])
    elif k == "SLICE":
        segs[i] = ("SLICE", x[1] + "1")
    elif k == "ANCHOR":
        segs[i] = rng.choice([("ANCHOR", x[1] + "1", x[2]), ("KEY", x[1], None)])
    elif k in ("STAR", "TRAV"):
        segs[i] = ("TRAV",) if k == "STAR" else ("STAR",)
    elif k == "SEARCH":
        _, inv, m, attr, term, prefix, q, d = x
        r = rng.randrange(4)
        if r == 0:
            inv = not inv
        elif r == 1:
            m = rng.choice([o for o in OPS if o != m and (o == "REGEX") == (m == "REGEX")] or ["EQUALS"])
        elif r == 2:
            attr = other_text(attr)
        else:
            term = other_text(term)
        segs[i] = ("SEARCH", inv, m, attr, term, prefix, term_quote(rng, term) if m != "REGEX" else q, pick_delim(rng, term))
    elif k == "KW":
        _, inv, kw, params = x
        r = rng.randrange(3)
        segs[i] = ("KW", not inv, kw, params) if r == 0 else \
            ("KW", inv, rng.choice([w for w in KWS if w != kw]), params) if r == 1 else ("KW", inv, kw, other_text(params))
    elif k == "COLL":
        segs[i] = rng.choice([("COLL", x[1], x[2] + "a"),
                              ("COLL", "SUBTRACTION" if x[1] != "SUBTRACTION" else "ADDITION", x[2])])
    return tuple(segs)


def pool_segments():
    """Representative styled segments of every kind (the small-scope alphabet of sequences)."""
    P = []
    for t, q in [("a", None), ("b c", None), ("x.y", None), ("p/q", None), ("(k)[1]", None), ("^$%", None), ("'\"", None),
                 ("\\", None), ("a.b", "sq"), ("b c", "dq"), ("*", "sq"), ("-k", None), ("0", None)]:
        P.append(("KEY", t, q))
    P += [("INDEX", 0), ("INDEX", -12), ("SLICE", "1:2"), ("SLICE", "a:b"), ("ANCHOR", "anc", False), ("ANCHOR", "x-1", True),
          ("STAR",), ("TRAV",)]
    for m in OPS:
        P.append(("SEARCH", False, m, "a", "b", False, None, "/"))
    P += [("SEARCH", True, "EQUALS", "full name", "x y", False, None, "/"),
          ("SEARCH", True, "EQUALS", "n", "q", True, None, "/"),
          ("SEARCH", False, "EQUALS", ".", "Some User's Name", False, "dq", "/"),
          ("SEARCH", True, "CONTAINS", "a.b", "%=^", False, "sq", "/"),
          ("SEARCH", False, "REGEX", "/a/b", "^a/b|c$", False, None, "#"),
          ("SEARCH", True, "REGEX", ".", "\\d+", True, None, "/"),
          ("SEARCH", False, "STARTS_WITH", "enc", "ENC[", False, None, "/"),
          ("SEARCH", False, "EQUALS", "a", "", False, None, "/"),
          ("SEARCH", False, "EQUALS", "a", "'", False, None, "/"),          # F21 (parser half)
          ("SEARCH", False, "EQUALS", "b", "'x'", False, "dqn", "/"),       # F21 (printer half): [b="'x'"]
          ("SEARCH", True, "CONTAINS", "b", 'say "x y" \'z\'', True, "sqn", "/"),
          ("SEARCH", False, "GREATER_THAN_OR_EQUAL", "lvl", "5", False, None, "/")]
    for kw in KWS:
        P.append(("KW", False, kw, "a" if kw in ("DISTINCT", "HAS_CHILD", "UNIQUE") else ""))
    P += [("KW", True, "HAS_CHILD", "a b,c"), ("KW", False, "PARENT", "2")]
    P += [("COLL", "NONE", "a"), ("COLL", "NONE", "a.b/c"), ("COLL", "ADDITION", "b"), ("COLL", "SUBTRACTION", "(x)+(y)"),
          ("COLL", "INTERSECTION", ""), ("COLL", "NONE", "((a))")]
    return P


def _peer_and_tail(rng, sep, segs):
    r = rng.random()
    if r < 0.45:
        peer = (rng.choice(["dot", "slash"]), restyle(rng, segs))
    elif r < 0.7:
        peer = (rng.choice(["dot", "slash"]), restyle(rng, tweak(rng, segs)))
    elif r < 0.9:
        peer = (rng.choice(["dot", "slash"]), mutate(rng, segs))
    else:
        peer = None
    tail = rnd_seg(rng, bool(segs) and segs[-1][0] == "COLL") if rng.random() < 0.8 else None
    if tail is not None and rng.random() < 0.5:
        tail = rng.choice(pool_segments())
    return peer, tail


def chunks(tier, seed):
    rng = random.Random(seed * 31 + 8)
    size = 400
    buf = []

    def emit(case):
        buf.append(case)
        if len(buf) >= size:
            out = list(buf)
            del buf[:]
            return out
        return None

    def cases():
        P = pool_segments()
        # every sequence of length <= 2 over the pool (thorough: <= 3 over a reduced pool)
        for sep in ("dot", "slash"):
            yield (sep, (), ("slash", ()), ("KEY", "a", None))
            for x in P:
                yield (sep, (x,)) + _peer_and_tail(rng, sep, (x,))
            for x in P:
                for y in P:
                    yield (sep, (x, y)) + _peer_and_tail(rng, sep, (x, y))
        if tier == "thorough":
            R = P[::3]
            for sep in ("dot", "slash"):
                for x in R:
                    for y in R:
                        for z in R:
                            yield (sep, (x, y, z)) + _peer_and_tail(rng, sep, (x, y, z))
        # every key text and every search term text of length <= 2 (thorough: keys <= 3)
        for t in texts_upto(TEXT_ALPHA, 3 if tier == "thorough" else 2):
            for sep in ("dot", "slash"):
                for q in (None, "sq", "dq"):
                    segs = (("KEY", "x", None), ("KEY", t, q))
                    yield (sep, segs, (rng.choice(["dot", "slash"]), restyle(rng, segs)), ("KEY", t, q))
        for t in [""] + list(texts_upto(TEXT_ALPHA + ["=", "!"], 2)):
            for m in ("EQUALS", "STARTS_WITH", "LESS_THAN_OR_EQUAL", "REGEX"):
                for inv in (False, True):
                    for q in (None, "sq", "dqn"):
                        x = ("SEARCH", inv, m, "a", t, rng.random() < 0.5, q, pick_delim(rng, t))
                        segs = (("KEY", "x", None), x)
                        sep = rng.choice(["dot", "slash"])
                        yield (sep, segs, (rng.choice(["dot", "slash"]), restyle(rng, segs)), x)
        # seeded random sequences
        n = 60000 if tier == "thorough" else 9000
        for i in range(n):
            sep = rng.choice(["dot", "slash"])
            valid = (i % 5) != 0          # every fifth case comes from the malformed stream
            segs = rnd_segs(rng, rng.randint(1, 8 if i % 3 == 0 else 3), valid)
            yield (sep, segs) + _peer_and_tail(rng, sep, segs)

    for c in cases():
        out = emit(c)
        if out:
            yield out
    if buf:
        yield list(buf)


def corpus_chunks():
    """Witnesses of the known findings and of the repaired defects."""
    k = ("KEY", "x", None)
    return [[
        ("dot", (("SEARCH", False, "EQUALS", "a", "'", False, None, "/"),), None, None),                       # F21, repaired
        ("dot", (k, ("SEARCH", False, "REGEX", "a", "'x'", False, None, "/")), None, None),                     # F21, regex, repaired
        ("dot", (k, ("SEARCH", False, "EQUALS", "a", "'x'", False, None, "/")), None, None),                    # F21, repaired
        ("slash", (k, ("SEARCH", True, "STARTS_WITH", "a", '"', False, None, "/")), None, None),                # F21, repaired
        ("dot", (k, ("SEARCH", False, "EQUALS", "b", "'x'", False, "dq", "/")), None, None),                    # F21, printer half
        ("dot", (k, ("SEARCH", False, "EQUALS", "b", "'x'", False, "dqn", "/")), None, None),                   # F21, printer half, repaired: x[b="'x'"]
        ("slash", (k, ("SEARCH", True, "ENDS_WITH", "b", '"', False, "sqn", "/")), None, None),                 # one bare quote: not well-formed
        ("dot", (k, ("SEARCH", False, "EQUALS", "b", "x'y'z", False, "dqn", "/")), (
            "slash", (k, ("SEARCH", False, "EQUALS", "b", "x'y'z", False, None, "/"))), None),
        ("dot", (("KEY", "a.b", None),), ("slash", (("KEY", "a.b", None),)), None),                             # F23, repaired
        ("dot", (("KEY", "a.b", "sq"),), ("dot", (("KEY", "a.b", None),)), None),                               # F23, repaired
        ("dot", (("KEY", "a.b", None),), ("slash", (("KEY", "a", None), ("KEY", "b", None))), None),            # F23: different segments
        ("dot", (("SEARCH", True, "EQUALS", "a", "b", False, None, "/"),), ("dot", (("SEARCH", False, "EQUALS", "a!", "b", False, None, "/"),)), None),
        ("dot", (k, ("SEARCH", False, "REGEX", "b", "a/", False, None, "|")), None, None),                      # fixed #22
        ("dot", (k, ("SEARCH", False, "CONTAINS", "a", "%", False, "sq", "/")), None, None),                    # fixed #24
        ("dot", (k,), None, ("KEY", "a b", "sq")),                                                              # fixed #25
        ("dot", (k,), None, ("ANCHOR", "q", True)),                                                             # fixed #25
        ("dot", (("KEY", "/", "dq"),), None, ("KEY", "a.b", "sq")),     # pop() rebuilds "/" : excluded dot text
        ("dot", (("KEY", "/", "dq"),), None, ("KEY", "a", None)),       # pop() cuts the text: "/" in quotes restored
        ("slash", (), ("slash", ()), ("KEY", "a", None)),               # root shown under the dot separator is "/"
        # round gapA: tails that carry their own demarcation (C08_appended_parse, C08_append_pop_all_partial)
        ("dot", (k,), None, ("INDEX", 0)),                                                                      # x.[0]: cut
        ("slash", (k,), None, ("SLICE", "1:2")),
        ("slash", (k,), None, ("SEARCH", True, "EQUALS", "full name", "it's", True, "dq", "/")),                # rebuilt
        ("dot", (k,), None, ("SEARCH", False, "REGEX", "a", "x/y", False, None, "|")),                          # other delimiter: rebuilt
        ("dot", (("COLL", "NONE", "a"),), None, ("COLL", "ADDITION", "b")),                                     # (a).+(b)
        ("slash", (("COLL", "NONE", "a"),), None, ("COLL", "INTERSECTION", "b")),                               # /(a)/&(b): popped (b), text /(a)/&
        ("dot", (("COLL", "NONE", "a"),), None, ("COLL", "INTERSECTION", "b")),
    ]]
