"""C01: query results equal the documented YAML Path segment semantics.

Case = (document text, [paths]); per path four observations (required query,
optional query, exists(), optional query with a default_value).  The judge evaluates an independent reference of the
documented semantics (README "Supported YAML Path Segments"; DESIGN Appendix C;
coq/Spec/SpecC01.v is the same definition in Gallina) on the loaded document
and compares node identities, order and multiplicity with what the real
Processor returned; it also checks exists() <-> non-empty and
optional == required on existing paths, and that the same path written in dot
and forward-slash notation gives the same answer.
"""
import random
import re as _re
from ast import literal_eval

import c12
import evalcommon as ec
from evalcommon import init_worker, describe, undescribe, key  # noqa: F401
from common import sexp_parse

CONFIG = {
    "id": "C01",
    "rule": ("documents and paths of the C15 stream restricted to the C01 fragment (key, index, slice, anchor, "
             "search with all nine operators / inversion / attribute '.', named, descendant, wildcard, deep "
             "traversal; no collectors, no keyword searches); every path is evaluated in dot notation and, when it "
             "can be transcribed, in forward-slash notation (paired in one case); required, optional (without and "
             "with a default_value) and exists(); plus single-path cases: numbers equal to the term under every "
             "ordering operator, existing paths ending at / passing through null values.  "
             "non-trivial = the required query returned nodes; distinct = distinct (document, path list)."),
    "trusted_base": [
        "modelled, not verified: yamlpath/processor.py 59-167, 811-2627; common/searches.py; Nodes.typed_value",
        "the reference semantics used by the judge (harness/c01.py ref_*) is hand-written from README 'Supported YAML "
        "Path Segments' and DESIGN Appendix C; it is compared on every case with the extracted coq/Spec/SpecC01.v "
        "sem_doc (request '(sem ...)', ocaml/drv_sem.ml), the specification the C01 theorems are stated against",
        "value comparison of search operators: the independent reference c12.spec_answer (the judge of property C12), "
        "not the library's Searches.search_matches",
    ],
    "assumptions": [
        "the model is the code only as far as the correspondence run shows",
        "C01_required_sem_partial covers the whole fragment generated here; its guard (no SOut in the strict reading "
        "of the specification) excludes exactly the 'unspecified' answers of the reference and the finding F12a",
    ],
}

# ----------------------------------------------------------------------------------------------
# reference semantics over the loaded ruamel document (identity-preserving)
class Virt(list):
    """a virtual result (slice): designates no single node"""


def is_map(x):
    return isinstance(x, dict)


def is_seq(x):
    return isinstance(x, list)


def is_setx(x):
    from ruamel.yaml.comments import CommentedSet
    return isinstance(x, (set, CommentedSet))


def to_int(s):
    try:
        return int(s)
    except (ValueError, TypeError):
        return None


def children(x):
    if is_map(x):
        return list(x.values())
    if is_seq(x):
        return list(x)
    if is_setx(x):
        return list(x)
    return []


def leaves(x):
    if is_map(x):
        out = []
        for v in x.values():
            out.extend(leaves(v))
        return out
    if is_seq(x):
        out = []
        for v in x:
            out.extend(leaves(v))
        return out
    if is_setx(x):
        return list(x)
    return [x]


def desc_or_self(x):
    out = [x]
    if is_map(x):
        for v in x.values():
            out.extend(desc_or_self(v))
    elif is_seq(x):
        for v in x:
            out.extend(desc_or_self(v))
    return out


def anchor_of(x):
    a = getattr(x, "anchor", None)
    return getattr(a, "value", None) if a is not None else None


def matches(method, term, hay):
    """The documented answer of one search operator (README "Search expressions", PathSearchMethods): an
    INDEPENDENT reference - c12.spec_answer, the judge of property C12 - never the library's own
    Searches.search_matches: equality is numeric when value and term are numbers of the same kind and textual
    otherwise, booleans compare by their case-insensitive spelling, ordering is numeric for numeric values (false
    against a non-numeric term) and lexicographic for text, ^ $ % look at the value's text, =~ is an unanchored
    regular-expression search."""
    try:
        return bool(c12.spec_answer(method.name, term, hay))
    except _re.error:
        raise Unspecified("invalid regular expression")


def ref_sel(seg, x, tl=True):
    """nodes selected by ONE segment on the node x (no look-ahead)"""
    E = ec._ENV
    T = E["PathSegmentTypes"]
    ty, a = seg
    if ty is T.KEY:
        k = str(a)
        if is_map(x):
            if k in x:
                return [x[k]]
            i = to_int(k)
            return [x[i]] if i is not None and i in x else []
        if is_seq(x):
            i = to_int(k)
            if i is not None:
                return [x[i]] if -len(x) <= i < len(x) else []
            if not tl:
                return []
            out = []
            for e in x:
                out.extend(ref_sel(seg, e, tl))
            return out
        if is_setx(x):
            return [e for e in x if e == k][:1]
        return []
    if ty is T.INDEX:
        s = str(a)
        if ":" in s:
            lo, hi = s.split(":", 1)
            if is_seq(x):
                ilo, ihi = to_int(lo), to_int(hi)
                if ilo is None or ihi is None:
                    raise Unspecified("non-integer array slice")
                if ilo == ihi and -len(x) <= ilo < len(x):
                    return [Virt([x[ilo]])]
                return [Virt(x[ilo:ihi])]
            if is_map(x):
                return [v for k, v in x.items() if lo <= str(k) <= hi]
            if is_setx(x):
                return [e for e in x if lo <= str(e) <= hi]
            return []
        i = to_int(s)
        if i is None:
            raise Unspecified("non-integer index")
        if is_seq(x):
            return [x[i]] if -len(x) <= i < len(x) else []
        if is_setx(x):
            raise Unspecified("index into a set")
        return []
    if ty is T.ANCHOR:
        name = str(a)
        if is_map(x):
            return [v for k, v in x.items() if anchor_of(k) == name or anchor_of(v) == name]
        if is_seq(x) or is_setx(x):
            return [e for e in x if anchor_of(e) == name]
        return []
    if ty is T.SEARCH:
        inv, method, attr, term = a.inverted, a.method, a.attribute, a.term

        def cond(h):
            return bool(matches(method, term, h)) != inv

        def desc_cond(e):
            sub = list(E["YAMLPath"](attr).escaped)
            hits = ref_sem(sub, e)
            if len(hits) >= 2:
                MULTI[0] = True
            return any(matches(method, term, h) for h in hits) != inv

        if is_seq(x):
            if not tl:
                return []
            aoh = all(e is None or is_map(e) for e in x)
            out = []
            for e in x:
                if attr == ".":
                    ok = ((aoh and e is not None and term in e) or bool(matches(method, term, e))) != inv
                elif is_map(e) and attr in e:
                    ok = cond(e[attr])
                else:
                    ok = desc_cond(e)
                if ok:
                    out.append(e)
            return out
        if is_map(x):
            if attr == ".":
                return [v for k, v in x.items() if cond(k)]
            if attr in x:
                return [x[attr]] if cond(x[attr]) else []
            return [x] if desc_cond(x) else []
        if is_setx(x):
            return [e for e in x if cond(e)]
        return [x] if cond(x) else []
    if ty is T.MATCH_ALL:
        return children(x)
    raise Unspecified("segment type %s" % ty)


MULTI = [False]


class Unspecified(Exception):
    """the documented semantics say nothing (or say 'error') here"""


def ref_sem(segs, x, tl=True):
    """the nodes a path selects starting at x, in document order  (coq/Spec/SpecC01.v: sem_segs / seg_sem)"""
    E = ec._ENV
    T = E["PathSegmentTypes"]
    if not segs:
        return [x]
    seg, rest = segs[0], segs[1:]
    ty = seg[0]
    if isinstance(x, Virt):
        # what further segments do to a virtual (slice) result is not documented
        raise Unspecified("segment after a slice result")
    if ty is T.MATCH_ALL:
        # every immediate child; with a following segment, those on which it selects
        sel = children(x)      # sets included (finding F29 is repaired: no flag any more)
    elif ty is T.TRAVERSE:
        if not rest:
            return leaves(x)
        if rest[0][0] is T.TRAVERSE:
            raise Unspecified("** **")
        out = []
        for n in desc_or_self(x):
            out.extend(ref_sem(rest, n, False))      # the filter applies without list pass-through
        return out
    else:
        sel = ref_sel(seg, x, tl)
    out = []
    for n in sel:
        out.extend(ref_sem(rest, n))
    return out


SETSTAR = [False]


def ids_of(ld, nodes):
    out = []
    for n in nodes:
        if isinstance(n, Virt):
            out.append(("virt", tuple(ld.enc.oids.get(id(e), -1) for e in n)))
        else:
            out.append(ld.enc.oids.get(id(n), -1))
    return out


def reference(ld, path):
    """-> ('ok', ids, flags) | ('unspecified', why, False)   flags: '' | 'multi' | 'setstar' (which listed
    finding the documented meaning runs into on this input)"""
    E = ec._ENV
    try:
        segs = list(E["YAMLPath"](path).escaped)
    except Exception:  # noqa
        return ("unspecified", "path does not parse", False)
    if ld.data is None:
        return ("ok", [], "")          # "Refusing to get nodes from a null document"
    MULTI[0] = False
    SETSTAR[0] = False
    try:
        ids = ids_of(ld, ref_sem(segs, ld.data))
        return ("ok", ids, "multi" if MULTI[0] else ("setstar" if SETSTAR[0] else ""))
    except Unspecified as e:
        return ("unspecified", str(e), False)
    except E["YAMLPathException"]:
        return ("unspecified", "YAMLPathException inside the reference (invalid regular expression, ...)", False)
    except RecursionError:
        return ("unspecified", "too deep for the reference", False)


# ---------------------------------------------------------------- observations
def result_ids(line):
    """node identities of an '(ok (...))' observation line, virtual results as ('virt', ...)"""
    sx = sexp_parse(line)
    out = []

    def node_id(n):
        if n[0] == "n":
            return int(n[1][1:])
        if n[0] == "nc":
            return node_id(n[1])
        if n[0] == "l":
            return ("virt", tuple(node_id(e) for e in n[1:]))
        return -2
    for it in sx[1]:
        out.append(node_id(it))
    return out


_REF = {}


N = 4        # observations per path: required, optional, exists(), optional with a default_value


def sem_line(ref):
    """the reference's answer in the format of ocaml/drv_sem.ml"""
    kind, want, _ = ref
    if kind != "ok":
        return "(sem unspecified)"
    return "(sem ok (%s))" % " ".join(
        ("(v%s)" % "".join(" i%d" % e for e in w[1])) if isinstance(w, tuple) else "i%d" % w for w in want)


def requests(case):
    """per path the four queries of the model of the code (the optional one twice: without and with a
    default_value), then per path the EXTRACTED SPECIFICATION (Spec/SpecC01.v sem_doc) -- compared with the
    Python reference below"""
    doc, paths = case
    out = ec.requests4(case)
    ld = ec.LoadedDoc(doc)
    for p in paths:
        lit, re_t = ec.tables_for(ld, p)
        out.append("(sem %s %s %s %s %s)" % (ec.hexs(p), ld.sexp, lit, re_t, ld.nstr))
    return out


def observe(case):
    doc, paths = case
    obs = ec.observe4(case)
    ld = ec.LoadedDoc(doc)
    refs = [reference(ld, p) for p in paths]
    _REF[(doc, tuple(paths))] = refs
    return obs + [sem_line(r) for r in refs]


def slash_twin(paths, i):
    return None


def matched(line):
    return line.startswith("(ok (") and line != "(ok ())"


def failures(case, obs, refs=None):
    """-> [(path, message, kind)]   kind: None | 'multi'  (which known finding explains it)"""
    doc, paths = case
    ld = None
    out = []
    for i, p in enumerate(paths):
        req, opt, ex, optd = obs[N * i], obs[N * i + 1], obs[N * i + 2], obs[N * i + 3]
        if matched(req) and ex != "(ok true)":
            out.append((p, "exists(%r) is %s although the required query matches on %r" % (p, ex, doc), None))
        if (req == "(raise ype)" or req == "(ok ())") and ex == "(ok true)":
            out.append((p, "exists(%r) is true although the required query matches nothing on %r" % (p, doc), None))
        if refs is not None:
            kind, want, multi = refs[i]
        else:
            if ld is None:
                ld = ec.LoadedDoc(doc)
            kind, want, multi = reference(ld, p)
        if kind != "ok":
            continue
        if req.startswith("(ok ("):
            got = result_ids(req)
        elif req == "(raise ype)":
            got = []          # unmatched: no nodes
        else:
            continue          # crashes are C15's business; mutation C09's
        if got != want:
            out.append((p, "required %r on %r selects %s, the documented semantics select %s" % (p, doc, got, want),
                        multi or None))
            continue
        # the same path in the other notation (transcribed by the library itself; only when the transcription
        # re-parses to the same segments, which is C08's subject) selects the same nodes
        if got and i % 3 == 0:
            if ld is None:
                ld = ec.LoadedDoc(doc)
            twin = other_notation(p)
            if twin is not None:
                line, mut = ec.observe_one(ld, twin, "req")
                if mut:
                    ld = None
                elif line.startswith("(ok (") and result_ids(line) != got or line == "(raise ype)":
                    out.append((p, "%r selects %s but its transcription %r selects %s on %r"
                                % (p, got, twin, line[:80], doc), None))
        if not want:
            continue
        # the optional query - without and with a default_value - on a path that already exists: the same nodes,
        # and the document as it was
        for line, default in ((opt, None), (optd, ec.OPT_DEFAULT)):
            f = optional_failure(doc, p, line, default, want, multi)
            if f is not None:
                out.append(f)
                break
    return out


def optional_failure(doc, p, line, default, want, multi):
    """One optional query against the required / documented answer `want` (non-empty: the path exists).
    "A path that already exists": every branch the optional walk reaches has the next segment (no segment
    evaluation of the walk comes back empty - ec.optional_probe's `lacking`); where one lacks it the query is the
    documented creating query (C09's finding F16b), about which C01 says nothing."""
    how = "optional %r%s" % (p, "" if default is None else " with default_value %r" % (default,))
    if line.startswith("(ok ("):
        got_o = result_ids(line)
        if got_o == want:
            return None
        pr = ec.optional_probe(doc, p, default)
    elif line == "(mutates)":
        # the shared observer hides the answer of a query that changed the document (or built a node): look again
        pr = ec.optional_probe(doc, p, default)
        got_o = pr["ids"]
    else:
        return None           # a refusal / crash of the optional query: C15's and C09's business
    if pr["lacking"]:
        return None
    if got_o is None:
        return None
    if got_o == want and not pr["changed"]:
        return None
    if got_o == want:
        return (p, "%s on %r (existing path) selects the documented nodes but changes the document" % (how, doc),
                None)
    null_id = NULL_ID(doc)
    extra = list(got_o)
    for w in want:
        if w in extra:
            extra.remove(w)
    rest = [x for x in got_o if x != null_id]
    # (was finding F10, repaired by fix 09e1e7a) the walk stopped at a null that a segment OTHER than the last one
    # selected, and yielded it: since the repair the walk goes on through the null, so such an answer is a violation
    stopped = bool(extra) and all(x == null_id for x in extra) and pr["null_mid"] \
        and rest == [w for w in want if w != null_id]
    return (p, "%s on %r (existing path) selects %s%s, required/documented %s%s"
            % (how, doc, got_o, " and changes the document" if pr["changed"] else "", want,
               " (the walk stopped at a null intermediate node and yielded it)" if stopped else ""),
            multi or None)


def NULL_ID(doc):
    ld = ec.LoadedDoc(doc)
    return ld.enc.oids.get(id(None))


def other_notation(path):
    E = ec._ENV
    from yamlpath.enums import PathSeparators
    try:
        yp = E["YAMLPath"](path)
        segs = [E["seg_line"](x) for x in yp.escaped]
        if not segs:
            return None
        yp2 = E["YAMLPath"](path)
        yp2.separator = PathSeparators.DOT if path.startswith("/") else PathSeparators.FSLASH
        txt = str(yp2)
        if txt == path:
            return None
        if [E["seg_line"](x) for x in E["YAMLPath"](txt).escaped] != segs:
            return None
        return txt
    except Exception:  # noqa
        return None


def judge(case, obs):
    refs = _REF.pop((case[0], tuple(case[1])), None)
    fs = failures(case, obs, refs)
    return fs[0][1] if fs else None


def f_multi_descendant(case, obs):
    """a search whose attribute path reaches SEVERAL nodes below one candidate: the code decides by the first of
    them (list elements) or by 'any node passes the possibly inverted test' (hashes) instead of 'some node
    satisfies the comparison' / its complement (every failure of the case is explained by a listed finding, at
    least one by this one)"""
    fs = failures(case, obs)
    return bool(fs) and all(k is not None for _, _, k in fs) and any(k == "multi" for _, _, k in fs)


# F10 optional_stops_at_null is repaired (fix 09e1e7a): an optional walk that yields an intermediate null is a violation
FINDING_PREDS = {"multi_descendant_search": f_multi_descendant}


def classify(case, obs):
    n = sum(1 for i in range(0, N * len(case[1]), N) if obs[i].startswith("(ok ("))
    return "docsize%02d:%s" % (min(len(case[0]) // 10, 20), "some" if n else "none")


def nontrivial(case, obs):
    return any(l.startswith("(ok (") and l != "(ok ())" for l in obs[:N * len(case[1])])


def in_fragment(path):
    return "(" not in path


def corpus_chunks():
    yield [("[{a: null}, {a: {b: 1}}]", ["a.b", "/a/b"]), ("{x: {a1: 1, a2: 2}}", ["**[.^a]"]),
           ("[{b: 1}, {c: 2}]", ["[b!=1]"]), ("{x: [{a: 1}]}", ["x.a", "/x/a"]),
           ("s: !!set {a, b}", ["s.*[.=a]", "s.*", "s[.=a]", "**.*[.=a]"]),
           ("[{a: {x: 2, y: 1}}]", ["[a.*=1]", "[a.*!=1]"]),
           ("{x: [{a: 1, b: [1, 2, 3]}, {a: 2, b: [4, 5, 6]}]}", ["x[a=2].b[1:3]", "x.b[-1]", "x.*[b.0!=1].a", "x.**",
                                                                 "x.b[1:1]", "x.b[7:9]", "x[0][a:b]"])]


# small single-path cases (a failing one makes a minimal replay): numbers that EQUAL the term under every ordering
# operator, by kind of number and of term; null values at the end of / on the way along existing paths
NUM_DOCS = ["[1.5]", "[1, 1.5, 2]", "{a: 1.5}", "[{a: 1.5}, {a: 1}, {a: 2.5}]", "[1.0, 1, '1', '1.0']",
            "{a: 2, b: 2.0, c: '2'}", "[-1, -1.0, 0, 0.0]", "s: !!set\n  ? 1.5\n  ? 2\n", "{1.5: x, 2: y}"]
NUM_TERMS = ["1.5", "1", "1.0", "2", "2.0", "-1", "0", "0.0", "a"]
NUM_OPS = ["<=", ">=", "<", ">", "=", "=="]
NULL_DOCS = ["{a: null}", "{a: {b: null}}", "[{a: null}]", "{a: [null]}", "[null]", "{a: null, b: 1}", "[null, 1]",
             "{a: {b: null, c: 1}}", "[{a: null}, {a: null}]", "{a: ~, b: {a: ~}}", "[[null]]", "{a: [{b: null}]}",
             "[{a: null}, {a: {b: 1}}]", "{a: [null, {b: 1}]}", "{c: {a: null}, d: {a: {b: 1}}}"]
NULL_PATHS = ["a", "/a", "a.b", "/a/b", "[0].a", "a[0]", "[0]", "/[0]", "*", "**", "a.*", "b.a", "[0][0]", "a[0].b",
              "a.b.c", "[.=~/./]", "[a=1]", "[1]", "b", "a.c", "[&x]", "a.**", "a[.!=x]", "a[b=1]", "*.a.*", "*.a.b", "a.*.b",
              "a[b!=x]"]


def mini_cases():
    for d in NUM_DOCS:
        for at in (".", "a"):
            if at == "a" and "a:" not in d:
                continue
            for op in NUM_OPS:
                for t in NUM_TERMS:
                    for inv in ("", "!"):
                        yield (d, ["[%s%s%s%s]" % (at, inv, op, t)])
    for d in NULL_DOCS:
        for p in NULL_PATHS:
            yield (d, [p])


def chunks(tier, seed):
    def gen():
        thorough = tier == "thorough"
        for c in mini_cases():
            yield c
        for i, (d, paths) in enumerate(ec.gen_cases(tier, seed, with_collectors=False)):
            ps = [p for p in paths if in_fragment(p)]
            if ps and (not thorough or i % 2 == 0):
                yield (d, ps)
    return ec.chunks_by_weight(gen())
