"""C10: anchor conflicts in a merge follow the chosen policy and the result reloads.

Case = (lhs YAML text, rhs YAML text, options dict, ini dict|None).  The options hold the
anchor policy (anchors=stop|left|right|rename) beside the C05 merge policies.
Two observations per case:
  1. the two documents after the real Merger._resolve_anchor_conflicts(rhs)
  2. the document after the real Merger.merge_with(rhs)
both with anchor names and the object identities of anchored nodes (aliases are nodes sharing
one identity; numbered by first occurrence), or the exception family.
The judge re-runs the real merge, looks at the object graph (which object came from which
document), dumps the result through Merger.prepare_for_dump + the repository's YAML editor and
reloads the text with Parsers.get_yaml_data.
"""
import io
import itertools
import random
import warnings
from types import SimpleNamespace

from common import hexs, exc_line
import docenc
import oracles
import c05

CONFIG = {
    "id": "C10",
    "rule": ("pairs of container documents (hashes / arrays, nested up to 3 levels) that define and alias SCALAR anchors "
             "from the name pool x y z (plus x_1, so that a renamed name can collide with an existing one), every name "
             "defined at most once per document, aliases after their definition, as hash values, array elements "
             "(also in nested arrays), and - in a tenth of the documents - as hash keys; anchored values from "
             "1 2 v w true '1' 1.0 chosen per name so that equal-name/equal-value, equal-name/different-value "
             "(also differing only in type: true/1, 1/1.0, 1/'1') and disjoint names all occur; x the four anchor "
             "policies (CLI option or INI [defaults]) x C05 policy mixes.  A template core (13 left x 13 right "
             "templates x value pairs x 4 policies, overlapping and disjoint keys) is enumerated, random documents "
             "beyond; malformed stream: a name defined twice in one document, an anchor policy text that is no "
             "policy, documents without anchors; an implementation-only stream of 9 x 9 documents with anchored and "
             "aliased CONTAINERS on both sides (incl. two loads of one document) x 4 policies x 3 mixes, run under a "
             "10 s deadline: must return, end in a document or MergeException, serialize and reload.  non-trivial = both documents define an anchor of one name; "
             "distinct = distinct case tuple."),
    "trusted_base": [
        "modelled, not verified: yamlpath/common/anchors.py (scan_for_anchors, rename_anchor, replace_anchor), "
        "merger.py _calc_unique_anchor, _resolve_anchor_conflicts, merge_with's call order; the merge proper is "
        "C05's model (coq/Model/Merge.v)",
        "ruamel.yaml: loading (documents enter the model after loading, with id() classes and anchor names), "
        "ordereddict.insert / CommentedMap.pop as transcribed in coq/Model/Anchors.v, and - on the implementation "
        "side only - the serializer and the reload (the model proves the invariant the serializer needs: one "
        "object per anchor name, every alias defined)",
        "oracle: ast.literal_eval (C05's AoH identity values), tabulated per case",
    ],
    "assumptions": [
        "anchors on scalars only (anchored hashes / arrays, YAML merge keys are outside the property's quantifier); "
        "no anchored set member and no scalar document (Anchors.scan/replace do not look into sets and cannot "
        "replace the document root)",
        "each document defines a name at most once (the theorems' hypothesis wf_doc); the malformed stream checks "
        "the tie beyond it",
        "the assumptions of C05",
    ],
}

POLICIES = ("stop", "left", "right", "rename")
_ENV = {}


def init_worker():
    c05.init_worker()
    from yamlpath.common import Parsers
    _ENV.update(Parsers=Parsers)
    warnings.simplefilter("ignore")              # ruamel's ReusedAnchorWarning (malformed stream)


def load(text):
    return c05.load(text)


# ---------------------------------------------------------------- canonical output
class AnEncoder(docenc.Encoder):
    """anchored nodes are numbered by first occurrence, every other node is i0"""

    def __init__(self):
        docenc.Encoder.__init__(self)
        self.an = {}

    def info(self, x):
        full = docenc.Encoder.info(self, x).split(" ")
        if full[1] == "none":
            return "i0 none false %s" % full[3]
        n = self.an.setdefault(id(x), len(self.an) + 1)
        return "i%d %s false %s" % (n, full[1], full[3])


def case6(case):
    l, r, opts, ini = case
    return (l, r, opts, None, None, ini)


def prepare_case(case):
    lhs = load(case[0])
    rhs = load(case[1])
    cfg = c05.make_config(case6(case))
    enc = docenc.Encoder()
    enc.fresh_oid()
    l_s = enc.node(lhs)
    r_s = enc.node(rhs)
    c_s = c05.cfg_sexp(case6(case), cfg, enc, rhs)
    lt = oracles.lit_table(c05.scalars_of(lhs, []) + c05.scalars_of(rhs, []))
    return ["(resolve %s %s %s)" % (c_s, l_s, r_s), "(anchors %s %s %s %s)" % (c_s, lt, l_s, r_s),
            "(c10-guard %s %s)" % (l_s, r_s)]


TRIVIAL = "(node-eq (L i1 none false none none) (L i1 none false none none))"


def has_anchored_container(doc):
    return any((isinstance(n, (dict, list, tuple)) or docenc.is_set(n)) and anchor_of(n) is not None
               for n in walk_nodes(doc, []))


def impl_only(case):
    """anchored / aliased CONTAINERS: one object at several places is outside the tree model
    (Merge.v's assumption); such cases are run on the implementation only -- termination,
    no crash, one object per anchor name, dump and reload"""
    return has_anchored_container(load(case[0])) or has_anchored_container(load(case[1]))


def requests(case):
    if impl_only(case):
        return [TRIVIAL, TRIVIAL, TRIVIAL]
    return prepare_case(case)


# ---------------------------------------------------------------- the theorems' guards, on the object graph
def c10_name(x):
    """SpecC10.c10_name: hasattr(x, 'anchor') and x.anchor.value (None = no name)"""
    if not hasattr(x, "anchor"):
        return None
    try:
        return x.anchor.value
    except Exception:  # noqa
        return None


def is_container(x):
    return isinstance(x, (dict, list, tuple)) or docenc.is_set(x)


def g_tidy(x):
    """SpecC10.an_tidy: no container, hash key or set member carries an anchor name; keys and members are Scalars"""
    if isinstance(x, dict):
        return c10_name(x) is None and all(not is_container(k) and c10_name(k) is None and g_tidy(v)
                                           for k, v in x.items())
    if isinstance(x, (list, tuple)):
        return c10_name(x) is None and all(g_tidy(e) for e in x)
    if docenc.is_set(x):
        return c10_name(x) is None and all(not is_container(e) and c10_name(e) is None for e in x)
    return True


def g_places(x, acc):
    """SpecC10.places: hash keys, Scalars that are hash values / array elements, at any depth"""
    if isinstance(x, dict):
        for k, v in x.items():
            acc.append(k)
            if is_container(v):
                g_places(v, acc)
            else:
                acc.append(v)
    elif isinstance(x, (list, tuple)):
        for e in x:
            if is_container(e):
                g_places(e, acc)
            else:
                acc.append(e)
    return acc


def g_one_node(x):
    """SpecC10.one_node_per_name: two places of one name are one object"""
    names = {}
    for p in g_places(x, []):
        n = c10_name(p)
        if n is None:
            continue
        if n in names and names[n] is not p:
            return False
        names[n] = p
    return True


def g_keys_plain(x):
    if isinstance(x, dict):
        return all(c10_name(k) is None and g_keys_plain(v) for k, v in x.items())
    if isinstance(x, (list, tuple)):
        return all(g_keys_plain(e) for e in x)
    return True


def guard_line(l, r):
    """the guards of C10_rename_final / C10_unique_names_final / C10_no_crash_partial evaluated on the real
    documents; a loaded document IS a heap, so an_heap_ok is true of it by construction (the model
    evaluates it on the encoded tree: a disagreement would mean the encoder shows one object with two faces)"""
    b = lambda v: "true" if v else "false"
    return "(guard %s %s %s %s true %s %s)" % (b(is_container(l) and g_tidy(l)), b(is_container(r) and g_tidy(r)),
                                              b(g_one_node(l)), b(g_one_node(r)), b(g_keys_plain(l)), b(g_keys_plain(r)))


def real_resolve(case):
    E = c05._ENV
    lhs, rhs = load(case[0]), load(case[1])
    cfg = c05.make_config(case6(case))
    m = E["Merger"](E["log"], lhs, cfg)
    m._resolve_anchor_conflicts(rhs)            # pylint: disable=protected-access
    return m.data, rhs


def real_merge(case):
    """(merger, lhs as loaded, rhs as loaded) after merge_with"""
    E = c05._ENV
    lhs, rhs = load(case[0]), load(case[1])
    cfg = c05.make_config(case6(case))
    m = E["Merger"](E["log"], lhs, cfg)
    return m, lhs, rhs


def observe(case):
    if impl_only(case):
        return ["true", "true", "true"]
    out = []
    try:
        l2, r2 = real_resolve(case)
        enc = AnEncoder()
        a = enc.node(l2)
        b = enc.node(r2)
        out.append("(ok (%s %s))" % (a, b))
    except Exception as e:  # noqa
        out.append(exc_line(e))
    try:
        m, lhs, rhs = real_merge(case)
        c05.with_deadline(lambda: m.merge_with(rhs))
        out.append("(ok %s)" % AnEncoder().node(m.data))
    except Exception as e:  # noqa
        out.append(exc_line(e))
    out.append(guard_line(load(case[0]), load(case[1])))
    return out


# ---------------------------------------------------------------- the property, on the object graph
def kind_val(x):
    """typed scalar data: (kind, value)"""
    E = c05._ENV
    if x is None:
        return ("null", None)
    if isinstance(x, E["TaggedScalar"]):
        return ("tagged:%s" % x.tag.value, x.value)
    if isinstance(x, bool) or type(x).__name__ == "ScalarBoolean":
        return ("bool", bool(x))
    if isinstance(x, int):
        return ("int", int(x))
    if isinstance(x, float):
        return ("float", float(x))
    if isinstance(x, str):
        return ("str", str(x))
    return ("other", str(x))


def dplain(x):
    """typed plain data, ordered"""
    if isinstance(x, dict):
        return ("m", [(dplain(k), dplain(v)) for k, v in x.items()])
    if isinstance(x, (list, tuple)):
        return ("s", [dplain(e) for e in x])
    if docenc.is_set(x):
        return ("t", [dplain(e) for e in x])
    return ("l",) + kind_val(x)


def anchor_of(x):
    a = getattr(x, "anchor", None)
    v = getattr(a, "value", None)
    return v if isinstance(v, str) and v != "" else None


def walk_nodes(x, acc):
    """every node occurrence: keys, values, elements, members"""
    acc.append(x)
    if isinstance(x, dict):
        for k, v in x.items():
            walk_nodes(k, acc)
            walk_nodes(v, acc)
    elif isinstance(x, (list, tuple)):
        for e in x:
            walk_nodes(e, acc)
    elif docenc.is_set(x):
        for e in x:
            walk_nodes(e, acc)
    return acc


def anchored(doc):
    """[(object, name)] for every anchored SCALAR occurrence"""
    out = []
    for n in walk_nodes(doc, []):
        if isinstance(n, (dict, list, tuple)) or docenc.is_set(n):
            continue
        a = anchor_of(n)
        if a is not None:
            out.append((n, a))
    return out


def defs_of(doc):
    """name -> (object, typed value); None when a name belongs to two objects (not well-formed)"""
    d = {}
    for obj, name in anchored(doc):
        if name in d and d[name][0] is not obj:
            return None
        d[name] = (obj, kind_val(obj))
    return d


def eff_policy(case):
    l, r, opts, ini = case
    return opts.get("anchors") or (ini or {}).get("anchors") or "stop"


def subst(doc_plain_src, doc, names_vals):
    """c05-plain data of `doc` in which every scalar anchored under one of the names reads the given value"""
    E = c05._ENV

    def go(x):
        if isinstance(x, dict):
            return ("m", [(go(k), go(v)) for k, v in x.items()])
        if isinstance(x, (list, tuple)):
            return ("s", [go(e) for e in x])
        if docenc.is_set(x):
            return ("t", [go(e) for e in x])
        a = anchor_of(x)
        if a is not None and a in names_vals:
            return c05.plain(names_vals[a])
        return c05.plain(x)
    return go(doc)


def yaml_anchor_faults(text):
    """duplicate / undefined anchors in a YAML text, read off the parser's event stream"""
    from ruamel.yaml import YAML
    from ruamel.yaml.events import AliasEvent
    seen = set()
    faults = []
    with warnings.catch_warnings():
        warnings.simplefilter("ignore")
        for ev in YAML(typ="rt").parse(io.StringIO(text)):
            a = getattr(ev, "anchor", None)
            if a is None:
                continue
            if isinstance(ev, AliasEvent):
                if a not in seen:
                    faults.append("alias *%s has no definition before it" % a)
            else:
                if a in seen:
                    faults.append("anchor &%s is defined twice" % a)
                seen.add(a)
    return faults


def dump_reload_fault(m, merged_plain):
    editor = _ENV["Parsers"].get_yaml_editor()
    try:
        m.prepare_for_dump(editor, "out.yaml")
        buf = io.StringIO()
        with warnings.catch_warnings():
            warnings.simplefilter("ignore")
            editor.dump(m.data, buf)
    except Exception as e:  # noqa
        return "the merged document does not serialize: %s" % type(e).__name__
    text = buf.getvalue()
    faults = yaml_anchor_faults(text)
    if faults:
        return "the serialized result has a broken anchor: %s" % faults[0]
    with warnings.catch_warnings():
        warnings.simplefilter("ignore")
        back, ok = _ENV["Parsers"].get_yaml_data(_ENV["Parsers"].get_yaml_editor(), c05._ENV["log"], text, literal=True)
    if not ok:
        return "the serialized result does not reload"
    if dplain(back) != merged_plain:
        return "reloading the serialized result yields other data: %r instead of %r" % (dplain(back), merged_plain)
    return None


def judge_impl_only(case):
    """anchored containers: the merge must return (no endless loop), end in a document or a
    MergeException, and an accepted result must serialize without duplicate / undefined anchor
    and reload to the same data"""
    E = c05._ENV
    m, lhs, rhs = real_merge(case)
    try:
        c05.with_deadline(lambda: m.merge_with(rhs), 10)
    except c05.Timeout:
        return "the merge did not return within 10 s (endless loop)"
    except E["MergeException"]:
        return None
    except NameError:
        return None if c05.invalid_option_text(case6(case)) or str(eff_policy(case)).lower() not in POLICIES \
            else "merge ended in NameError"
    except Exception as e:  # noqa
        return "merge ended in %s (neither a document nor a MergeException)" % type(e).__name__
    return dump_reload_fault(m, dplain(m.data))


def judge(case, obs):
    E = c05._ENV
    lt, rt, opts, ini = case
    if impl_only(case):
        return judge_impl_only(case)
    l0, r0 = load(lt), load(rt)
    ldefs, rdefs = defs_of(l0), defs_of(r0)
    if ldefs is None or rdefs is None:
        return None                              # a name defined twice in one document: outside the quantifier
    common = [n for n in rdefs if n in ldefs]
    conflicts = [n for n in common if ldefs[n][1] != rdefs[n][1]]
    policy = str(eff_policy(case)).lower()
    line = obs[1]
    if policy not in POLICIES:
        if common:
            return None if line == "(raise (crash NameError))" else \
                "an anchor policy text that is no policy was accepted: %s" % line[:80]
        policy = "stop"                          # never consulted
    if line.startswith("(raise (crash"):
        if line == "(raise (crash NameError))" and c05.invalid_option_text(case6(case)):
            return None
        return "merge ended in %s (neither a document nor a MergeException)" % line
    if policy == "stop" and conflicts:
        return None if line == "(raise mergeexc)" else \
            "anchors=stop accepted a merge although &%s differs: %s" % (conflicts[0], line[:80])
    # ---- an accepted case: the data the policies define
    lp = subst(None, l0, {n: rdefs[n][0] for n in conflicts} if policy == "right" else {})
    rp = subst(None, r0, {n: ldefs[n][0] for n in conflicts} if policy == "left" else {})
    pol = c05.Policy(case6(case))
    try:
        exp = c05.ref_root(pol, lp, rp)
    except c05.Impossible:
        return None if line == "(raise mergeexc)" else \
            "structurally impossible merge not reported as MergeException: %s" % line[:80]
    except c05.Unjudged:
        exp = None
    if line == "(raise mergeexc)":
        return "a merge without anchor conflict under this policy (%s) was refused" % policy
    m, lhs, rhs = real_merge(case)
    lobj = {id(o): n for o, n in anchored(lhs)}
    robj = {id(o): n for o, n in anchored(rhs)}
    lval = {n: kind_val(o) for o, n in anchored(lhs)}
    rval = {n: kind_val(o) for o, n in anchored(rhs)}
    orig_val = {id(o): kind_val(o) for o, _ in anchored(lhs) + anchored(rhs)}
    keep = [lhs, rhs]                            # ids stay valid
    m.merge_with(rhs)
    res = m.data
    merged_plain = dplain(res)
    if exp is not None:
        got = c05.plain(res)
        if not (c05.same_layout(exp, got) and c05.same_layout(got, exp)):
            return "merged data differs from the policy-defined result: expected %r got %r" % (exp, got)
    names = {}
    for o, n in anchored(res):
        names.setdefault(n, {})[id(o)] = o
        if id(o) in orig_val and kind_val(o) != orig_val[id(o)]:
            return "an anchored scalar changed its value"
    for n, objs in names.items():
        if len(objs) > 1:
            return "two distinct nodes of the result carry the anchor name &%s: %s" % (
                n, sorted(repr(kind_val(o)) for o in objs.values()))
    all_names = set(lval) | set(rval)
    for n, objs in names.items():
        for i, o in objs.items():
            v = kind_val(o)
            if policy == "left" and n in conflicts and v != lval[n]:
                return "anchors=left: a node named &%s reads %r, the left value is %r" % (n, v, lval[n])
            if policy == "right" and n in conflicts and v != rval[n]:
                return "anchors=right: a node named &%s reads %r, the right value is %r" % (n, v, rval[n])
            if policy == "rename":
                if i in lobj and n != lobj[i]:
                    return "anchors=rename: a left-hand anchor &%s was renamed to &%s" % (lobj[i], n)
                if i in robj:
                    o_name = robj[i]
                    if o_name in conflicts:
                        if n == o_name or n in all_names:
                            return "anchors=rename: the conflicting right-hand anchor &%s is now &%s" % (o_name, n)
                        if v != rval[o_name]:
                            return "anchors=rename: the renamed anchor lost the right value"
                    elif n != o_name:
                        return "anchors=rename: a right-hand anchor without conflict &%s was renamed to &%s" % (o_name, n)
                if n in conflicts and v != lval[n]:
                    return "anchors=rename: a node named &%s reads %r, the left value is %r" % (n, v, lval[n])
            if n in common and n not in conflicts and v != lval[n]:
                return "equal anchors &%s: a node reads %r" % (n, v)
    # ---- serialize and reload
    return dump_reload_fault(m, merged_plain)


def aoh_default(case, obs):
    """F-C05-1 met through C10's data clause: on the documents as written, or on the pair the
    anchor policy hands to the merge proper (left / right replace anchored KEYS too, which can
    make a key common to both Hashes: `{&x k1: 2}` + `{&x k2: [..]}` under anchors=right)"""
    if c05.aoh_default_governs_non_aoh(case6(case), obs):
        return True
    if c05._aoh_default(case6(case)) not in ("left", "right"):
        return False
    try:
        l, r = real_resolve(case)
    except Exception:  # noqa
        return False
    return c05.aoh_governs_docs(case6(case), l, r)


def anchored_container_as_array_element(case, obs):
    """F-C10-1: a document holds an anchored Hash / Array that is itself an ELEMENT of an Array:
    Anchors.scan_for_anchors recurses into the element without looking at the element's own
    anchor, so a same-named anchor of the other document is never detected as common (neither
    as conflict nor as equal): the result carries the name on two objects"""
    def found(x):
        if isinstance(x, dict):
            return any(found(v) for v in x.values())
        if isinstance(x, (list, tuple)):
            return any(((isinstance(e, (dict, list)) and anchor_of(e) is not None) or found(e)) for e in x)
        return False
    return found(load(case[0])) or found(load(case[1]))


def count_entries(x):
    if isinstance(x, dict):
        return len(x) + sum(count_entries(v) for v in x.values())
    if isinstance(x, (list, tuple)):
        return sum(count_entries(e) for e in x)
    return 0


def anchored_key_collision(case, obs):
    """F-C10-2: left / right (and equal anchors) replace anchored hash KEYS too; when two keys of one
    Hash carry anchors whose replacements are equal (`{&z k1: .., &x k2: ..}` with `&x v`, `&z v` on the
    other side), Anchors.replace_anchor re-inserts the second under a key that exists: one entry of the
    Hash is silently lost (cf. C03 F24).  Recognised on the pair the real _resolve_anchor_conflicts
    produces: it holds fewer hash entries than the documents as loaded."""
    try:
        before = count_entries(load(case[0])) + count_entries(load(case[1]))
        l, r = real_resolve(case)
    except Exception:  # noqa
        return False
    return count_entries(l) + count_entries(r) < before


def key_names(x, acc):
    """anchor names carried by hash KEYS"""
    if isinstance(x, dict):
        for k, v in x.items():
            a = anchor_of(k)
            if a is not None:
                acc.add(a)
            key_names(v, acc)
    elif isinstance(x, (list, tuple)):
        for e in x:
            key_names(e, acc)
    return acc


def container_names(x):
    return {anchor_of(n) for n in walk_nodes(x, [])
            if (isinstance(n, (dict, list, tuple)) or docenc.is_set(n)) and anchor_of(n) is not None}


def anchored_key_meets_container(case, obs):
    """F-C10-3: left / right replace an anchored hash KEY by the other document's node of that name; when
    that node is a Hash / Array / Set, `data.insert(idx, repl_node, data.pop(key))` hashes it: TypeError.
    right: the key is in the left document; left: in the right document."""
    policy = str(eff_policy(case)).lower()
    try:
        l, r = load(case[0]), load(case[1])
    except Exception:  # noqa
        return False
    if policy == "right":
        return bool(key_names(l, set()) & container_names(r))
    if policy == "left":
        return bool(key_names(r, set()) & container_names(l))
    return False


FINDING_PREDS = {"aoh_default_governs_non_aoh": aoh_default,
                 "anchored_key_meets_container": anchored_key_meets_container,
                 "anchored_key_collision": anchored_key_collision,
                 "anchored_container_as_array_element": anchored_container_as_array_element}


# ---------------------------------------------------------------- generators
VALUES = ["1", "2", "v", "w", "true", "'1'", "1.0"]
VALUE_PAIRS = [("1", "1"), ("1", "2"), ("v", "w"), ("v", "v"), ("true", "true"), ("true", "false"),
               ("1", "'1'"), ("true", "1"), ("1", "1.0"), ("v", "'v'")]

# {K1..K4} keys, V / W values of &x / &y
TEMPLATES = [
    "{K1: &x V , K2: *x }",
    "{K1: &x V , K2: [*x , *x ]}",
    "{K1: [&x V , [*x , [*x ]]], K2: *x }",
    "[&x V , *x ]",
    "[[&x V ], {K1: *x }]",
    "{K1: {K3: &x V }, K2: {K4: *x }}",
    "{K1: &x V , K2: &y W , K3: [*x , *y ]}",
    "{K1: &y W , K2: &x V , K3: *y }",
    "{K1: &x V }",
    "{K1: &x V , K2: &x_1 W , K3: [*x , *x_1 ]}",
    "{K1: 5 , K2: [6 ]}",
    "{&x kV : 1 , K2: *x }",
    "{K1: &x V , K2: [{K3: *x }, {K3: &y W , K4: *y }]}",
]


def fill(t, keys, v, w):
    for i, k in enumerate(keys):
        t = t.replace("K%d" % (i + 1), k)
    t = t.replace("kV", "k" + v.strip("'").replace(".", "_"))
    return t.replace(" V ", " %s " % v).replace(" W ", " %s " % w)


LKEYS = ("a", "b", "c", "d")
RKEYS_DISJOINT = ("e", "f", "g", "h")
RKEYS_SAME = ("a", "b", "c", "d")
RKEYS_MIXED = ("b", "e", "a", "f")


class DocGen:
    """a random document over the name pool; names are defined once, aliases follow"""

    def __init__(self, rng, values, keys, allow_dup=False):
        self.rng = rng
        self.values = values          # name -> value text
        self.defined = []
        self.undefined = [n for n in values]
        rng.shuffle(self.undefined)
        self.keys = keys
        self.allow_dup = allow_dup

    def scalar(self):
        r = self.rng.random()
        if r < 0.3 and self.undefined:
            n = self.undefined.pop()
            self.defined.append(n)
            return "&%s %s " % (n, self.values[n])
        if r < 0.65 and self.defined:
            return "*%s " % self.rng.choice(self.defined)
        if r < 0.68 and self.allow_dup and self.defined:
            n = self.rng.choice(self.defined)
            return "&%s %s " % (n, self.rng.choice(VALUES))
        return self.rng.choice(["1", "2", "v", "5", "true", "~"]) + " "

    def node(self, depth):
        r = self.rng.random()
        if depth >= 2 or r < 0.55:
            return self.scalar()
        if r < 0.8:
            return self.seq(depth + 1, self.rng.randint(1, 3))
        return self.hash(depth + 1, self.rng.randint(1, 2))

    def seq(self, depth, n):
        els = [self.node(depth) for _ in range(n)]
        if els[0].startswith("{"):
            # an Array-of-Hashes: Nodes.wrap_type re-types anchored scalars that are its direct
            # elements (outside C05's model, see docs/C05.md) -- keep them out
            els = [e if e[0] not in "&*" else "7 " for e in els]
        return "[" + ", ".join(els) + "]"

    def key(self, k):
        if self.rng.random() < 0.1:
            if self.undefined and isinstance(self.values[self.undefined[-1]], str) and \
                    self.values[self.undefined[-1]] in ("v", "w"):
                n = self.undefined.pop()
                self.defined.append(n)
                return "&%s k%s%s " % (n, n, self.values[n])      # distinct from every other key of the document
        return k

    def hash(self, depth, n):
        ks = self.rng.sample(self.keys, n)
        return "{" + ", ".join("%s: %s" % (self.key(k), self.node(depth)) for k in ks) + "}"

    def doc(self):
        if self.rng.random() < 0.7:
            return self.hash(0, self.rng.randint(2, 4))
        return self.seq(1, self.rng.randint(2, 4))


C05_MIXES = [dict(), dict(arrays="unique"), dict(hashes="left"), dict(hashes="right"), dict(arrays="left"),
             dict(arrays="right"), dict(aoh="deep"), dict(aoh="unique", arrays="unique"), dict(sets="right")]


def chunks(tier, seed):
    rng = random.Random(seed)
    buf = []
    size = 250

    def emit(c):
        buf.append(c)
        if len(buf) >= size:
            out = list(buf)
            del buf[:]
            return out
        return None

    pairs = VALUE_PAIRS if tier == "thorough" else VALUE_PAIRS
    for lt in TEMPLATES:
        for rt in TEMPLATES:
            for rkeys in (RKEYS_DISJOINT, RKEYS_SAME, RKEYS_MIXED):
                chosen = pairs if tier == "thorough" else rng.sample(pairs, 3)
                for (vl, vr) in chosen:
                    wl, wr = rng.choice(VALUE_PAIRS)
                    l = fill(lt, LKEYS, vl, wl)
                    r = fill(rt, rkeys, vr, wr)
                    for p in POLICIES:
                        o = dict(rng.choice(C05_MIXES))
                        o["anchors"] = p
                        c = emit((l, r, o, None))
                        if c:
                            yield c
    n = 7000 if tier == "quick" else 120000
    names = ["x", "y", "z", "x_1"]
    for i in range(n):
        lv, rv = {}, {}
        for nm in names:
            if rng.random() < 0.7:
                a, b = rng.choice(VALUE_PAIRS)
                if rng.random() < 0.5:
                    a, b = b, a
                if rng.random() < 0.8:
                    lv[nm] = a
                if rng.random() < 0.8:
                    rv[nm] = b
        dup = (i % 40 == 3)
        l = DocGen(rng, lv, ["a", "b", "c", "d", "e"], allow_dup=dup).doc()
        same_top = l[0]
        g = DocGen(rng, rv, ["a", "b", "c", "f", "g"], allow_dup=dup)
        r = g.doc()
        o = dict(rng.choice(C05_MIXES)) if rng.random() < 0.7 else dict(rng.choice(c05.ALL_COMBOS))
        ini = None
        p = rng.choice(POLICIES)
        k = rng.random()
        if k < 0.8:
            o["anchors"] = p
        elif k < 0.9:
            ini = {"anchors": p}
        if i % 50 == 7:
            o["anchors"] = rng.choice(["bogus", "RENAME", "Left", ""])
        if not (loads(l) and loads(r)):
            continue
        c = emit((l, r, o, ini))
        if c:
            yield c
    if buf:
        yield buf


def loads(text):
    try:
        with warnings.catch_warnings():
            warnings.simplefilter("ignore")
            load(text)
        return True
    except Exception:  # noqa
        return False


CONTAINER_DOCS = [
    "{base: &b {x: 1 , y: 2 }, use: *b , list: &l [1 , 2 ], again: *l , name: &n val , ref: *n }",
    "{list: &l [1 , 2 ], again: *l }",
    "{list: &l [1 , 3 ], again: *l }",
    "{base: &b {x: 1 }, use: *b }",
    "{base: &b {x: 2 , z: 3 }, use: [*b ]}",
    "[&l [1 , 2 ], *l ]",
    "[&l [{id: 1 }], *l ]",
    "{k: &l [1 , 2 ]}",
    "{k: &m {a: &x 1 , b: *x }, j: *m }",
]


def container_cases():
    for l in CONTAINER_DOCS:
        for r in CONTAINER_DOCS:
            for p in POLICIES:
                for o in (dict(), dict(arrays="unique"), dict(aoh="deep", hashes="deep")):
                    o = dict(o)
                    o["anchors"] = p
                    yield (l, r, o, None)


def corpus_chunks():
    yield list(container_cases())
    yield [
        ("{a: &x 1 , b: *x }", "{c: &x 2 , d: *x }", {"anchors": "stop"}, None),
        ("{a: &x 1 , b: *x }", "{c: &x 2 , d: *x }", {"anchors": "left"}, None),
        ("{a: &x 1 , b: *x }", "{c: &x 2 , d: *x }", {"anchors": "right"}, None),
        ("{a: &x 1 , b: *x }", "{c: &x 2 , d: *x }", {"anchors": "rename"}, None),
        ("{a: &x 1 , b: *x }", "{c: &x 1 , d: *x }", {"anchors": "stop"}, None),
        ("{a: &x 1 , b: &x_1 5 }", "{c: &x 2 , d: *x }", {"anchors": "rename"}, None),
        ("{a: &x 1, b: &x_1 3 }", "{c: &x 2 , d: &x_1 6 , e: [*x , *x_1 ]}", {"anchors": "rename"}, None),
        ("{a: &x true , b: *x }", "{c: &x 1 , d: *x }", {"anchors": "stop"}, None),
        ("{a: &x 1 , b: *x }", "{c: &x 1.0 , d: *x }", {"anchors": "stop"}, None),
        ("{a: &x 1 , b: [*x , [*x ]]}", "{c: &x 2 , d: [*x , [*x ]]}", {"anchors": "left"}, None),
        ("{&x k : 1 , b: *x }", "{&x j : 2 , d: *x }", {"anchors": "left"}, None),
        # F-C10-3: an anchored key meets an anchored container of the same name (implementation-only stream)
        ("{&x k : 1 }", "{a: &x [1, 2]}", {"anchors": "right"}, None),
        ("{a: &x [1, 2]}", "{&x k : 1 }", {"anchors": "left"}, None),
        ("{&x k : 1 }", "{a: &x {b: 2}}", {"anchors": "right"}, None),
        ("{&x k : 1 }", "{a: &x [1, 2]}", {"anchors": "left"}, None),
        ("{&x k : 1 }", "{a: &x [1, 2]}", {"anchors": "rename"}, None),
        ("{&x k : 1 }", "{a: &x [1, 2]}", {"anchors": "stop"}, None),
    ]


# ---------------------------------------------------------------- bookkeeping
def key(case):
    l, r, o, ini = case
    return (l, r, tuple(sorted(o.items())), tuple(sorted((ini or {}).items())))


def classify(case, obs):
    l0, r0 = load(case[0]), load(case[1])
    ld, rd = defs_of(l0), defs_of(r0)
    if ld is None or rd is None:
        rel = "redefined"
    else:
        common = [n for n in rd if n in ld]
        conf = [n for n in common if ld[n][1] != rd[n][1]]
        rel = "conflict" if conf else "equal" if common else "disjoint" if (ld and rd) else "one-sided" if (ld or rd) \
            else "no-anchors"
    o = obs[1]
    if o == "true":
        return "impl-only:anchored-container"
    res = "ok" if o.startswith("(ok") else "mergeexc" if o == "(raise mergeexc)" else "other"
    g = obs[2].strip("()").split(" ") if len(obs) > 2 else []
    pair_guard = "guard" if len(g) == 8 and all(x == "true" for x in g[1:6]) else "noguard"   # c10_pair_guard
    return "%s:%s:%s:%s" % (str(eff_policy(case)).lower() if str(eff_policy(case)).lower() in POLICIES else "badtext",
                            rel, res, pair_guard)


def nontrivial(case, obs):
    l0, r0 = load(case[0]), load(case[1])
    ld, rd = defs_of(l0), defs_of(r0)
    return bool(ld and rd and any(n in ld for n in rd))


def describe(case):
    return {"lhs": case[0], "rhs": case[1], "options": case[2], "ini": case[3]}


def undescribe(d):
    return (d["lhs"], d["rhs"], d["options"], d["ini"])
