"""C11: a merge aimed at a path (mergeat) changes only what lies under that path.

Case = (lhs YAML, rhs YAML, mergeat path text, options).  The target locations
and the document after the creation of a missing path come from the real
Processor (run on separately loaded copies); the real Merger then runs on
fresh loads.  Observation: merged document or exception family.
"""
import random
from types import SimpleNamespace

from common import hexs, exc_line
import docenc
import oracles
import c05

CONFIG = {
    "id": "C11",
    "rule": ("left documents (nested hashes / arrays / sets / scalars over a small key alphabet) x target paths "
             "(existing single key / index, wildcard multi-target, missing and created, uncreatable, unmatchable "
             "search) x right documents of every root type x C05 option mixes; exhaustive on a core of 10 left "
             "documents x 9 paths x 8 right documents, random option mixes beyond; a family of 12 (document, path) "
             "pairs in which a wildcard / search / keyword path matches two or three containers of EQUAL content "
             "(empty lists, empty hashes, identical hashes, identical sets) x 8 right documents x option mixes.  "
             "a stream of per-path [rules] written, as a user writes them, for the merge point itself and for nodes "
             "below it (7 (document, merge point) families x right documents x every mode of the rule's kind x option "
             "mixes): the model receives the rule table the real MergerConfig resolved, the judge re-bases the rule paths "
             "itself (merge point = right-hand root) and demands the policy the RULE defines.  "
             "non-trivial = the path is not the root; distinct = distinct case tuple."),
    "trusted_base": [
        "modelled, not verified: Merger.merge_with target loop, _insert_* (coq/Model/MergeAt.v, Merge.v)",
        "input, not modelled: Processor.get_nodes(mergeat, default_value=rhs) -- the harness runs a FRESH real "
        "Processor on separately loaded copies (never the Merger's own _get_merge_target_nodes) and ships the "
        "yielded locations and the document after path creation; the judge recomputes the targets the same way "
        "and demands that EVERY matched node holds the policy-defined merge",
        "Processor._apply_change for a Scalar merged into a Scalar target is modelled as 'the value of this target "
        "becomes the right-hand value' (C03's subject)",
    ],
    "assumptions": [
        "target nodes are pairwise non-nested (paths like ** are outside the generator) and lie in the left "
        "document (since the repair of F-C11-5 path creation never stores the right-hand document in front of "
        "segments still to be evaluated; a target inside the right-hand document is a failure of the judge and a "
        "disagreement of the tie)",
        "the assumptions of C05",
    ],
}

_ENV = {}


def init_worker():
    c05.init_worker()
    from yamlpath import Processor, YAMLPath
    from yamlpath.exceptions import YAMLPathException
    _ENV.update(Processor=Processor, YAMLPath=YAMLPath, YPE=YAMLPathException)


def _split(case):
    """(lhs, rhs, mergeat path, options, per-path rules | None); the rules (stream `rule_cases`) name LEFT-document
    paths at or below the merge point, as a user writes them in the [rules] section"""
    return (case[0], case[1], case[2], case[3], case[4] if len(case) > 4 else None)


def _config(path, opts, rules):
    C = c05._ENV
    kw = {"rules": dict(rules)} if rules else {}
    return C["MergerConfig"](C["log"], SimpleNamespace(mergeat=path, **opts), **kw)


def rebase_rules(path, rules):
    """The judge's own reading of 'a rule written for a node at or below the merge point applies to the part of
    the right-hand document that lands there': the merge point itself is the right-hand root."""
    out = {}
    for rp, mode in (rules or {}).items():
        if rp == path:
            out["/"] = mode
        elif rp.startswith(path.rstrip("/") + "/"):
            out[rp[len(path.rstrip("/")):]] = mode
    return out


def locate(doc, nc):
    """location (list of refs) of a yielded node, by the identity of its parent"""
    if nc.parent is None:
        return []

    def go(x, loc):
        if x is nc.parent:
            return loc
        if isinstance(x, dict):
            for k, v in x.items():
                r = go(v, loc + [("K", k)])
                if r is not None:
                    return r
        elif isinstance(x, list):
            for i, v in enumerate(x):
                r = go(v, loc + [("I", i)])
                if r is not None:
                    return r
        return None
    p = go(doc, [])
    if p is None:
        raise docenc.Unsupported("target parent not found")
    ref = nc.parentref
    return p + [("I", ref) if isinstance(nc.parent, list) else ("K", ref)]


def inside_rhs(doc, rhs, loc):
    """the location passes THROUGH the right-hand document object (and goes on)"""
    cur = doc
    for t, r in loc:
        if cur is rhs:
            return True
        try:
            cur = cur[r]
        except Exception:  # noqa
            return False
    return False


def loc_sexp(loc):
    return "(%s)" % " ".join("(I i%d)" % r if t == "I" else "(K %s)" % docenc.pyval_sexp(r) for t, r in loc)


def plan(case):
    """(kind, request) -- kind 'model' with a request line, or 'skip' with the
    canonical line both sides agree on by construction (the Processor itself
    refused the path: not this model's subject)"""
    lhs_t, rhs_t, path, opts, rules = _split(case)
    E, C = _ENV, c05._ENV
    lhs = c05.load(lhs_t)
    rhs = c05.load(rhs_t)
    if rhs is None:
        return "noop", None
    p = E["YAMLPath"](path)
    is_root = p.is_root
    if lhs is None:
        if not is_root:
            return "empty-lhs-at-path", None     # seeding an empty document for a path: Nodes.build_next_node (C09)
        from yamlpath.common import Nodes
        lhs = Nodes.build_next_node(p, 0, rhs)
        if isinstance(rhs, (dict, list)) or docenc.is_set(rhs):
            return "noop-rhs", None
    proc = E["Processor"](C["log"], lhs)
    try:
        ncs = list(proc.get_nodes(p, default_value=rhs))
    except E["YPE"]:
        return "ype", None
    except Exception:  # noqa  the Processor itself crashed on this path: no targets to hand over; the judge reports it
        return "processor-crash", None
    locs = [locate(lhs, nc) for nc in ncs]
    for loc in locs:
        cur = lhs
        for t, r in loc:
            try:
                cur = cur[r]
            except Exception:  # noqa
                # the yielded node is not (any longer) reachable at its coordinates: partial path creation
                return "unresolvable-target", None
    enc = docenc.Encoder()
    enc.fresh_oid()
    d_s = enc.node(lhs)
    r_s = enc.node(rhs)
    cli = " ".join(c05.opt_sexp(opts.get(k)) for k in ("hashes", "arrays", "aoh", "sets", "anchors"))
    c_s = "(cfg false () () (%s) (none none none none none))" % cli
    if rules:
        # the rule table as the real MergerConfig resolves it on THIS right-hand document (C05's input convention);
        # whether the resolution is the right one is the judge's business (rebase_rules)
        cfg = _config(path, opts, rules)
        cfg.prepare(rhs)
        c_s = "(cfg true %s () (%s) (none none none none none))" % (c05.rule_table(enc, cfg.rules), cli)
    lt = oracles.lit_table(c05.scalars_of(lhs, []) + c05.scalars_of(rhs, []))
    return "model", "(mergeat %s %s %s (%s) %s %s)" % (c_s, lt, "true" if is_root else "false",
                                                     " ".join(loc_sexp(l) for l in locs), d_s, r_s)


def requests(case):
    kind, req = plan(case)
    if kind == "model":
        return [req]
    # the model is not asked: echo a trivially true request so that the line counts match
    return ["(node-eq (L i1 none false none none) (L i1 none false none none))"]


def observe(case):
    lhs_t, rhs_t, path, opts, rules = _split(case)
    C = c05._ENV
    kind, _ = plan(case)
    try:
        lhs = c05.load(lhs_t)
        rhs = c05.load(rhs_t)
        cfg = _config(path, opts, rules)
        m = C["Merger"](C["log"], lhs, cfg)
        m.merge_with(rhs)
        line = "(ok %s)" % c05.out_doc(m.data)
    except Exception as e:  # noqa
        line = exc_line(e)
    if kind != "model":
        _LAST[c05_key(case)] = line
        return ["true"]
    return [line]


_LAST = {}


def real_line(case):
    """the implementation's observation also for the cases the model skips"""
    lhs_t, rhs_t, path, opts, rules = _split(case)
    C = c05._ENV
    try:
        cfg = _config(path, opts, rules)
        m = C["Merger"](C["log"], c05.load(lhs_t), cfg)
        m.merge_with(c05.load(rhs_t))
        return "(ok %s)" % c05.out_doc(m.data)
    except Exception as e:  # noqa
        return exc_line(e)


def c05_key(case):
    return (case[0], case[1], case[2], tuple(sorted(case[3].items()))) + \
        ((tuple(sorted(case[4].items())),) if len(case) > 4 and case[4] else ())


key = c05_key


# ---- the property on the implementation's own result
def p_lookup(d, loc):
    for t, r in loc:
        if t == "K" and d[0] == "m":
            d = c05.p_get(d, c05.plain(r))
        elif t == "I" and d[0] == "s" and r < len(d[1]):
            d = d[1][r]
        else:
            return None
        if d is None:
            return None
    return d


def p_replace(d, loc, new):
    if not loc:
        return new
    (t, r), rest = loc[0], loc[1:]
    if t == "K":
        return ("m", [(k, p_replace(v, rest, new) if c05.p_eq(k, c05.plain(r)) else v) for k, v in d[1]])
    return ("s", [p_replace(v, rest, new) if i == r else v for i, v in enumerate(d[1])])


def judge(case, obs):
    lhs_t, rhs_t, path, opts, rules = _split(case)
    E, C = _ENV, c05._ENV
    line = real_line(case)
    if line.startswith("(raise (crash"):
        return "merge at %s ended in %s" % (path, line)
    rhs = c05.load(rhs_t)
    if rhs is None:
        return None
    lhs = c05.load(lhs_t)
    p = E["YAMLPath"](path)
    if lhs is None:
        from yamlpath.common import Nodes
        lhs = Nodes.build_next_node(p, 0, rhs)
    if c05.load(lhs_t) is None and not p.is_root:
        # an empty left document: whatever path gets created, the right-hand document must be in the result
        if line.startswith("(ok"):
            got = c05.plain_of_line(line)
            r = c05.plain(rhs)

            def contains(d):
                if c05.p_eq(d, r):
                    return True
                if d[0] == "m":
                    return any(contains(v) for _, v in d[1])
                if d[0] == "s":
                    return any(contains(v) for v in d[1])
                return False
            if not contains(got):
                return "the right-hand document is missing from the result of a merge into an empty document: %r" % (got,)
        return None
    proc = E["Processor"](C["log"], lhs)
    try:
        ncs = list(proc.get_nodes(p, default_value=rhs))
    except E["YPE"]:
        return None if line.startswith("(raise") else "an uncreatable path was not reported: %s" % line[:60]
    except Exception as e:  # noqa
        return "path evaluation crashed with %s" % type(e).__name__
    if not ncs:
        return None if line.startswith("(raise") else "an unmatched path was not reported: %s" % line[:60]
    if any(inside_rhs(lhs, rhs, locate(lhs, nc)) for nc in ncs):
        return None if line.startswith("(raise") else \
            "a path that cannot be created was not reported: the right-hand document was merged into its own children"
    created = c05.plain(lhs)
    pol = c05.Policy((lhs_t, rhs_t, opts, rebase_rules(path, rules) or None, None, None))
    r = c05.plain(rhs)
    exp = created
    try:
        for nc in ncs:
            loc = locate(lhs, nc)
            if nc.node is rhs:
                continue
            old = p_lookup(created, loc)
            if old is None:
                return None
            if old == ("l", None) and r[0] != "l" and loc:
                raise c05.Impossible("container into a null value")
            if old[0] == "l" and r[0] == "l":
                new = r
            else:
                new = c05.ref_root(pol, old, r)
            exp = p_replace(exp, loc, new)
    except c05.Impossible:
        return None if line == "(raise mergeexc)" else "impossible merge at the target not reported: %s" % line[:60]
    except c05.Unjudged:
        return None
    if not line.startswith("(ok"):
        return "a possible targeted merge failed with %s" % line
    got = c05.plain_of_line(line)
    if not (c05.same_layout(exp, got) and c05.same_layout(got, exp)):
        return "result differs from 'targets merged, everything else unchanged': expected %r got %r" % (exp, got)
    return None


def aoh_default(case, obs):
    return c05.aoh_default_governs_non_aoh((case[0], case[1], case[3], None, None, None), obs) or \
        c05._aoh_default((None, None, case[3], None, None, None)) in ("left", "right")


# F-C11-5 (uncreatable_segment_in_missing_path: a --mergeat path that is missing from the left document and goes
# on with a wildcard, search, anchor or slice made path creation store the right-hand document at the first missing
# step and evaluate the rest of the path INSIDE it, so the right-hand document was merged into its own children) is
# repaired in path creation (Nodes.require_buildable_path); its witnesses stay in the corpus and such paths are part
# of PATHS.
FINDING_PREDS = {"aoh_default_governs_non_aoh": aoh_default}

LHS = ["{a: {b: 1}, k: {b: 2}}", "{a: [1, 2], k: 5}", "{a: {b: {c: 1}}, l: [{id: 1}]}", "{a: !!set {x}, k: 1}",
       "[{a: 1}, {a: 2}]", "{a: 1}", "[]", "{}", "~", "{a: {b: [1]}, k: [2]}", "{a: [~, 1], k: 5}", "[[1, 2], [2], 5]"]
PATHS = ["/", "/a", "/a/b", "/k", "/*", "/x", "/x/y", "/a[0]", "/a[.=zz]", "[0]", "/l[id=1]", "/a[.=1]",
         # missing in every left document, and going on with a segment path creation cannot build (former F-C11-5)
         "/x/*", "/x[.=1]", "/x/y[0:1]", "/x[-1]"]
RHS = ["{c: 2}", "{b: 9}", "[2, 3]", "[{id: 1, v: 2}]", "7", "!!set {y}", "{}", "~"]


# several matched targets of EQUAL content: every one of them must receive the merge
# (targets are nodes, i.e. objects at places, not values)
EQUAL_TARGETS = [
    ("{a: [], k: []}", "/*"),
    ("{a: {}, k: {}}", "/*"),
    ("{a: {b: 1}, k: {b: 1}}", "/*"),
    ("{a: {b: 1}, k: {b: 1}}", "/*[has_child(b)]"),
    ("{a: [1], k: [1], m: [1]}", "/*"),
    ("[{a: 1}, {a: 1}]", "[a=1]"),
    ("[{a: 1}, {a: 1}]", "/*"),
    ("{l: [{id: 1}, {id: 1}], z: 0}", "/l[id=1]"),
    ("{l: [[], []]}", "/l/*"),
    ("{a: !!set {x}, k: !!set {x}}", "/*"),
    ("{a: {b: [1]}, k: {b: [1]}}", "/*/b"),
    ("{a: {b: {c: 1}}, k: {b: {c: 1}}}", "/*[b.c=1]/b"),
]


# per-path [rules] written for the merge point itself and for nodes below it (seed C11_3: a rule naming exactly the
# merge point was no longer re-based to the right-hand root and silently dropped)
RULE_TARGETS = [
    # (left document, mergeat, right documents, rule path -> candidate modes)
    ("{a: [1, 2], k: 5}", "/a", ["[2, 3]", "[1]", "[3, 3]"], {"/a": ["unique", "left", "right", "all"]}),
    ("{a: {b: 1, c: {d: 1}}, k: {b: 2}}", "/a", ["{b: 9, e: 3}", "{c: {d: 2, f: 1}}", "{e: 1}"],
     {"/a": ["left", "right", "deep"], "/a/c": ["left", "right", "deep"], "/a/b": ["left", "right"]}),
    ("{s: {l: [a, b], m: {x: 1}}, o: u}", "/s/l", ["[b, c]", "[a]"], {"/s/l": ["unique", "left", "right", "all"]}),
    ("{s: {l: [a, b], m: {x: 1}}, o: u}", "/s", ["{l: [b, c]}", "{m: {x: 2, y: 3}, l: [z]}"],
     {"/s/l": ["unique", "left", "right", "all"], "/s/m": ["left", "right", "deep"], "/s": ["left", "right", "deep"]}),
    ("{a: !!set {x, y}, k: 1}", "/a", ["!!set {y, z}"], {"/a": ["left", "right", "unique"]}),
    ("{l: [{id: 1, v: 1}], z: 0}", "/l", ["[{id: 1, v: 2}, {id: 2}]"], {"/l": ["all", "left", "right", "unique", "deep"]}),
    ("{a: {b: 1}}", "/x", ["{c: 2}", "[1]"], {"/x": ["left", "right"]}),               # the merge point is created
]


def rule_cases(rng, tier):
    out = []
    for l, p, rs, cand in RULE_TARGETS:
        for r in rs:
            for rp, modes in cand.items():
                for m in modes:
                    out.append((l, r, p, {}, {rp: m}))
                    o = dict(rng.choice(c05.ALL_COMBOS))
                    out.append((l, r, p, o, {rp: m}))
            for _ in range(6 if tier == "quick" else 40):
                rules = {rp: rng.choice(modes) for rp, modes in cand.items() if rng.random() < 0.6}
                if rules:
                    out.append((l, r, p, dict(rng.choice(c05.ALL_COMBOS)), rules))
    return out


def chunks(tier, seed):
    rng = random.Random(seed)
    buf = []
    rc = rule_cases(random.Random(seed * 31 + 7), tier)
    for j in range(0, len(rc), 300):
        yield rc[j:j + 300]
    for l, p in EQUAL_TARGETS:
        for r in RHS:
            mixes = [dict()] + rng.sample(c05.ALL_COMBOS, 6 if tier == "quick" else 40)
            for o in mixes:
                buf.append((l, r, p, o))
                if len(buf) >= 300:
                    yield buf
                    buf = []
    for l in LHS:
        for p in PATHS:
            for r in RHS:
                mixes = [dict()] + rng.sample(c05.ALL_COMBOS, 6 if tier == "quick" else 40)
                for o in mixes:
                    buf.append((l, r, p, o))
                    if len(buf) >= 300:
                        yield buf
                        buf = []
    pool = c05.docs_of_size(2) + c05.docs_of_size(3)
    for _ in range(4000 if tier == "quick" else 60000):
        l = rng.choice(LHS + [d for d in c05.docs_of_size(4) if d.startswith("{")][:400])
        buf.append((l, rng.choice(RHS + pool), rng.choice(PATHS + ["/b", "/id", "/a/id", "/a/a"]),
                    dict(rng.choice(c05.ALL_COMBOS))))
        if len(buf) >= 300:
            yield buf
            buf = []
    if buf:
        yield buf


def corpus_chunks():
    yield [
        ("~", "{a: 1}", "/x", {}),                                  # fixed f991aeb
        ("{a: [1, 2]}", "[2, 3]", "/a", {"arrays": "unique"}),      # former F-C11-1 (fixed 6840572)
        ("{a: {b: 1}}", "{c: 2}", "/a", {"hashes": "right"}),       # former F-C11-1
        ("{a: [1, 2]}", "[2, 3]", "/a", {"arrays": "right"}),       # former F-C11-1
        ("{l: [{id: 1}]}", "[{id: 1, v: 2}]", "/l", {"aoh": "right"}),   # former F-C11-1
        ("{a: !!set {x}}", "!!set {y}", "/a", {"sets": "right"}),   # former F-C11-1
        ("[[1, 2], 5]", "[2, 3]", "[0]", {"arrays": "unique"}),     # former F-C11-1, the parent is an Array
        ("{a: {b: 1}, k: {b: 2}}", "{c: 2}", "/*", {"hashes": "right"}),  # former F-C11-1, two targets
        ("{a: [1, 2], k: 5}", "7", "/*", {}),                       # former F-C11-2 (fixed c8dbfd9)
        ("{a: !!set {x}, k: 5}", "7", "/*", {}),                    # former F-C11-2 (and F-C11-3)
        ("{a: 1, k: 5}", "7", "/*", {}),                            # two Scalar targets
        ("{a: !!set {x}, k: 1}", "7", "/k", {}),                    # former F-C11-3 (Processor fixed: ecc1034)
        ("{a: [~, 1]}", "7", "/a[.=zz]", {}),                       # former F-C11-4 (Processor fixed: 21d5108)
        ("{a: [~, 1]}", "7", "/a[.=1]", {}),
        ("~", "{id: {b: '1'}}", "/*", {}),                          # former F-C11-5 (fixed 45f1b07)
        ("{a: 1}", "{id: {b: '1'}}", "/x/*", {}),                   # former F-C11-5
        ("~", "[[1]]", "/*", {}), ("~", "7", "[0:2]", {}), ("{a: 1}", "{c: 1}", "/x[&z]", {}),   # former F-C11-5
        ("{a: 1}", "7", "/x[.=1]", {}), ("{a: 1}", "[2]", "/x/y[-1]", {}),                        # former F-C11-5
        ("{a: {b: 1}}", "{c: 2}", "/x/y", {}),
        ("{a: {b: 1}, k: {b: 2}}", "{c: 2}", "/*", {}),
        ("{a: 1}", "{c: 2}", "/b[.=x]", {}),
        ("{a: [], k: []}", "[2, 3]", "/*", {}),                    # two matched targets of equal content
        ("{a: {b: 1}, k: {b: 1}}", "{c: 2}", "/*", {}),
        ("[{a: 1}, {a: 1}]", "{c: 2}", "[a=1]", {}),
    ]


def classify(case, obs):
    kind, _ = plan(case)
    line = real_line(case) if kind != "model" else obs[0]
    res = "ok" if line.startswith("(ok") else "mergeexc" if line == "(raise mergeexc)" else \
        "ype" if line == "(raise ype)" else "other"
    return "%s:%s:%s%s" % (kind, "root" if case[2] == "/" else "path", res,
                           ":rules" if len(case) > 4 and case[4] else "")


def nontrivial(case, obs):
    return case[2] != "/"


def describe(case):
    d = {"lhs": case[0], "rhs": case[1], "mergeat": case[2], "options": case[3]}
    if len(case) > 4 and case[4]:
        d["rules"] = case[4]
    return d


def undescribe(d):
    if d.get("rules"):
        return (d["lhs"], d["rhs"], d["mergeat"], d["options"], d["rules"])
    return (d["lhs"], d["rhs"], d["mergeat"], d["options"])
