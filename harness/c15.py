"""C15: evaluating any path on any document fails only with YAML Path errors.

Case = (document text, [paths]); per path three observations (required query,
optional query, exists()).  See harness/evalcommon.py.
"""
import evalcommon as ec
from evalcommon import init_worker, requests, observe, describe, undescribe, key  # noqa: F401

CONFIG = {
    "id": "C15",
    "rule": ("documents: a fixed list of shapes that exercise every handler branch (nulls, empty containers, "
             "mixed-type lists, AoH, sets, anchors/aliases, escapable keys, non-str keys) + every flow-YAML tree of "
             "<= 3 (quick) / 4-5 (thorough) nodes over 6 scalars and 3 keys + seeded random trees up to 40 nodes + "
             "documents nested 50..400 deep; paths: every 1-segment path of the segment vocabulary (keys, indexes and "
             "slice bounds negative/in range/out of range, [&anchor], *, **, splats, 10 operator spellings x "
             "inversion x attribute in {., key, key.key, *, a.*, **, /a/b, a[0]} x 9 terms, valid and invalid "
             "regexes) in dot and slash notation, collector expressions, sampled/exhaustive 2-segment paths, random "
             "paths of up to 5 segments; each under get_nodes(mustexist=True), get_nodes(mustexist=False) and "
             "exists().  Keyword-search segments (evalcommon.gen_kw_cases): 58 spellings of [has_child(..)] incl. "
             "&anchor and the empty key, [name()], [max(..)], [min(..)], [parent(n)] for n in -1..9 / non-integer / "
             "padded, [unique(..)], [distinct(..)], inverted forms, surplus parameters -- alone (dot and slash), after "
             "28 prefixes (keys, indexes, wildcards, **, slices incl. the [n:n] form, searches, [&anchor], collector "
             "expressions) and before 12 suffixes, 57 chains (parent() chains, keyword after keyword, slices of "
             "slices), over 36 keyword documents (nulls, empty containers, mixed-type lists, lists holding lists / "
             "hashes, Array-of-Hashes and hash-of-hashes with the attribute present / absent / null / a container, "
             "the single-node shape, sets, anchors) + the fixed list + small trees, and at random positions of "
             "random paths over random documents and random keyword collections.  non-trivial = at least one of the "
             "observations is a non-empty result or an exception other than 'unmatched'; distinct = distinct "
             "(document, path list)."),
    "trusted_base": [
        "modelled, not verified: yamlpath/processor.py 59-167 and 811-2627 (query side), wrappers/nodecoords.py, "
        "YAMLPath.__add__/append/separator, Nodes.node_is_aoh; common/searches.py + Nodes.typed_value through Searches.v",
        "oracles (Section variables in Coq, finite tables computed by the real libraries in the run): "
        "ast.literal_eval, re.compile().search, str() of ruamel containers",
        "keyword segments: Keywords.v (yamlpath/common/keywordsearches.py) joined to the evaluator by the coordinate "
        "conversion of EvalKw.v (synthetic per-call document, keyword-specific views of evaluator-built lists)",
        "parameter of the model: the node-creating branches of _get_optional_nodes (a query that creates nodes is "
        "observed and modelled as 'mutates' and nothing more)",
        "a scalar node whose value equals its own parentref (the result of name()) is compared by value, not by "
        "CPython identity (drv_eval.ml name_like / evalcommon.node_or_name_sexp)",
        "not modelled: YAML merge keys, TaggedScalar unwrapping, anchored YAML booleans among the values max/min "
        "compare, Python's recursion limit (deep documents are only run on the real code)",
    ],
    "assumptions": [
        "the model is the code only as far as the correspondence run shows",
        "C15_* theorems assume the oracles answer (lit / re_search never fail, literal_eval raises only the "
        "exceptions typed_value catches) and are stated for paths whose sub-paths were prepared by Eval.prepare",
        "C15_*_kw: nothing is asked of keyword parameter texts (one that does not split is a YAMLPathException "
        "since the repair of F31); C15_*_partial: the guard kc_fragment "
        "(collector expression first, every operand evaluated on the document yields scalars)",
    ],
}


KW_NAMES = ("has_child(", "name(", "max(", "min(", "parent(", "unique(", "distinct(")


def is_crash(line):
    return line.startswith("(raise (crash")


def violations(case, obs):
    doc, paths = case
    for i, line in enumerate(obs):
        if is_crash(line):
            path, mode = paths[i // 3], ec.MODES[i % 3]
            # the property limits collectors to operands that select scalars
            if "(" in path and not ec.scalar_operands(doc, path, mode):
                continue
            yield path, mode, line


def judge(case, obs):
    for path, mode, line in violations(case, obs):
        return "%s of %r on %r ended in %s" % (mode, path, case[0], line)
    return None


def classify(case, obs):
    kinds = {"ok": 0, "empty": 0, "ype": 0, "mut": 0, "crash": 0}
    for l in obs:
        if l == "(ok ())" or l == "(ok false)":
            kinds["empty"] += 1
        elif l.startswith("(ok"):
            kinds["ok"] += 1
        elif l == "(raise ype)":
            kinds["ype"] += 1
        elif l == "(mutates)":
            kinds["mut"] += 1
        else:
            kinds["crash"] += 1
    dom = max(kinds, key=lambda k: kinds[k])
    kw = sum(1 for p in case[1] if any(k in p for k in KW_NAMES))
    return "docsize%02d:%s:kw%s" % (min(len(case[0]) // 10, 20), dom,
                                    "0" if kw == 0 else ("some" if kw < len(case[1]) else "all"))


def nontrivial(case, obs):
    return any(l.startswith("(ok (") and l != "(ok ())" for l in obs)


# findings F25 (text glued to a closing collector parenthesis, '(a)b') and F30 (brackets and parentheses closing
# each other, a collector opened inside a [...] segment: '[(a)]', '(][max(())]', '[max()\\])') ended in
# NotImplementedError; both are repaired in the parser.  Their witnesses stay in the corpus below and a stream of
# tangled texts is part of every run (tangle_cases).
# finding F31 ('[max(\\')]': an escaped quote reaches SearchKeywordTerms.parameters unbalanced; ValueError) is
# repaired in KeywordSearches.search_matches; its witnesses stay in the corpus and in evalcommon.KW_SEGS.
FINDING_PREDS = {}

TANGLE_TOKENS = ["(", ")", "[", "]", "'", "\\", "a", "b", "=", "max", "&", ".", "~", "/", "+", "!", "0", ":", "*"]


def tangle_cases(tier, seed):
    """malformed texts around brackets, parentheses, quotes and escapes: every token string of length <= 3 over
    the eight marks, then seeded random token strings of length 3-10"""
    import itertools
    import random
    rng = random.Random(seed * 31 + 15)
    marks = ["(", ")", "[", "]", "'", "\\", "a", "max"]
    paths = ["".join(t) for n in (1, 2, 3) for t in itertools.product(marks, repeat=n)]
    for _ in range(6000 if tier == "thorough" else 900):
        paths.append("".join(rng.choice(TANGLE_TOKENS) for _ in range(rng.randint(3, 10))))
    paths = sorted(set(paths), key=lambda x: (len(x), x))
    for i in range(0, len(paths), 30):
        yield ("{a: 1, b: [2, 3], max: 4}", paths[i:i + 30])


def corpus_chunks():
    yield [("{a: 1, b: 2}", ["(a)b", "(a)'b'", "a.(b)c"]), ("{a: 1, b: 2}", ["[(a)]", "(][max(())]", "a[(b)]"]),
           ("{a: 1, b: 2}", ["[a=(b)]", "[a='(b)']", "[a='(b)'=c]", "[a=[b(c)]=d]", "[a=[(c)]=d]", "[max()\\])", "[max(])",
                             "[()]", "[[(a)]]", "'a(b)'", "'[(a)]'", "(a[(b)])", "[max('a)]]"]),
           ("{a: 1, b: 2}", ["[max(\\')]", "[has_child(\\\")]", "[!min(a\\')]"]),      # F31 (repaired)
           # a missing key followed by a segment nothing can be built for (F-C11-5, repaired: refused, no mutation)
           ("{a: 1, b: 2}", ["x.*", "x.**", "x[.=1]", "x[max()]", "x[0:2]", "x[&q]", "x(a)+(b)", "x[-1]", "x.y[0].*", "/x/y/*"]),
           ("{a: null, l: [1]}", ["a[0:1]", "a[-1]", "a.b.*", "l[3].*", "l[1][.=1]", "a.*", "a[.=1]"]),
           # keyword segments: the repaired defects and the seeded one
           ("x: {a: 1}", ["x[has_child(,)]", "x[!has_child(,)]"]), ("x: [[{a: 1}]]", ["x[0:1][0:1][0][max(a)]"]),
           ("x: {a: 1, b: 2}", ["x.*[parent()]", "x.**[parent()]", "x.*[parent(2)]"]),
           ("[{k: 1}, null, {k: 0}]", ["[min(k)]", "[max(k)]", "[!min(k)]"]),
           ("[{a: null}]", ["/[name(a)](**)[!max(a)]", "[name()]", "[0].a[name()][parent(0)]"]), ("[1, [2], 1]", ["[unique()]", "[distinct()]"]),
           ("[1]", ["[-2]", "/-2", "[0:9]", "[-9:1]"]), ("[null]", ["[.=x]"]), ("{a: [x]}", ["a[.=~/(/]"]),
           ("{1: x, a: y}", ["[a:z]"]), ("[a]", ["[.={[1]:2}]"]), ("['{[1]: 2}']", ["[.=a]"])]


def extra_requests(case):
    return ec.frag_requests(case)


def model_stats(case, outs):
    return ec.frag_stats(case, outs)


def chunks(tier, seed):
    import itertools
    return ec.chunks_by_weight(itertools.chain(tangle_cases(tier, seed), ec.gen_kw_cases(tier, seed),
                                               ec.gen_scalar_collector_cases(tier, seed),
                                               ec.gen_cases(tier, seed, with_collectors=True)))
