#!/venv/bin/python
"""Stand-in for the hiera-eyaml executable (the Ruby gem is absent here).

Speaks the part of the command line protocol yamlpath's EYAMLProcessor uses
(yamlpath/eyaml/eyamlprocessor.py:146-173, 218-243):

  eyaml encrypt --quiet --stdin --output=string|block [--pkcs7-public-key=F] [--pkcs7-private-key=F]
  eyaml decrypt --quiet --stdin                       [--pkcs7-public-key=F] [--pkcs7-private-key=F]

The value travels on STDIN, the answer on STDOUT.  The cipher is a keyed,
reversible, deterministic toy: the key is the identity line of the key file
(`STANDIN-EYAML-KEY <id>`; the public and the private file of one pair carry the
same id), the key stream is SHA-256 in counter mode over the id, the plaintext
is prefixed by a 4-byte tag so that decrypting under another key is *detected*
(exit status 1, like eyaml's "decryption failed").  Laws (the hypotheses of the
C19 theorems): dec k (enc k p) = p;  k <> k' -> dec k' (enc k p) fails;
enc k p starts with the ENC[ marker.

Like the real tool, `decrypt` writes the plaintext followed by a newline unless
it already ends with one (Ruby `puts`), and `--output=block` writes the
ciphertext indented and wrapped over several lines.
"""
import base64
import hashlib
import sys

TAG = b"\x00OK\x00"


def key_id(path):
    try:
        with open(path, "r", encoding="utf-8") as f:
            first = f.readline().strip()
    except OSError as e:
        sys.stderr.write("standin-eyaml: cannot read key %s: %s\n" % (path, e))
        sys.exit(1)
    if not first.startswith("STANDIN-EYAML-KEY "):
        sys.stderr.write("standin-eyaml: %s is not a stand-in key\n" % path)
        sys.exit(1)
    return first[len("STANDIN-EYAML-KEY "):].encode("utf-8")


def stream(kid, n):
    out = b""
    ctr = 0
    while len(out) < n:
        out += hashlib.sha256(kid + b":" + str(ctr).encode()).digest()
        ctr += 1
    return out[:n]


def xor(kid, data):
    ks = stream(kid, len(data))
    return bytes(a ^ b for a, b in zip(data, ks))


def encrypt_bytes(kid, plain):
    return "ENC[PKCS7," + base64.b64encode(xor(kid, TAG + plain)).decode("ascii") + "]"


def decrypt_text(kid, text):
    t = "".join(text.split())
    if not (t.startswith("ENC[PKCS7,") and t.endswith("]")):
        return None
    try:
        raw = base64.b64decode(t[len("ENC[PKCS7,"):-1], validate=True)
    except Exception:  # noqa
        return None
    p = xor(kid, raw)
    if not p.startswith(TAG):
        return None
    return p[len(TAG):]


def main(argv):
    if len(argv) < 2 or argv[1] not in ("encrypt", "decrypt"):
        sys.stderr.write("standin-eyaml: usage: encrypt|decrypt --stdin ...\n")
        return 2
    action = argv[1]
    output = "string"
    pub = priv = None
    use_stdin = False
    for a in argv[2:]:
        if a == "--quiet":
            pass
        elif a == "--stdin":
            use_stdin = True
        elif a.startswith("--output="):
            output = a.split("=", 1)[1]
        elif a.startswith("--pkcs7-public-key="):
            pub = a.split("=", 1)[1]
        elif a.startswith("--pkcs7-private-key="):
            priv = a.split("=", 1)[1]
        else:
            sys.stderr.write("standin-eyaml: unknown option %s\n" % a)
            return 2
    if not use_stdin:
        sys.stderr.write("standin-eyaml: only --stdin is supported\n")
        return 2
    data = sys.stdin.buffer.read()
    if action == "encrypt":
        if pub is None:
            sys.stderr.write("standin-eyaml: no public key\n")
            return 1
        ct = encrypt_bytes(key_id(pub), data)
        if output == "block":
            lines = [ct[i:i + 60] for i in range(0, len(ct), 60)]
            sys.stdout.write("".join("    " + l + "\n" for l in lines))
        elif output == "string":
            sys.stdout.write(ct + "\n")
        else:
            sys.stderr.write("standin-eyaml: unknown output format %s\n" % output)
            return 2
        return 0
    if priv is None:
        sys.stderr.write("standin-eyaml: no private key\n")
        return 1
    plain = decrypt_text(key_id(priv), data.decode("ascii", "replace"))
    if plain is None:
        sys.stderr.write("standin-eyaml: decryption failed\n")
        return 1
    sys.stdout.buffer.write(plain)
    if not plain.endswith(b"\n"):
        sys.stdout.buffer.write(b"\n")
    return 0


if __name__ == "__main__":
    sys.exit(main(sys.argv))
