"""In-process runs of the real command-line tools with their file I/O observed
and, on request, made to fail at the k-th call (C17, also used by C19).

No source hook: the wrappers are installed as attributes of the COMMAND
MODULE's namespace (`open`, `copy2`, `copyfileobj`, `remove`, `exists`,
`tempfile`, `json`) - exactly the names the module's own code resolves - and on
`ruamel.yaml.YAML.dump/dump_all` (the bound method the tools call on the editor
object); everything is restored afterwards.

A *trace* is the list of I/O operations the tool performed, in the vocabulary
of coq/Model/SaveProtocol.v:

    (exists R) (remove R) (copy2 R R) (mktmp) (openread R) (copyobj R R)
    (opentrunc R) (dump R) (render) (write R)

with R one of target | bak | output | tmp | other | stdout.  Operations on
`other` files (the -f value file, key files, ...) and on stdout are recorded
with that role and never faulted.  `(render)` is a serialisation into memory
(json.dumps, or a dump / dump_all / json.dump into a StringIO that is not
sys.stdout); `(write R)` is a write() the command module itself performs on a
tracked file it opened for writing (writes made on its behalf by a dumper or by
copyfileobj belong to that call).

Fault injection: `fault=(k, mode, kind)` - or a list of such triples - makes
the k-th (0-based) recorded operation among the faultable ones fail; every
triple fires at most once, at its own position (positions count every
faultable operation of the run, the failed ones included).  mode "before": the
operation raises without having done anything.  mode "mid": the operation
performs the pessimistic half of its effect and then raises (truncating open:
the file is truncated; copy2/copyfileobj: half of the bytes arrive; remove: the
file is gone yet an error is reported; dump / write: half of the text is
written).  kind: "oserror" OSError(EIO); "assert" AssertionError; "typeerror",
"valueerror", "recursion" - exceptions that are neither; "interrupt"
KeyboardInterrupt (a BaseException that `except Exception` does not catch).
"""
import errno
import io
import os
import shutil
import sys
import tempfile as _real_tempfile
import types

_builtin_open = open


class FakeStdin(io.StringIO):
    """A stdin that claims to be a terminal (so the tools do not wait for a
    document on it) unless text is supplied."""

    def __init__(self, text=None):
        super().__init__(text or "")
        self._tty = text is None

    def isatty(self):
        return self._tty


class _WriteProxy:
    """A file opened for writing on a tracked path: write() calls made directly
    by the command module are operations of their own."""

    def __init__(self, ffs, f, role):
        object.__setattr__(self, "_ffs", ffs)
        object.__setattr__(self, "_f", f)
        object.__setattr__(self, "_role", role)

    def __getattr__(self, name):
        return getattr(self._f, name)

    def __enter__(self):
        self._f.__enter__()
        return self

    def __exit__(self, *a):
        # the implicit close() of `with open(..., 'w') as f:` - a call of its own that can fail
        self._close_fault()
        return self._f.__exit__(*a)

    def close(self):
        self._close_fault()
        return self._f.close()

    def _close_fault(self):
        """close_fault = "before": close() reports an error, the bytes are what the writes left;
        "mid": the flush got half way (the file keeps half of its bytes).  Fires once, on the
        first tracked write handle that is closed."""
        ffs = self._ffs
        mode = ffs.close_fault
        if not mode or ffs.close_fired or self._f.closed:
            return
        ffs.close_fired = True
        ffs.fired = True
        ffs.nfired += 1
        ffs.fired_ops.append("(close %s)" % self._role)
        self._f.flush()
        if mode == "mid":
            fd = self._f.fileno()
            os.ftruncate(fd, os.fstat(fd).st_size // 2)
        self._f.close()
        ffs._raise("oserror")

    def __iter__(self):
        return iter(self._f)

    def write(self, data):
        ffs = self._ffs
        if ffs._depth == 0:
            inj = ffs._step("(write %s)" % self._role)
            if inj:
                if inj[0] == "mid":
                    self._f.write(data[:len(data) // 2])
                    self._f.flush()
                ffs._raise(inj[1])
        return self._f.write(data)


class FaultFS:
    def __init__(self, mod, roles, fault=None, close_fault=None):
        """mod: the command module; roles: {absolute path: role name};
        fault: None | (k, mode, kind) | a list of such triples;
        close_fault: None | "before" | "mid" - the close() of the first tracked write handle fails."""
        self.mod = mod
        self.close_fault = close_fault
        self.close_fired = False
        self.roles = dict(roles)
        if fault is None:
            self.faults = []
        elif fault and isinstance(fault[0], (tuple, list)):
            self.faults = [tuple(f) for f in fault if f is not None]
        else:
            self.faults = [tuple(fault)]
        self.nfired = 0
        self.fired_ops = []   # the operations the faults hit, in order
        self._depth = 0       # > 0 while a wrapped call does its real work
        self.trace = []
        self.nfaultable = 0
        self.fired = False
        self.handles = {}     # id(file object) -> role
        self._keep = []       # keep file objects alive so ids are not reused
        self._saved = {}
        self._yaml_saved = None
        self.dumped = []      # documents handed to YAML.dump / dump_all for a tracked file

    # ---- bookkeeping -------------------------------------------------------
    def role_of_path(self, p):
        try:
            ap = os.path.abspath(p)
        except Exception:  # noqa
            return "other"
        return self.roles.get(ap, "other")

    def role_of_handle(self, f):
        if f is sys.stdout:
            return "stdout"
        if isinstance(f, io.StringIO):
            return "mem"
        return self.handles.get(id(f), "other")

    def _real(self, fn):
        """Run the real work of a wrapped call; writes it makes on a tracked
        file are part of it, not operations of the command module."""
        self._depth += 1
        try:
            return fn()
        finally:
            self._depth -= 1

    def _note(self, f, role):
        self.handles[id(f)] = role
        self._keep.append(f)

    def _step(self, line, faultable=True):
        """Record one operation; returns None or the (mode, kind) to inject."""
        self.trace.append(line)
        if not faultable:
            return None
        k = self.nfaultable
        self.nfaultable += 1
        for i, ft in enumerate(self.faults):
            if ft is not None and ft[0] == k:
                self.faults[i] = None
                self.fired = True
                self.nfired += 1
                self.fired_ops.append(line)
                return (ft[1], ft[2])
        return None

    @staticmethod
    def _raise(kind):
        if kind == "assert":
            raise AssertionError("injected")
        if kind == "typeerror":
            raise TypeError("injected")
        if kind == "valueerror":
            raise ValueError("injected")
        if kind == "recursion":
            raise RecursionError("injected")
        if kind == "interrupt":
            raise KeyboardInterrupt()
        raise OSError(errno.EIO, "injected I/O error")

    # ---- wrappers ----------------------------------------------------------
    def w_open(self, file, mode="r", *a, **kw):
        role = self.role_of_path(file) if isinstance(file, (str, bytes, os.PathLike)) else "other"
        writing = any(c in mode for c in "wax+")
        tracked = role in ("target", "bak", "output")
        inj = self._step("(%s %s)" % ("opentrunc" if writing else "openread", role), faultable=tracked)
        if inj:
            if inj[0] == "mid" and writing:
                _builtin_open(file, mode, *a, **kw).close()
            self._raise(inj[1])
        f = _builtin_open(file, mode, *a, **kw)
        if tracked and writing:
            f = _WriteProxy(self, f, role)
        self._note(f, role)
        return f

    def w_copy2(self, src, dst, *a, **kw):
        inj = self._step("(copy2 %s %s)" % (self.role_of_path(src), self.role_of_path(dst)))
        if inj:
            if inj[0] == "mid":
                data = _builtin_open(src, "rb").read()
                with _builtin_open(dst, "wb") as o:
                    o.write(data[:len(data) // 2])
            self._raise(inj[1])
        return shutil.copy2(src, dst, *a, **kw)

    def w_copyfileobj(self, fsrc, fdst, *a, **kw):
        inj = self._step("(copyobj %s %s)" % (self.role_of_handle(fsrc), self.role_of_handle(fdst)))
        if inj:
            if inj[0] == "mid":
                data = fsrc.read()
                self._real(lambda: (fdst.write(data[:len(data) // 2]), fdst.flush()))
            self._raise(inj[1])
        return self._real(lambda: shutil.copyfileobj(fsrc, fdst, *a, **kw))

    def w_remove(self, path, *a, **kw):
        inj = self._step("(remove %s)" % self.role_of_path(path))
        if inj:
            if inj[0] == "mid":
                os.remove(path)
            self._raise(inj[1])
        return os.remove(path, *a, **kw)

    def w_exists(self, path):
        role = self.role_of_path(path)
        inj = self._step("(exists %s)" % role, faultable=role in ("target", "bak", "output"))
        if inj:
            self._raise(inj[1])
        return os.path.exists(path)

    def w_tempfile(self, *a, **kw):
        inj = self._step("(mktmp)")
        if inj:
            self._raise(inj[1])
        f = _real_tempfile.TemporaryFile(*a, **kw)
        self._note(f, "tmp")
        return f

    def _dump_like(self, real, text_of, stream, label="dump"):
        role = self.role_of_handle(stream)
        if role == "mem":
            inj = self._step("(render)")
        else:
            inj = self._step("(%s %s)" % (label, role), faultable=role in ("target", "bak", "output"))
        if inj:
            if inj[0] == "mid" and role != "mem":
                try:
                    text = text_of()
                except Exception:  # noqa  (a document the serialiser refuses: nothing got written)
                    text = ""
                self._real(lambda: (stream.write(text[:len(text) // 2]), stream.flush()))
            self._raise(inj[1])
        return self._real(real)

    def install(self):
        mod = self.mod
        me = self

        def put(name, val):
            self._saved[name] = mod.__dict__.get(name, _MISSING)
            setattr(mod, name, val)

        put("open", self.w_open)
        if hasattr(mod, "copy2"):
            put("copy2", self.w_copy2)
        if hasattr(mod, "copyfileobj"):
            put("copyfileobj", self.w_copyfileobj)
        if hasattr(mod, "remove"):
            put("remove", self.w_remove)
        if hasattr(mod, "exists"):
            put("exists", self.w_exists)
        if hasattr(mod, "tempfile"):
            shim = types.SimpleNamespace(TemporaryFile=self.w_tempfile)
            put("tempfile", shim)
        if hasattr(mod, "json"):
            import json as _json

            def j_dump(obj, fp, *a, **kw):
                return me._dump_like(lambda: _json.dump(obj, fp, *a, **kw),
                                     lambda: _json.dumps(obj, *a, **kw), fp)

            def j_dumps(obj, *a, **kw):
                inj = me._step("(render)")
                if inj:
                    me._raise(inj[1])
                return _json.dumps(obj, *a, **kw)

            put("json", types.SimpleNamespace(dump=j_dump, dumps=j_dumps, loads=_json.loads, load=_json.load))
        from ruamel.yaml import YAML
        real_dump, real_dump_all = YAML.dump, YAML.dump_all
        self._yaml_saved = (YAML, real_dump, real_dump_all)

        def guarded(fn, *a, **kw):
            # YAML.dump is implemented through self.dump_all: count it once
            prev = getattr(me, "_in_dump", False)
            me._in_dump = True
            try:
                return fn(*a, **kw)
            finally:
                me._in_dump = prev

        def y_text(yobj, docs):
            buf = io.StringIO()
            if len(docs) == 1:
                guarded(real_dump, yobj, docs[0], buf)
            else:
                guarded(real_dump_all, yobj, docs, buf)
            return buf.getvalue()

        def y_dump(yobj, data, stream=None, **kw):
            if me.role_of_handle(stream) == "other" or getattr(me, "_in_dump", False):
                return real_dump(yobj, data, stream, **kw)
            me.dumped.append(data)
            return me._dump_like(lambda: guarded(real_dump, yobj, data, stream, **kw),
                                 lambda: y_text(yobj, [data]), stream)

        def y_dump_all(yobj, documents, stream, **kw):
            if me.role_of_handle(stream) == "other" or getattr(me, "_in_dump", False):
                return real_dump_all(yobj, documents, stream, **kw)
            documents = list(documents)
            return me._dump_like(lambda: guarded(real_dump_all, yobj, documents, stream, **kw),
                                 lambda: y_text(yobj, documents), stream)

        YAML.dump = y_dump
        YAML.dump_all = y_dump_all

    def uninstall(self):
        for name, val in self._saved.items():
            if val is _MISSING:
                try:
                    delattr(self.mod, name)
                except AttributeError:
                    pass
            else:
                setattr(self.mod, name, val)
        self._saved = {}
        if self._yaml_saved:
            YAML, d, da = self._yaml_saved
            YAML.dump = d
            YAML.dump_all = da
            self._yaml_saved = None
        for f in self._keep:
            try:
                f.close()
            except Exception:  # noqa
                pass
        self._keep = []


_MISSING = object()


def run_tool(mod, argv, roles=None, fault=None, stdin_text=None, observe_io=True, close_fault=None):
    """Run mod.main() in-process.  Returns dict(status, crash, trace, stdout,
    stderr, fired).  status: the SystemExit code (None -> 0), or 1 with
    crash=<exception class name> when an exception escaped main() (the
    interpreter would print a traceback and exit with status 1)."""
    import yamlpath.common.parsers as P
    ffs = FaultFS(mod, roles or {}, fault, close_fault)
    old = (sys.argv, sys.stdout, sys.stderr, sys.stdin, P.stdin)
    out, err = io.StringIO(), io.StringIO()
    fake_in = FakeStdin(stdin_text)
    status, crash, exc = 0, None, None
    try:
        sys.argv = list(argv)
        sys.stdout, sys.stderr, sys.stdin = out, err, fake_in
        P.stdin = fake_in
        if observe_io:
            ffs.install()
        try:
            mod.main()
        except SystemExit as e:
            c = e.code
            status = 0 if c is None else (c if isinstance(c, int) else 1)
        except BaseException as e:  # noqa
            status, crash, exc = 1, type(e).__name__, e
    finally:
        if observe_io:
            ffs.uninstall()
        sys.argv, sys.stdout, sys.stderr, sys.stdin, P.stdin = old
    return {"status": status, "crash": crash, "trace": ffs.trace, "nfaultable": ffs.nfaultable,
            "stdout": out.getvalue(), "stderr": err.getvalue(), "fired": ffs.fired, "exc": exc,
            "dumped": ffs.dumped, "fired_ops": ffs.fired_ops}
