"""C09 (creation half): when an optional-match query or a set names a path of
keys and indexes whose tail does not exist yet, exactly the missing tail is
created so that the path now resolves to the supplied value, sequences are
padded only up to the requested index, and every node that existed before is
unchanged.

Case = (YAML text, path text, value, format, mode) with mode 'set'
(Processor.set_value(..., mustexist=False)) or 'query'
(Processor.get_nodes(..., mustexist=False, default_value=value))."""
import random

import docenc
import mutgen
import oracles
import c03
import c04
from common import hexs

CONFIG = {
    "id": "C09b",
    "rule": ("seeded random flow-style YAML documents x straight key/index paths made of an existing prefix of every "
             "length (including the empty and the complete one, prefixes ending at a scalar, at a set, and - 30 % of the "
             "cases of a document that holds nulls - at a null, where the tail is built beneath the null) and a "
             "missing tail of 0-3 segments (new keys incl. one-character interned ones, indexes len, len+1, len+3, "
             "0-2 inside new sequences; in 8 % of the cases with a missing tail a NEGATIVE index follows it, which "
             "nothing can be built for: the creation must be refused with nothing left behind) x scalar values of every type x value formats x {set_value, optional "
             "get_nodes}.  non-trivial = something was created; distinct = distinct case."),
    "trusted_base": [
        "modelled, not verified: the construction branch of Processor._get_optional_nodes, Nodes.build_next_node, "
        "Nodes.append_list_element (padding), Nodes.wrap_type; the straight-line key/index lookups of the existing "
        "prefix; then _apply_change/_update_node as in C03",
        "Array-of-Hashes pass-through, anchors, searches, wildcards, Collectors in creating paths; values for which "
        "wrap_type raises (hex-like ints '0x10', dict / list literals) are outside the generators (a ValueError in the "
        "middle of a creation leaves the containers built so far in the document)",
        "oracles: ast.literal_eval, float()",
    ],
    "assumptions": ["documents hold every container object once; no merge keys"],
}

VALUES = ["new", "x", "5", "1.5", "true", "false", "a b", "", "300", "q", 5, 0, 2.5, True, False, None, "None1", "k1"]
FORMATS = ["DEFAULT"] * 6 + ["BARE", "DQUOTE", "SQUOTE", "LITERAL", "BOOLEAN", "FLOAT", "INT"]
NEWKEYS = ["zz", "n1", "z", "y", "new", "k9", "a", "b"]
_CACHE = {}


def init_worker():
    mutgen.init_env()


def family(e):
    return c04.family(e)


def segs_of(yp, enc):
    E = mutgen.init_env()
    from yamlpath.enums import PathSegmentTypes
    out = []
    fresh = {}
    for (t, a) in yp.escaped:
        if t is PathSegmentTypes.KEY and isinstance(a, str):
            o = enc.oids.get(id(a))
            if o is None:
                # a text object the document does not hold yet: one identity class per object
                # (the parser hands out the interned object for every one-character key)
                o = 100000 + fresh.setdefault(id(a), len(fresh))
            out.append("(K %s i%d)" % (hexs(a), o))
        elif t is PathSegmentTypes.INDEX and isinstance(a, int):
            out.append("(I i%d)" % a)
        else:
            return None
    return "(%s)" % " ".join(out)


def py_seg_child(cur, t, a):
    """(found, child): one segment read at a node, as C09create.seg_child reads it."""
    from yamlpath.enums import PathSegmentTypes
    if isinstance(cur, dict):
        if t is PathSegmentTypes.KEY:
            for k, v in cur.items():
                if isinstance(k, str) and str.__str__(k) == a:
                    return True, v
        return False, None
    if isinstance(cur, list):
        if t is PathSegmentTypes.INDEX:
            z = a
        else:
            try:
                z = int(a)
            except ValueError:
                return False, None
        if z < 0:
            z += len(cur)
        if 0 <= z < len(cur):
            return True, cur[z]
        return False, None
    if mutgen.is_set(cur):
        if t is PathSegmentTypes.KEY:
            for m in cur:
                if isinstance(m, str) and str.__str__(m) == a:
                    return True, m
        return False, None
    return False, None


def py_creates(data, escaped):
    """The guard of the document-level theorems (C09create.creates), computed on the loaded document: something
    is to be created and the tail does not start below a set (F25).  A null with segments still to go is a place
    where the tail is missing (fix 09e1e7a; the guard used to exclude it: F10b)."""
    cur = data
    for j, (t, a) in enumerate(escaped):
        found, child = py_seg_child(cur, t, a)
        if not found:
            return not mutgen.is_set(cur)
        if child is None:
            return j < len(escaped) - 1
        cur = child
    return False


def py_null_place(data, escaped):
    """(container, ref) of the null at which the existing prefix of the path ends with segments still to go
    (C09create.null_prefix), else None: the one place where a creation may replace a pre-existing node."""
    from yamlpath.enums import PathSegmentTypes
    cur = data
    for j, (t, a) in enumerate(escaped):
        found, child = py_seg_child(cur, t, a)
        if not found:
            return None
        if child is None:
            if j == len(escaped) - 1 or not isinstance(cur, (dict, list)):
                return None
            if isinstance(cur, list):
                z = a if t is PathSegmentTypes.INDEX else int(a)
                return (cur, z + len(cur) if z < 0 else z)
            for k in cur:
                if isinstance(k, str) and str.__str__(k) == a:
                    return (cur, k)
            return None
        cur = child
    return None


def run_case(case):
    if case in _CACHE:
        return _CACHE[case]
    if len(_CACHE) > 4000:
        _CACHE.clear()
    E = mutgen.init_env()
    text, path, value, fmt, mode = case
    rec = {"kind": "skip", "why": None}
    _CACHE[case] = rec
    try:
        data = mutgen.load(text)
        before, enc = docenc.encode(data)
        flt = c03.fl_table(value)
        yp = E["YAMLPath"](path)
        segs = segs_of(yp, enc)
    except Exception as e:  # noqa
        rec["why"] = "prep:" + type(e).__name__
        return rec
    if segs is None:
        rec["why"] = "not-straight"
        return rec
    shadow = mutgen.Shadow(data)
    rec["guard"] = py_creates(data, yp.escaped)
    rec["null_place"] = py_null_place(data, yp.escaped)
    rec["guard_request"] = "(create-guard %s %s)" % (before, segs)
    p = E["Processor"](E["log"], data)
    vo = enc.oids.get(id(value)) if (value is None or isinstance(value, (str, int, float))) else None
    exc = None
    yielded = None
    try:
        if mode == "set":
            p.set_value(yp, value, mustexist=False, value_format=E["YAMLValueFormats"][fmt])
        else:
            yielded = list(p.get_nodes(yp, mustexist=False, default_value=value))
    except Exception as e:  # noqa
        exc = e
    try:
        after = docenc.canon_doc_text(docenc.encode(p.data)[0])
    except docenc.Unsupported:
        rec["why"] = "unsupported-after"
        return rec
    lit = oracles.lit_table([value])
    if mode == "set":
        req = "(create-set %s %s %s %s %s %s %s)" % (before, segs, docenc.pyval_sexp(value), fmt,
                                                    "none" if vo is None else "i%d" % vo, lit, flt)
    else:
        req = "(create-query %s %s %s %s %s)" % (before, segs, docenc.pyval_sexp(value),
                                                 "none" if vo is None else "i%d" % vo, lit)
    rec.update(kind="run", before=before, after=after, exc=exc, request=req, shadow=shadow, p=p, yp=yp,
               data=data, yielded=yielded)
    # ---- the property on the implementation's own objects ----
    rec["verdict"] = verdict(rec, case)
    return rec


NULL_REPLACED = ("the null at the end of the existing prefix was replaced by a new container that holds the created "
                 "tail: a node that existed before did not stay unchanged (everything else about this creation is "
                 "as the property demands)")


def verdict(rec, case):
    """The literal frame clause ("every node that existed before is unchanged") cannot be met when the existing
    prefix of the path ends at a null with segments still to go: the path can only be made to resolve by putting
    a container in the null's place (repair a092fd7 does that; before it the null was overwritten by the VALUE
    and the path did not resolve either).  Every other clause is checked first; if all of them hold, the replaced
    null itself is reported - and attributed to the listed finding F10c - rather than silently allowed."""
    rec["nullrep"] = False
    v = verdict_core(rec, case)
    if v is None and rec.get("nullrep"):
        return NULL_REPLACED
    return v


def verdict_core(rec, case):
    E = mutgen.init_env()
    text, path, value, fmt, mode = case
    shadow, p = rec["shadow"], rec["p"]
    before_canon = docenc.canon_doc_text(rec["before"])
    rec["created"] = rec["after"] != before_canon
    if rec["exc"] is not None:
        if family(rec["exc"]) != "ype":
            return "raised %s" % type(rec["exc"]).__name__
        if rec["created"]:
            # "exactly the missing tail is created so that the path now resolves": a refusal that comes after part
            # of the tail was built leaves nodes behind that belong to no resolving path (before fix 45f1b07:
            # {a: 1} set x[-1] := v raised "Cannot add negative INDEX subreference to lists" and left x: []).
            # A path that was built completely and whose VALUE set_value then refused (a text under format INT)
            # resolves; that is not this clause.
            try:
                got = list(p.get_nodes(rec["yp"], mustexist=True))
            except Exception:  # noqa
                got = []
            if len(got) != 1:
                return ("the creation was refused with a YAML Path error after part of the tail had been built: "
                        "the document changed although the path does not resolve")
        return None       # refused with a YAML Path error (the property speaks of creations that happen)
    # frame: every container that existed keeps its children, in order, as a prefix; at most one container grew,
    # and (set mode) at most one pre-existing child was replaced (the matched node when the path already existed).
    # One more creation site since fix 09e1e7a: the null at which the existing prefix of the path ends with
    # segments still to go is replaced by a NEW container that holds the tail (and by nothing else).
    nplace = rec.get("null_place")
    nullrep = False
    if nplace is not None:
        now = nplace[0][nplace[1]]
        if now is not None:
            if not isinstance(now, (dict, list)) or id(now) in shadow.kids:
                return ("the null at the end of the existing prefix was replaced by something that is not a new "
                        "container (the tail was not built beneath it)")
            nullrep = True
            rec["nullrep"] = True
    grew = False
    for cid, (kind, items) in shadow.kids.items():
        obj = [x for x in shadow.keep if id(x) == cid][0]
        if len(obj) > len(items):
            grew = True
    if mode == "query":
        # an optional query never replaces what the document held ("every node that existed before is
        # unchanged"), whether or not it creates anything - except that null
        r = replaced_child(shadow, nplace if nullrep else None)
        if r is not None:
            return "the optional query replaced a pre-existing node (%s)" % r
    if not grew and not nullrep:
        # nothing was created: a plain set / query on existing nodes (C03 / C09a) - but the path must now resolve
        # (set mode: to the value)
        return resolves(rec, case)
    grown = []
    replaced = 0
    for cid, (kind, items) in shadow.kids.items():
        obj = [x for x in shadow.keep if id(x) == cid][0]
        if kind == "M":
            live = list(obj.items())
            if len(live) < len(items):
                return "a mapping lost entries"
            for (k0, v0), (k1, v1) in zip(items, live):
                if k0 is not k1 and k0 != k1:
                    return "a pre-existing key changed"
                if v0 is not v1 and not (nullrep and obj is nplace[0] and k1 == nplace[1]):
                    replaced += 1
            if len(live) > len(items):
                grown.append((obj, len(live) - len(items)))
        elif kind == "S":
            live = list(obj)
            if len(live) < len(items):
                return "a sequence lost elements"
            for j, (v0, v1) in enumerate(zip(items, live)):
                if v0 is not v1 and not (nullrep and obj is nplace[0] and j == nplace[1]):
                    replaced += 1
            if len(live) > len(items):
                grown.append((obj, len(live) - len(items)))
        else:
            live = list(obj)
            if [m for m in items if m not in live]:
                return "a set lost members"
            if len(live) > len(items):
                grown.append((obj, len(live) - len(items)))
    if not any(obj is p.data for obj in shadow.keep[:1]) and shadow.keep:
        if p.data is not shadow.keep[0]:
            return "the document root was replaced"
    if not grown and not nullrep:
        return None       # nothing was created: a plain set / query on existing nodes (C03 / C09a)
    if len(grown) + (1 if nullrep else 0) > 1:
        return "more than one pre-existing container grew"
    if replaced:
        return "a pre-existing node was replaced although a tail was created"
    # padding only up to the requested index
    from yamlpath.enums import PathSegmentTypes
    for obj, extra in grown:
        if isinstance(obj, list):
            want = None
            cur = p.data
            for (t, a) in rec["yp"].escaped:
                if cur is obj:
                    want = a if isinstance(a, int) else int(a)
                    break
                try:
                    cur = cur[a]
                except Exception:  # noqa
                    break
            if want is None or len(obj) != want + 1:
                return "a sequence was not padded exactly up to the requested index"
    v = created_tail_ok(rec)
    if v is not None:
        return v
    return resolves(rec, case)


def replaced_child(shadow, skip=None):
    """a child place of a pre-existing container that now holds another object (mappings, sequences);
    skip = (container, ref): the null that became the container of the created tail"""
    for cid, (kind, items) in shadow.kids.items():
        obj = [x for x in shadow.keep if id(x) == cid][0]
        if kind == "M":
            for (k0, v0), (k1, v1) in zip(items, list(obj.items())):
                if v0 is not v1 and not (skip is not None and obj is skip[0] and k1 == skip[1]):
                    return "under key %r" % (k0,)
        elif kind == "S":
            for j, (v0, v1) in enumerate(zip(items, list(obj))):
                if v0 is not v1 and not (skip is not None and obj is skip[0] and j == skip[1]):
                    return "element %d" % j
    return None


def _is_cont(x):
    return isinstance(x, (dict, list)) or mutgen.is_set(x)


def created_tail_ok(rec):
    """Exactly the missing tail was created: walking the path in the new document, every sequence in which the
    requested element did not exist before ends exactly at the requested index; the elements put in front of
    it (the padding) did NOT receive the tail - each is an empty container or a scalar -; and every container
    that was created is a fresh object of its own (not one the document held, not one object sitting at
    several places: padding elements and the requested element are distinct)."""
    from yamlpath.enums import PathSegmentTypes
    shadow, p = rec["shadow"], rec["p"]
    old_ids = set(shadow.kids.keys())
    # (1) every created container sits at one place
    seen = {}
    stack = [p.data]
    while stack:
        x = stack.pop()
        if not _is_cont(x):
            continue
        seen[id(x)] = seen.get(id(x), 0) + 1
        if seen[id(x)] > 1:
            if id(x) not in old_ids:
                return "one created container object sits at several places of the document (shared padding / tail)"
            continue
        if isinstance(x, dict):
            stack.extend(x.values())
        elif isinstance(x, list):
            stack.extend(x)
    # (2) along the path
    cur = p.data
    for (t, a) in rec["yp"].escaped:
        if isinstance(cur, list):
            try:
                idx = a if isinstance(a, int) else int(a)
            except (TypeError, ValueError):
                return None
            ent = shadow.kids.get(id(cur))
            old_len = len(ent[1]) if ent is not None else 0
            if idx < 0:
                idx += len(cur)
            if idx >= old_len:
                if len(cur) != idx + 1:
                    return "a sequence on the path was not padded exactly up to the requested index"
                for e in cur[old_len:idx]:
                    if _is_cont(e) and len(e) > 0:
                        return ("a padding element in front of the requested index is not empty (it received "
                                "the tail that only the requested element should get)")
            if not 0 <= idx < len(cur):
                return None
            cur = cur[idx]
        elif isinstance(cur, dict):
            if t is not PathSegmentTypes.KEY or a not in cur:
                return None
            cur = cur[a]
        else:
            return None
    return None


def resolves(rec, case):
    """the path now resolves - after a set: to the supplied value (after an optional query the created leaf is
    wrap_type(value), see docs/C09b.md; that the path resolves to one node is checked all the same)"""
    text, path, value, fmt, mode = case
    p = rec["p"]
    what = "set" if mode == "set" else "optional query"
    try:
        got = list(p.get_nodes(rec["yp"], mustexist=True))
    except Exception as e:  # noqa
        return "after the %s the path does not resolve (%s)" % (what, type(e).__name__)
    if len(got) != 1:
        return "after the %s the path resolves to %d nodes" % (what, len(got))
    if mode == "set" and not c03.value_ok(got[0].node, value, fmt):
        return "after the set the path does not resolve to the supplied value"
    return None


def requests(case):
    rec = run_case(case)
    return [rec["request"], rec["guard_request"]] if rec["kind"] == "run" else ["(mut-skip)"]


def observe(case):
    rec = run_case(case)
    if rec["kind"] != "run":
        return ["(skip)"]
    g = "(%s)" % ("true" if rec["guard"] else "false")
    if rec["exc"] is None:
        return ["(done %s)" % rec["after"], g]
    return ["(failed %s %s)" % (family(rec["exc"]), rec["after"]), g]


def judge(case, obs):
    rec = run_case(case)
    if rec["kind"] != "run":
        return None
    return rec["verdict"]


def classify(case, obs):
    rec = run_case(case)
    if rec["kind"] != "run":
        return "skip:" + str(rec["why"])
    return "%s:%s:%s%s" % (case[4], "created" if rec.get("created") else "same",
                           "ok" if rec["exc"] is None else family(rec["exc"]), ":guard" if rec.get("guard") else "")


def nontrivial(case, obs):
    rec = run_case(case)
    return rec["kind"] == "run" and bool(rec.get("created"))


def key(case):
    return case


def describe(case):
    return {"doc": case[0], "path": case[1], "value": repr(case[2]), "vjson": case[2], "fmt": case[3], "mode": case[4]}


def undescribe(d):
    return (d["doc"], d["path"], d["vjson"], d["fmt"], d["mode"])


def _prefix_kind(case):
    """What the longest existing prefix of the path ends at: 'null' / 'set' / other."""
    E = mutgen.init_env()
    try:
        data = mutgen.load(case[0])
        yp = E["YAMLPath"](case[1])
        cur = data
        for (t, a) in yp.escaped:
            if cur is None:
                return "null"
            if mutgen.is_set(cur):
                return "set"
            try:
                cur = cur[a]
            except Exception:  # noqa
                try:
                    cur = cur[int(a)]
                except Exception:  # noqa
                    return "missing"
        return "null-end" if cur is None else "complete"
    except Exception:  # noqa
        return "?"


def _verdict(case):
    rec = run_case(case)
    return (rec.get("verdict") or "") if rec["kind"] == "run" else ""


def _set_prefix(case, obs):
    """F25: set_value below a set replaces the whole set by the value; an optional query whose path goes on
    below the new member yields the set's own coordinate whatever follows, so the path does not resolve (the
    guard `creates` of the document-level theorems: the tail starts below a set)"""
    v = _verdict(case)
    if _prefix_kind(case) != "set":
        return False
    if v.startswith("the creation was refused"):
        # the member was added, the set's own coordinate yielded, and the value then refused (a text under format
        # FLOAT): the added member stays although the path, which goes on below it, does not resolve
        return True
    if case[4] == "set":
        return v.startswith("after the set the path") or v.startswith("a pre-existing node was replaced")
    return v.startswith("after the optional query the path")


# F10b null_in_prefix is repaired (fix 09e1e7a): a path that does not resolve after a set through a null is a violation
def _null_replaced(case, obs):
    rec = run_case(case)
    return rec["kind"] == "run" and rec.get("verdict") == NULL_REPLACED


FINDING_PREDS = {"set_member_created_by_set_value": _set_prefix, "null_placeholder_replaced": _null_replaced}

CORPUS = [
    ("{a: {b: 1}}", "a.c.d", "v", "DEFAULT", "set"),
    ("{a: [1]}", "a[3]", "v", "DEFAULT", "set"),
    ("{a: [1]}", "a[3].x", "v", "DEFAULT", "set"),
    ("{a: 1}", "a.b", "v", "DEFAULT", "set"),
    ("{s: !!set {x}}", "s.y", "v", "DEFAULT", "set"),
    ("{s: !!set {x}}", "s.y", "v", "DEFAULT", "query"),
    ("{a: null}", "a.b.c", "v", "DEFAULT", "set"),
    ("{a: null}", "a.b.c", "v", "DEFAULT", "query"),
    ("{a: [null, 1]}", "a[-2][1]", "v", "DEFAULT", "set"),
    ("{a: [null, 1]}", "a.0.k[2]", 5, "INT", "query"),
    ("[{a: null}, 1]", "[0].a[1].z", "x", "DEFAULT", "set"),
    ("{a: [1]}", "a[2][1].k", 5, "INT", "query"),
    ("[]", "[0]", None, "DEFAULT", "set"),
    ("{hosts: [{name: alpha}]}", "/hosts[3]/name", "delta", "DEFAULT", "set"),
    ("{hosts: [{name: alpha}]}", "/hosts[3]/name", "delta", "DEFAULT", "query"),
    ("[[1]]", "[0][2][1]", "v", "DEFAULT", "query"),
    ("{a: null}", "a", "v", "DEFAULT", "query"),
    ("{a: {b: null}}", "a.b", "v", "DEFAULT", "query"),
    ("[{a: null}]", "[0].a", 5, "DEFAULT", "query"),
    # a negative index in the missing tail: refused before anything is built (fix 45f1b07)
    ("{a: 1}", "x[-1]", "v", "DEFAULT", "set"),
    ("{a: 1}", "x[-1]", "v", "DEFAULT", "query"),
    ("{a: null}", "a[-1]", "v", "DEFAULT", "set"),
    ("{a: null}", "a.k[-2]", "v", "DEFAULT", "query"),
    ("{a: [1]}", "a[2].k[-2].z", 5, "INT", "set"),
    ("[]", "[1][-1]", "v", "DEFAULT", "set"),
]


def corpus_chunks():
    yield list(CORPUS)


def gen_case(rng, text, data):
    locs = [(l, n) for l, n in mutgen.walk(data)]
    conts = [(l, n) for l, n in locs if isinstance(n, (dict, list))]
    nulls = [(l, n) for l, n in locs if n is None and l]
    beneath_null = bool(nulls) and rng.random() < 0.3
    if beneath_null:
        # the existing prefix ends at a null: the tail is built beneath it (fix 09e1e7a; was finding F10b)
        loc, node = rng.choice(nulls)
    else:
        loc, node = rng.choice(conts if (conts and rng.random() < 0.75) else locs)
    base = mutgen.path_text(data, loc)
    base = "" if base == "/" else base
    cur = node
    tail = ""
    n = rng.choice([1, 1, 2, 3] if beneath_null else [0, 1, 1, 1, 2, 2, 3])
    for j in range(n):
        if isinstance(cur, list) or cur == "[]":
            ln = len(cur) if isinstance(cur, list) else 0
            idx = ln + rng.choice([0, 0, 1, 3])
            tail += "[%d]" % idx
            cur = None
        elif isinstance(cur, dict) or cur == "{}":
            ks = [k for k in NEWKEYS if not (isinstance(cur, dict) and k in cur)]
            tail += "." + rng.choice(ks)
            cur = None
        else:
            if rng.random() < 0.5:
                tail += "." + rng.choice(NEWKEYS)
                cur = "{}" if rng.random() < 0.5 else None
            else:
                tail += "[%d]" % rng.choice([0, 0, 1, 2])
                cur = "[]"
        if cur is None:
            cur = "{}" if rng.random() < 0.5 else "[]"
            # the kind of the next container is decided by the next segment; emulate that
            nxt = rng.random() < 0.5
            cur = "{}" if nxt else "[]"
    if n >= 1 and rng.random() < 0.08:
        # a NEGATIVE index inside the missing tail: nothing can be built there; the whole creation is refused
        # before anything is built (fix 45f1b07, Nodes.require_buildable_path)
        tail += "[%d]" % rng.choice([-1, -1, -2])
        if rng.random() < 0.3:
            tail += "." + rng.choice(NEWKEYS)
    path = (base + tail).lstrip(".")
    if not path:
        path = "zz"
    return (text, path, rng.choice(VALUES), rng.choice(FORMATS), "set" if rng.random() < 0.7 else "query")


def chunks(tier, seed):
    rng = random.Random(seed * 31 + 9)
    n = 100000 if tier == "thorough" else 12000
    size = 300
    buf = []
    i = 0
    tries = 0
    while i < n and tries < 20 * n:
        tries += 1
        text = mutgen.gen_doc_text(rng, max_depth=rng.choice([2, 3]), key_aliases=False)
        try:
            data = mutgen.load(text)
        except Exception:  # noqa
            continue
        for _ in range(4):
            buf.append(gen_case(rng, text, data))
            i += 1
        if len(buf) >= size:
            yield buf
            buf = []
    if buf:
        yield buf
