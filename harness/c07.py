"""C07: yaml-paths search is sound and complete, and every printed path resolves.

Case = (yaml_text, expression, sep, (values, keys, anchors, kalias, valias, expand)).
One request / observation per case: the ordered list of reported paths, each as
parsed segments (the real YAMLPath's own `.escaped`; the model parses its text
with the parser model).

`judge` evaluates the property on the real results only: an independent
brute-force walk of the loaded document enumerates the places (keys, scalar
values, sequence elements, set members) that satisfy the expression under the
alias options, every reported path is re-queried on the real Processor in the
notation it was printed in, and reports and places are matched one to one.
"""
import itertools
import random
import warnings
from collections import OrderedDict

import c14
from common import hexs, exc_line
import docenc
import oracles

CONFIG = {
    "id": "C07",
    "rule": ("documents: (A) every anchor-free document built from <= 2 entries per container and depth <= 3 over "
             "maps / sequences / arrays-of-hashes / scalars of every type, (B) one-key documents over 40 keys with "
             "special characters at three nesting shapes, (C) 67 hand-written templates with anchored scalars / maps / "
             "sequences, aliases as map values and list elements, aliased keys, merge keys (single, multiple, "
             "overriding), sets, anchors first defined beneath a matched key or beneath the value of an excluded "
             "aliased key, lone-scalar documents (plain, anchored); (C') 8 documents with anchored booleans (ruamel ScalarBoolean) as values / elements / "
             "keys / set members x a boolean term alphabet; (D) seeded random larger documents with anchors and merge keys.  Each document x the "
             "nine operators x inverted or not x a term alphabet x {values, keys+values, keys-only} x the four "
             "alias-inclusion modes x expand on/off x both notations (full cross product on B and C for quick-tier "
             "budget reasons sampled by a seeded Latin-style rotation on A and D); a separate stream of malformed "
             "expressions; (P) process_yaml_file + print_results on 24 documents x 7 expression lists x 8 output-switch "
             "sets.  non-trivial = at least one path reported or expected (print cases: at least one line printed); distinct = distinct "
             "(document, expression, options)."),
    "trusted_base": [
        "modelled, not verified: yamlpath/commands/yaml_paths.py search_for_paths / yield_children / get_search_term, "
        "common/searches.py search_anchor, common/anchors.py get_node_anchor / scan_for_anchors",
        "oracles: ast.literal_eval and re (finite tables shipped per request); ruamel.yaml loading (documents enter "
        "the model after loading, with object identities and the merge-key side table read from CommentedMap.merge/_ok)",
        "the re-query of every reported path uses the real Processor.get_nodes (its correctness is C01/C02's subject)",
        "decrypt_eyaml is always off; --refnames (search_anchors) is modelled and tied but outside the property text",
        "print cases: process_yaml_file runs in-process on a file per document text with stdout captured; the value "
        "text of --values is an oracle tabulated with the real Processor.get_nodes / jsonify_yaml_data / json.dumps "
        "on a private copy of the document; --except and multi-document files are not modelled",
    ],
    "assumptions": [
        "the model is the code only as far as the correspondence run shows",
        "alias options are read as the tool documents them: an aliased key, an aliased value or a merged-in key hides "
        "itself and everything beneath it unless the matching option is on; the first occurrence of an anchored "
        "node in document order (by anchor name) is the original, wherever it stands - also beneath a matched key, "
        "beneath the value of an excluded aliased key, or inside a merged-in entry hidden by the options (an inline "
        "merge source), none of which the search enters",
        "a null document is empty: it has no places (the Processor yields no node for any path on it)",
        "document well-formedness doc_wf (the hypothesis of C07_alias_excluded_wf_partial, from which the former "
        "assumption shared_closed is proved): evaluated on EVERY encoded document - the extracted "
        "same_oid_same_tree / c07_keys_leaf (request paths-docwf) against an independent evaluation "
        "on the real object graph; a false one is reported as a broken assumption.  (Its former third part "
        "merged_closed is gone: the search records the anchors of the merged-in entries it hides; documents whose "
        "merge source is an inline mapping first defining an anchor are generated on purpose, bucket "
        "merge-inlinemerge)",
    ],
}

_E = {}


class _QuietLog:
    """ConsolePrinter stand-in that prints nothing."""

    def debug(self, *a, **k):
        pass
    info = verbose = warning = error = critical = debug


def init_worker():
    c14.init_worker()
    from yamlpath.commands.yaml_paths import search_for_paths, get_search_term
    from yamlpath.eyaml import EYAMLProcessor
    from yamlpath.enums import PathSeparators, PathSearchMethods
    from yamlpath.common import Parsers, Anchors, Searches
    from yamlpath import YAMLPath
    from ruamel.yaml.comments import CommentedMap, CommentedSeq, CommentedSet
    _E.update(search_for_paths=search_for_paths, get_search_term=get_search_term, EYAMLProcessor=EYAMLProcessor,
              seps={"dot": PathSeparators.DOT, "slash": PathSeparators.FSLASH}, Parsers=Parsers, Anchors=Anchors,
              Searches=Searches, YAMLPath=YAMLPath, CommentedMap=CommentedMap, CommentedSeq=CommentedSeq,
              CommentedSet=CommentedSet, REGEX=PathSearchMethods.REGEX, log=_QuietLog())


# ---------------------------------------------------------------- documents
_DOCS = OrderedDict()


def load(text):
    d = _DOCS.get(text)
    if d is None:
        if len(_DOCS) > 400:
            _DOCS.clear()
        try:
            with warnings.catch_warnings():
                warnings.simplefilter("ignore")       # ruamel's ReusedAnchorWarning on random documents
                data = _E["Parsers"].get_yaml_editor().load(text)
            d = ("ok", data)
        except Exception as e:  # noqa
            d = ("err", e)
        _DOCS[text] = d
    return d


def is_map(x):
    return isinstance(x, dict)


def is_seq(x):
    return isinstance(x, (list, tuple))


def is_set(x):
    return docenc.is_set(x)


def anchor_of(x):
    a = getattr(x, "anchor", None)
    if a is None:
        return None
    v = getattr(a, "value", None)
    return str(v) if v else None


def all_scalars(data):
    """Every key, scalar value, element and set member, plus every anchor name."""
    out = []
    seen = set()

    def go(x):
        a = anchor_of(x)
        if a is not None:
            out.append(a)
        if is_map(x):
            if id(x) in seen:
                return
            seen.add(id(x))
            for k, v in x.items():
                out.append(k)
                a = anchor_of(k)
                if a is not None:
                    out.append(a)
                go(v)
        elif is_seq(x):
            if id(x) in seen:
                return
            seen.add(id(x))
            for e in x:
                go(e)
        elif is_set(x):
            for m in x:
                out.append(m)
                a = anchor_of(m)
                if a is not None:
                    out.append(a)
        else:
            out.append(x)
    go(data)
    return out


def hay_texts(h):
    """Candidate values of str(Nodes.typed_value(h)), from the libraries only."""
    from ast import literal_eval
    c = [str(h)]
    if type(h).__name__ == "ScalarBoolean":
        # searches.py:42-44: an anchored YAML boolean is searched as bool(h); its text is "True" / "False"
        c.append(str(bool(h)))
    t = oracles.lit_text_for(h)
    if t is not None:
        try:
            c.append(str(literal_eval(t)))
        except Exception:  # noqa
            pass
    return c


def opts_sexp(o):
    return "(%s)" % " ".join("true" if b else "false" for b in o)


# ------------------------------------------------- process_yaml_file / print_results cases
# A print case is (yaml_text, (expr, ...), sep, opts, (nofile, noexpression, noyamlpath, values, noescape)).
def is_print(case):
    return len(case) == 5


_FILES = {}


def doc_file(text):
    """The YAML text in a file of its own (process_yaml_file opens the file itself)."""
    import hashlib
    import os
    f = _FILES.get(text)
    if f is None:
        d = "/tmp/paths2_docs"
        os.makedirs(d, exist_ok=True)
        f = os.path.join(d, hashlib.sha1(text.encode("utf-8")).hexdigest()[:16] + ".yaml")
        if not os.path.exists(f):
            tmp = "%s.%d" % (f, os.getpid())
            with open(tmp, "w", encoding="utf-8") as fh:
                fh.write(text)
            os.replace(tmp, f)
        _FILES[text] = f
    return f


def real_results(data, term, sep, o):
    E = _E
    aa = {}
    E["Anchors"].scan_for_anchors(data, aa)
    proc = E["EYAMLProcessor"](E["log"], data)
    return list(E["search_for_paths"](
        E["log"], proc, data, term, E["seps"][sep],
        search_values=o[0], search_keys=o[1], search_anchors=o[2],
        include_key_aliases=o[3], include_value_aliases=o[4],
        decrypt_eyaml=False, expand_children=o[5], all_anchors=aa))


def value_text(data, path):
    """What print_results appends for --values: built from the real library calls it makes."""
    import json
    proc = _E["EYAMLProcessor"](_E["log"], data)
    try:
        for nc in proc.get_nodes(path, mustexist=True):
            node = nc.node
            if isinstance(node, (dict, list, _E["CommentedSet"])):
                return "(ok %s)" % hexs("{}".format(json.dumps(_E["Parsers"].jsonify_yaml_data(node))))
            return "(ok %s)" % hexs("{}".format(str(node).replace("\n", r"\n")))
        return "(ok %s)" % hexs("")
    except Exception as e:  # noqa
        line = exc_line(e)
        return "ype" if line == "(raise ype)" else "(crash %s)" % type(e).__name__


def print_requests(case):
    text, exprs, sep, o, fl = case
    st, data = load(text)
    sx, enc = docenc.encode(data)
    mt = docenc.merge_table(enc, data)
    hs = all_scalars(data)
    terms = []
    for e in exprs:
        try:
            terms.append(_E["get_search_term"](_E["log"], e))
        except Exception:  # noqa
            terms.append(None)
    lit = oracles.lit_table(hs + [t.term for t in terms if t is not None])
    ret = oracles.re_table([(t.term, x) for t in terms if t is not None and t.method is _E["REGEX"]
                            for h in hs for x in hay_texts(h)])
    vt = {}
    if fl[3]:
        # Parsers.jsonify_yaml_data (called by print_results for container values) rewrites the document in
        # place, which turns merged-in keys into own keys: tabulate on a private copy, never on the cached one
        with warnings.catch_warnings():
            warnings.simplefilter("ignore")
            fresh = _E["Parsers"].get_yaml_editor().load(text)
        for t in terms:
            if t is None:
                continue
            try:
                for p in real_results(fresh, t, sep, o):
                    if p.original not in vt:
                        vt[p.original] = value_text(fresh, p)
            except Exception:  # noqa
                pass
    vts = "(%s)" % " ".join("(%s %s)" % (hexs(k), v) for k, v in vt.items())
    return ["(paths-print %s %s (%s) %s %s %s %s i0 %s %s %s)" % (
        sx, mt, " ".join(hexs(e) for e in exprs), sep, opts_sexp(o), opts_sexp(fl), hexs(doc_file(text)), lit, ret, vts)]


def run_print(case):
    """('ok', [lines], exit_state) | ('exc', e)"""
    import contextlib
    import io
    from types import SimpleNamespace
    from yamlpath.commands.yaml_paths import process_yaml_file
    text, exprs, sep, o, fl = case
    E = _E
    args = SimpleNamespace(search=list(exprs), pathsep=E["seps"][sep], refnames=o[2], decrypt=False, expand=o[5],
                           except_expression=None, nofile=fl[0], noexpression=fl[1], noyamlpath=fl[2], values=fl[3],
                           noescape=fl[4])
    buf = io.StringIO()
    try:
        with warnings.catch_warnings():
            warnings.simplefilter("ignore")
            with contextlib.redirect_stdout(buf):
                st = process_yaml_file(args, E["Parsers"].get_yaml_editor(), E["log"], doc_file(text),
                                       E["EYAMLProcessor"](E["log"], None), o[0], o[1], o[3], o[4], 0)
    except Exception as e:  # noqa
        return ("exc", e)
    out = buf.getvalue()
    return ("ok", out.split("\n")[:-1] if out else [], st)


def print_observe(case):
    r = run_print(case)
    if r[0] == "exc":
        return [exc_line(r[1])]
    return ["(ok ((%s) %s))" % (" ".join(hexs(l) for l in r[1]), "true" if r[2] == 1 else "false")]


def _invalid_regex_among(exprs):
    """some accepted expression is a regular-expression search whose pattern `re` rejects (C15's subject)"""
    import re as _re
    for x in exprs:
        try:
            t = _E["get_search_term"](_E["log"], x)
        except Exception:  # noqa
            continue
        if t is not None and str(t.method) == "=~":
            try:
                _re.compile(t.term)
            except _re.error:
                return True
    return False


def print_judge(case):
    """"prints exactly the search results": one line per distinct str(path) of the real search results of the
    accepted expressions, in order; in the paths-only mode the line IS that text."""
    text, exprs, sep, o, fl = case
    r = run_print(case)
    if r[0] == "exc":
        import re as _re
        if isinstance(r[1], _re.error) or isinstance(getattr(r[1], "__cause__", None), _re.error):
            return None
        if _invalid_regex_among(exprs):
            return None     # the same situation after the repo's "YAMLPathException instead of re.error" fix
        return None if fl[3] else "other: process_yaml_file raised %s" % type(r[1]).__name__
    st, data = load(text)
    exp = []
    try:
        for e in exprs:
            t = _E["get_search_term"](_E["log"], e)
            if t is None:
                continue
            for p in real_results(data, t, sep, o):
                s = str(p)
                if s not in exp:
                    exp.append(s)
    except Exception:  # noqa
        return None
    lines = r[1]
    if len(lines) != len(exp):
        return "print: %d lines printed for %d distinct search results" % (len(lines), len(exp))
    nofile, noexpr, nopath, values, noescape = fl
    if nofile and (noexpr or len(exprs) < 2) and not nopath and not values and not noescape:
        if lines != exp:
            return "print: printed %r, search results %r" % (lines[:3], exp[:3])
    elif not nopath and not noescape:
        for l, s in zip(lines, exp):
            if s not in l:
                return "print: line %r does not show result %r" % (l, s)
    return None


def requests(case):
    if is_print(case):
        return print_requests(case)
    text, expr, sep, o = case
    st, data = load(text)
    if st != "ok":
        return ["(search-term %s)" % hexs(expr)]
    sx, enc = docenc.encode(data)
    mt = docenc.merge_table(enc, data)
    try:
        term = _E["get_search_term"](_E["log"], expr)
    except Exception:  # noqa
        term = None
    lit = "()"
    ret = "()"
    if term is not None:
        hs = all_scalars(data)
        lit = oracles.lit_table(hs + [term.term])
        if term.method is _E["REGEX"]:
            ret = oracles.re_table([(term.term, t) for h in hs for t in hay_texts(h)])
    return ["(paths %s %s %s %s %s %s %s)" % (sx, mt, hexs(expr), sep, opts_sexp(o), lit, ret),
            "(paths-docwf %s)" % sx]


_RUNS = OrderedDict()


def run_real(case):
    """('none',) | ('ok', data, [YAMLPath...]) | ('exc', e) ; cached for judge."""
    r = _RUNS.get(case)
    if r is not None:
        return r
    if len(_RUNS) > 3000:
        _RUNS.clear()
    text, expr, sep, o = case
    st, data = load(text)
    E = _E
    try:
        term = E["get_search_term"](E["log"], expr)
        if term is None:
            r = ("none",)
        else:
            aa = {}
            E["Anchors"].scan_for_anchors(data, aa)
            proc = E["EYAMLProcessor"](E["log"], data)
            res = list(E["search_for_paths"](
                E["log"], proc, data, term, E["seps"][sep],
                search_values=o[0], search_keys=o[1], search_anchors=o[2],
                include_key_aliases=o[3], include_value_aliases=o[4],
                decrypt_eyaml=False, expand_children=o[5], all_anchors=aa))
            r = ("ok", data, res, term)
    except Exception as e:  # noqa
        r = ("exc", e)
    _RUNS[case] = r
    return r


def observe(case):
    if is_print(case):
        return print_observe(case)
    text, expr, sep, o = case
    st, data = load(text)
    if st != "ok":
        try:
            t = _E["get_search_term"](_E["log"], expr)
        except Exception as e:  # noqa
            return [exc_line(e)]
        if t is None:
            return ["(ok none)"]
        return ["(ok (some (%s %s %s %s)))" % ("true" if t.inverted else "false", t.method.name,
                                               hexs(t.attribute), hexs(t.term))]
    wf = "(ok (%s))" % " ".join("true" if b else "false" for b in doc_wf_real(text, data))
    r = run_real(case)
    if r[0] == "none":
        return ["(ok none)", wf]
    if r[0] == "exc":
        return [exc_line(r[1]), wf]
    items = []
    for p in r[2]:
        try:
            items.append(c14.segs_line(p.escaped))
        except Exception as e:  # noqa
            items.append(exc_line(e))
    return ["(ok (some (%s)))" % " ".join(items), wf]


# ------------------------------------------------------------------ document well-formedness (doc_wf)
_WF = {}


def _inner_occs(x):
    """anc_occs of the spec on the real object graph: the anchored occurrences strictly inside x, in
    document order (a key before its value, a node before its descendants)."""
    ga = _E["Anchors"].get_node_anchor
    out = []
    if is_map(x):
        for k, v in x.items():
            if ga(k):
                out.append((k, True))
            if ga(v):
                out.append((v, False))
            out.extend(_inner_occs(v))
    elif is_seq(x):
        for e in x:
            if ga(e):
                out.append((e, False))
            out.extend(_inner_occs(e))
    elif is_set(x):
        for m in x:
            if ga(m):
                out.append((m, True))
    return out


def doc_wf_real(text, data):
    """(same_oid_same_tree, keys_leaf) evaluated on the REAL loaded document, independently of the model: one
    object = one encoded tree wherever it stands; keys / members are scalars to the encoder."""
    r = _WF.get(text)
    if r is not None:
        return r
    if len(_WF) > 4000:
        _WF.clear()
    ga = _E["Anchors"].get_node_anchor
    enc = docenc.Encoder()
    enc.node(data)
    # (1) same object => same encoded tree
    sigs = {}
    same = True
    occs = ([(data, False)] if ga(data) else []) + _inner_occs(data)
    for x, as_key in occs:
        sg = enc.leaf(x) if (as_key or not (is_map(x) or is_seq(x) or is_set(x))) else enc.node(x)
        if sigs.setdefault(id(x), sg) != sg:
            same = False
    # (2) keys and set members are leaves of the encoded tree
    def keys_leaf(sx):
        kind = sx[0]
        if kind == "M":
            return all(k[0] == "L" and keys_leaf(v) for k, v in sx[5])
        if kind == "S":
            return all(keys_leaf(e) for e in sx[5])
        if kind == "T":
            return all(e[0] == "L" for e in sx[5])
        return True
    kl = keys_leaf(docenc.sexp_parse(enc.node(data)))
    r = (same, kl)
    _WF[text] = r
    return r


_IM = {}


def inline_merge_def(text, data):
    """Does a merged-in entry hold an anchored object NOT met earlier in document order - i.e. is some anchor
    first defined inside an inline merge source (`<<: {k: &v x}`)?  Only for the input-distribution report
    (bucket merge-inlinemerge): these are the documents on which the search must record the anchors of the
    merged-in entries it hides (the former doc_wf part merged_closed was false of them)."""
    r = _IM.get(text)
    if r is not None:
        return r
    if len(_IM) > 4000:
        _IM.clear()
    ga = _E["Anchors"].get_node_anchor
    seen = set()
    closed = [True]

    def walk(x):
        if is_map(x):
            ok = getattr(x, "_ok", None)
            has_merge = ok is not None and bool(getattr(x, "merge", None))
            for k, v in x.items():
                if has_merge and k not in ok:
                    ent = ([k] if ga(k) else []) + ([v] if ga(v) else []) + [y for y, _ in _inner_occs(v)]
                    if any(id(y) not in seen for y in ent):
                        closed[0] = False
                if ga(k):
                    seen.add(id(k))
                if ga(v):
                    seen.add(id(v))
                walk(v)
        elif is_seq(x):
            for e in x:
                if ga(e):
                    seen.add(id(e))
                walk(e)
        elif is_set(x):
            for m in x:
                if ga(m):
                    seen.add(id(m))
    walk(data)
    r = not closed[0]
    _IM[text] = r
    return r


# ------------------------------------------------------------------ the judge
def sat(term, x):
    m = _E["Searches"].search_matches(term.method, term.term, x)
    return bool(m) != bool(term.inverted)


def merged_keys(m):
    ok = getattr(m, "_ok", None)
    if ok is None or not getattr(m, "merge", None):
        return ()
    return [k for k in m.keys() if k not in ok]


class Place:
    __slots__ = ("loc", "kind", "node", "under_key_hit", "taken")

    def __init__(self, loc, kind, node, under):
        self.loc = loc
        self.kind = kind
        self.node = node
        self.under_key_hit = under
        self.taken = False


def expected_places(data, term, o):
    """The spec, by brute force: ordered list of Place."""
    values, keys, _anch, kalias, valias, expand = o
    out = []
    seen = []

    def is_alias(x):
        a = anchor_of(x)
        if a is None:
            return False
        if a in seen:
            return True
        seen.append(a)
        return False

    def record(x):
        """The anchors beneath a node that is not searched (the value of an excluded aliased key, a merged-in
        entry hidden by the options) are met all the same: an alias of one of them, later in the document, is
        an aliased repeat."""
        if is_map(x):
            for k, v in x.items():
                is_alias(k)
                is_alias(v)
                record(v)
        elif is_seq(x):
            for e in x:
                is_alias(e)
                record(e)
        elif is_set(x):
            for m in x:
                is_alias(m)

    def leaves(x, loc, under):
        """leaf descendants of a matched parent (the parent itself when it is a leaf)"""
        if is_map(x):
            mk = merged_keys(x)
            for k, v in x.items():
                ka = is_alias(k)
                va = is_alias(v)
                if k in mk and not (kalias or valias):
                    record(v)
                    continue
                if (ka and not kalias) or (va and not valias):
                    record(v)
                    continue
                leaves(v, loc + (("K", k),), under)
        elif is_seq(x):
            for i, e in enumerate(x):
                if is_alias(e) and not valias:
                    continue
                leaves(e, loc + (("I", i),), under)
        elif is_set(x):
            for m in x:
                if is_alias(m) and not kalias:
                    continue
                out.append(Place(loc + (("E", m),), "leaf", m, under))
        else:
            out.append(Place(loc, "leaf", x, under))

    def hit(x, loc, kind, under):
        if expand:
            leaves(x, loc, under)
        else:
            out.append(Place(loc, kind, x, under))

    def walk(x, loc, under):
        if is_map(x):
            mk = merged_keys(x)
            for k, v in x.items():
                ka = is_alias(k)
                va = is_alias(v)
                if k in mk and not (kalias or valias):
                    # a hidden merged-in entry is part of the document all the same: an anchor first defined
                    # in it (an inline merge source) is the original, its later aliases are aliased repeats
                    record(v)
                    continue
                if ka and not kalias:
                    record(v)
                    continue
                l2 = loc + (("K", k),)
                key_hit = keys and sat(term, k)
                if key_hit:
                    hit(v, l2, "key", under)
                    if expand:
                        continue
                if va and not valias:
                    continue
                if is_map(v) or is_seq(v) or is_set(v):
                    # (beneath a matched key the walk goes on, marking the places as covered by the key's
                    # report - finding key_match_prunes_subtree - and meeting the anchors in document order)
                    walk(v, l2, under or key_hit)
                elif values and sat(term, v) and not key_hit:
                    # (a scalar value under its own matching key shares the key's path: one report)
                    out.append(Place(l2, "val", v, under))
        elif is_seq(x):
            for i, e in enumerate(x):
                if is_alias(e) and not valias:
                    continue
                l2 = loc + (("I", i),)
                if is_map(e) or is_seq(e) or is_set(e):
                    walk(e, l2, under)
                elif values and sat(term, e):
                    out.append(Place(l2, "val", e, under))
        elif is_set(x):
            for m in x:
                if is_alias(m) and not kalias:
                    continue
                if sat(term, m):
                    out.append(Place(loc + (("E", m),), "member", m, under))
    if is_map(data) or is_seq(data) or is_set(data):
        walk(data, (), False)
    elif values and data is not None and sat(term, data):
        out.append(Place((), "val", data, False))      # a lone-scalar document (a null document is empty)
    return out


def coord_index(data):
    """(id(parent), kind, ref) -> set of locations of that child."""
    idx = {}

    def add(p, kind, ref, loc):
        try:
            idx.setdefault((id(p), kind, ref), set()).add(loc)
        except TypeError:
            idx.setdefault((id(p), kind, repr(ref)), set()).add(loc)

    def go(x, loc, depth):
        if depth > 40:
            return
        if is_map(x):
            for k, v in x.items():
                l2 = loc + (("K", k),)
                add(x, "K", k, l2)
                go(v, l2, depth + 1)
        elif is_seq(x):
            for i, e in enumerate(x):
                l2 = loc + (("I", i),)
                add(x, "I", i, l2)
                go(e, l2, depth + 1)
        elif is_set(x):
            for m in x:
                add(x, "E", m, loc + (("E", m),))
    go(data, (), 0)
    return idx


def resolve(data, proc, idx, text):
    """Re-query one printed path: (set of locations, set of node ids) or an exception."""
    ncs = list(proc.get_nodes(_E["YAMLPath"](text), mustexist=True))
    locs = set()
    ids = set()
    for nc in ncs:
        ids.add(id(nc.node))
        p = nc.parent
        if p is None:
            locs.add(())
            continue
        kind = "K" if is_map(p) else ("I" if is_seq(p) else "E")
        key = (id(p), kind, nc.parentref)
        try:
            got = idx.get(key)
        except TypeError:
            got = idx.get((id(p), kind, repr(nc.parentref)))
        if got:
            locs |= got
        else:
            locs.add((("?", repr(nc.parentref)),))
    return locs, ids, len(ncs)


def loc_str(loc):
    return "/".join("%s:%r" % (k, (str(r) if not isinstance(r, int) else r)) for k, r in loc) or "<root>"


def unsafe_key(k, sep, at_root, member=False):
    """Keys / set members whose printed section does not name them again
    (known finding F2): escape_path_section cannot protect them."""
    if isinstance(k, bool) or k is None or isinstance(k, float):
        return True
    if isinstance(k, int):
        return member            # int keys of mappings resolve; int set members do not
    if not isinstance(k, str):
        return True
    if k == "" or "*" in k or k[0] == "&":
        return True
    # the guard safe_key of C07_resolves_text_partial (Model/PathBuild.v pb_hard): a back-slash directly before a
    # back-slash, the separator, ( [ ] blank or a quote; before ) ^ $ % it is harmless (plain text outside brackets)
    special = "\\([] '\"" + ("." if sep == "dot" else "/")
    for i in range(len(k) - 1):
        if k[i] == "\\" and k[i + 1] in special:
            return True
    if at_root and sep == "dot" and k[0] == "/":
        return True
    return False


def unsafe_on(loc, sep):
    return any((kind in ("K", "E")) and unsafe_key(r, sep, i == 0, kind == "E") for i, (kind, r) in enumerate(loc))


def discrepancies(case):
    """List of (tag, message) for every way the real results miss the property."""
    if is_print(case):
        return []
    text, expr, sep, o = case
    r = run_real(case)
    if r[0] == "none":
        return []
    if r[0] == "exc":
        import re as _re
        if (isinstance(r[1], _re.error) or isinstance(getattr(r[1], "__cause__", None), _re.error)
                or _invalid_regex_among([expr])):
            # an invalid regular expression is no search expression: C15's subject, not C07's (since the
            # library wraps re.error into YAMLPathException the cause / the term itself is looked at)
            return []
        return [("other", "the search raised %s: %s" % (type(r[1]).__name__, r[1]))]
    if o[2]:
        return []           # --refnames is outside the property text; tie only
    _, data, res, term = r
    out = []
    try:
        exp = expected_places(data, term, o)
    except Exception as e:  # noqa
        return [("other", "brute-force walk failed: %r" % (e,))]
    idx = coord_index(data)
    proc = _E["EYAMLProcessor"](_E["log"], data)
    exp_by_loc = {}
    for e in exp:
        exp_by_loc.setdefault(e.loc, []).append(e)
    for p in res:
        try:
            s = str(p)
            locs, ids, n = resolve(data, proc, idx, s)
        except Exception as e:  # noqa
            out.append(("noresolve", "reported path %r does not resolve: %s" % (_safe_str(p), type(e).__name__)))
            continue
        if n == 0:
            out.append(("noresolve", "reported path %r resolves to nothing" % s))
            continue
        if len(ids) != 1:
            out.append(("multi", "reported path %r resolves to %d distinct nodes" % (s, len(ids))))
        cand = None
        known = False
        for l in sorted(locs, key=repr):
            for e in exp_by_loc.get(l, ()):
                known = True
                if not e.taken and (cand is None or (cand.under_key_hit and not e.under_key_hit)):
                    cand = e
        if cand is not None:
            cand.taken = True
        elif known:
            out.append(("twice", "path %r reported although every place it resolves to was already reported" % s))
        else:
            out.append(("unsound", "reported path %r resolves to %s, which is not a place satisfying %r under %s"
                        % (s, ", ".join(loc_str(l) for l in sorted(locs, key=repr)), expr, o)))
    for e in exp:
        if not e.taken:
            if unsafe_on(e.loc, sep):
                tag = "unsafekey"
            elif e.under_key_hit:
                tag = "prune"
            else:
                tag = "missed"
            out.append((tag, "no path reported for %s at %s" % (e.kind, loc_str(e.loc))))
    if out and reused_anchor(data):
        # seen_anchors and [&name] segments go by NAME: with a redefined anchor name a different
        # node passes for an alias, and [&name] names several nodes (known finding)
        out = [("reusedanchor", m) if t in REPORT_SIDE + ("missed",) else (t, m) for t, m in out]
    return out


REPORT_SIDE = ("noresolve", "multi", "twice", "unsound")


def reused_anchor(data):
    """Two different objects carry the same anchor name (YAML lets a later `&x` redefine x)."""
    owners = {}
    seen = set()

    def note(x):
        a = anchor_of(x)
        if a is not None:
            owners.setdefault(a, set()).add(id(x))

    def go(x, depth):
        note(x)
        if depth > 40:
            return
        if is_map(x):
            if id(x) in seen:
                return
            seen.add(id(x))
            for k, v in x.items():
                note(k)
                go(v, depth + 1)
        elif is_seq(x):
            if id(x) in seen:
                return
            seen.add(id(x))
            for e in x:
                go(e, depth + 1)
        elif is_set(x):
            for m in x:
                note(m)
    go(data, 0)
    return any(len(v) > 1 for v in owners.values())


def unexplained(d):
    """Discrepancies no known finding accounts for."""
    bad = [x for x in d if x[0] in ("other", "missed")]
    rs = [x for x in d if x[0] in REPORT_SIDE]
    nunsafe = sum(1 for x in d if x[0] == "unsafekey")
    if len(rs) > nunsafe:       # each wrong report must pair with one place under an unsafe key
        bad += rs
    return bad


def _finding(tag):
    def pred(case, obs):
        if load(case[0])[0] != "ok":
            return False
        d = discrepancies(case)
        return bool(d) and not unexplained(d) and any(t == tag for t, _ in d)
    return pred


def _safe_str(p):
    try:
        return str(p)
    except Exception:  # noqa
        return getattr(p, "original", "?")


def judge(case, obs):
    st, _ = load(case[0])
    if st != "ok":
        return None
    if is_print(case):
        return print_judge(case)
    if len(obs) > 1 and obs[1].startswith("(ok (") and obs[1] != "(ok (true true))":
        return ("assumption broken: the document well-formedness doc_wf (same object = same tree, scalar keys) "
                "fails on a loaded document: %s" % obs[1])
    d = discrepancies(case)
    if not d:
        return None
    u = unexplained(d)
    if u:
        d = u + [x for x in d if x not in u]
    return "%s: %s" % (d[0][0], d[0][1]) + ("" if len(d) == 1 else "  (+%d more)" % (len(d) - 1))


FINDING_PREDS = {
    "key_match_prunes_subtree": _finding("prune"),
    "unsafe_key_section": _finding("unsafekey"),
    "reused_anchor_name": _finding("reusedanchor"),
}


def classify(case, obs):
    if is_print(case):
        fl = case[4]
        mode = "".join(c for c, b in zip("FXPLn", fl) if b) or "-"
        return "print:%s:%s:%dexpr:%s" % (case[2], mode, len(case[1]), "ok" if obs[0].startswith("(ok") else "raise")
    text, expr, sep, o = case
    line = obs[0]
    if line.startswith("(ok (some"):
        n = line.count("(ok (")
        k = "hits%d" % min(n - 1, 5) if n else "hits0"
        n = line.count("(ok ((") + line.count("(ok ()")
        k = "hits%d" % min(n, 5)
    elif line == "(ok none)":
        k = "noterm"
    else:
        k = "raise"
    fam = "anch" if ("&" in text or "*" in text) else "plain"
    if "<<" in text:
        fam = "merge"
    if "<<" in text:
        st, data = load(text)
        if st == "ok" and inline_merge_def(text, data):
            fam += "-inlinemerge"   # an inline merge source that first defines an anchor
    mode = ("V" if o[0] else "") + ("K" if o[1] else "") + ("a" if o[2] else "") + \
           ("k" if o[3] else "") + ("v" if o[4] else "") + ("x" if o[5] else "")
    return "%s:%s:%s:%s" % (fam, sep, mode, k)


def nontrivial(case, obs):
    if is_print(case):
        return obs[0].startswith("(ok ((s")
    return obs[0].startswith("(ok (some (") and obs[0] != "(ok (some ()))"


def key(case):
    return case


def describe(case):
    if is_print(case):
        return {"yaml": case[0], "exprs": list(case[1]), "sep": case[2], "opts": list(case[3]), "print": list(case[4])}
    return {"yaml": case[0], "expr": case[1], "sep": case[2], "opts": list(case[3])}


def undescribe(d):
    if "print" in d:
        return (d["yaml"], tuple(d["exprs"]), d["sep"], tuple(bool(x) for x in d["opts"]),
                tuple(bool(x) for x in d["print"]))
    return (d["yaml"], d["expr"], d["sep"], tuple(bool(x) for x in d["opts"]))


# ---------------------------------------------------------------- generators
OPS = ["=", "^", "$", "%", "<", ">", "<=", ">=", "=~"]
KEYMODES = [(True, False), (True, True), (False, True)]          # (values, keys)
ALIASMODES = [(False, False), (True, False), (False, True), (True, True)]   # (kalias, valias)


def exprs(terms, ops=OPS, inversions=(False, True)):
    for op in ops:
        for inv in inversions:
            for t in terms:
                if op == "=~":
                    yield ("!" if inv else "") + "=~/" + t + "/"
                else:
                    yield ("!" if inv else "") + op + t


def all_opts(refnames=(False,)):
    for (v, k) in KEYMODES:
        for (ka, va) in ALIASMODES:
            for a in refnames:
                for x in (False, True):
                    yield (v, k, a, ka, va, x)


SCALARS = ["1", "2", "a", "b", "true", "null", "1.5", "'a b'", "'1'", "''"]
PLAIN_KEYS = ["a", "b", "k", "1"]
SPECIAL_KEYS = ["a.b", "a b", "x/y", "/s", "[z]", "a[0]", "(p)", "a^", "a$", "a%", "a'b", 'a"b', "a\\b", "a\\.b",
                "a\\\\b", "&q", "a&b", "a*", "*", "**", "!n", "a=b", "a<b", "a~", "a,b", "a+b", "-a", "a:b", "a#b",
                "", " a", "a ", "0", "-1", "01", "1.5", "true", "null", "ß→日", "a\tb", "a|b", "{c}", "a@b", "?q", "~"]


def q(s):
    """YAML double-quoted scalar"""
    out = ['"']
    for c in s:
        if c == '"' or c == "\\":
            out.append("\\" + c)
        elif c == "\t":
            out.append("\\t")
        elif c == "\n":
            out.append("\\n")
        else:
            out.append(c)
    out.append('"')
    return "".join(out)


def plain_docs():
    """(A) anchor-free documents in flow style, depth <= 3, <= 2 entries."""
    sc = ["1", "a", "true", "null", "1.5", "'a b'"]
    lvl0 = sc
    lvl1 = []
    for a in ["1", "a", "null"]:
        lvl1.append("[%s]" % a)
        lvl1.append("{a: %s}" % a)
        lvl1.append("{k: %s}" % a)
    lvl1 += ["[1, a]", "[a, a]", "{a: 1, b: a}", "{a: a, k: 1}", "[]", "{}"]
    lvl2 = []
    for x in lvl1[:8] + ["[1, a]", "{a: 1, b: a}"]:
        lvl2.append("[%s]" % x)
        lvl2.append("{a: %s}" % x)
        lvl2.append("[1, %s]" % x)
        lvl2.append("{b: a, a: %s}" % x)
    docs = []
    for a in lvl0 + lvl1 + lvl2:
        docs.append("{a: %s}" % a)
        docs.append("[%s]" % a)
    for a, b in itertools.product(sc[:3] + lvl1[:6] + lvl2[:6], repeat=2):
        docs.append("{a: %s, k: %s}" % (a, b))
        docs.append("[%s, %s]" % (a, b))
    docs += lvl0 + ["[[[a]]]", "{a: {a: {a: a}}}", "[{a: 1}, {a: a}, {b: a}]", "{a: [{a: [a]}]}"]
    return list(OrderedDict.fromkeys(docs))


def special_key_docs():
    out = []
    for k in SPECIAL_KEYS:
        out.append("{%s: a}" % q(k))
        out.append("{a: {%s: a}}" % q(k))
        out.append("[{%s: [a]}]" % q(k))
    for k in ["1", "-1", "1.5", "true", "null", "~"]:      # non-string keys
        out.append("{%s: a}" % k)
        out.append("{a: {%s: a}}" % k)
    return out


ANCHOR_DOCS = [
    # anchored scalars, aliases as map values and in lists
    "{a: &x 1, b: *x}",
    "{a: &x a, b: *x, c: [*x, *x]}",
    "{a: &x a, b: {k: *x}, c: *x}",
    "[&x a, *x, a]",
    "[&x a, [*x], {k: *x}]",
    "{a: [&x 1, 2], b: *x}",
    "[&x 1, &y a, *x, *y]",
    "{a: &a a, b: *a}",
    "{a: &x a}",
    "[&x a]",
    "{a: &x null, b: *x}",
    "{a: &x true, b: *x}",
    "{a: &x 1.5, b: [*x]}",
    "{a: &x 'a b', b: *x}",
    "{a: &a.b a, b: *a.b, c: [*a.b]}",
    "{c: [&x/y a, *x/y]}",
    # anchored containers
    "{a: &x {k: a}, b: *x}",
    "{a: &x {k: a}, b: *x, c: [*x, *x]}",
    "{a: &x [a, 1], b: *x}",
    "{a: &x [a, 1], b: [*x], c: {k: *x}}",
    "[&x {k: a}, *x]",
    "[&x [a], *x, [*x]]",
    "{a: &x {k: &y a}, b: *x, c: *y}",
    "{a: &x {k: {a: a}}, b: {k: *x}}",
    "{a: &x {}, b: *x}",
    "{a: &x [], b: *x}",
    "{a: &x {a: &y [a]}, b: *y, c: *x}",
    # aliased keys
    "{x: {&k a: 1}, y: {*k : 2}}",
    "{x: {&k a: a}, y: {*k : a}, z: *k}",
    "{x: {&k a: 1}, y: {*k : {a: a}}}",
    "{x: {&k a: 1}, y: {*k : [a, 1]}}",
    "[{&k a: 1}, {*k : a}, *k]",
    "{x: {&k k: &v a}, y: {*k : *v}}",
    "{x: &x {&k a: a}, y: *x, z: {*k : 1}}",
    "{? &k a : *k}",
    "{&k a: 1, b: *k}",
    # merge keys
    "{a: &x {k: a}, b: {<<: *x, j: a}}",
    "{a: &x {k: a}, b: {<<: *x}}",
    "{a: &x {k: a, j: 1}, b: {<<: *x, j: a}}",
    "{a: &x {k: a}, c: &y {k: 1, m: a}, b: {j: 1, <<: [*x, *y]}}",
    "{a: &x {k: {a: a}}, b: {<<: *x}}",
    "{a: &x {k: [a, 1]}, b: {<<: *x, a: 1}}",
    "{a: &x {k: a}, c: &y {k: a}, b: {<<: *x}}",
    "[&x {k: a}, {<<: *x, a: 1}, {<<: *x}]",
    "{a: &x {k: &v a}, b: {<<: *x, j: *v}}",
    "{a: &x {k: a}, b: &y {<<: *x, j: 1}, c: {<<: *y}}",
    "{a: &a {a: a}, b: {<<: *a}}",
    # sets
    "!!set {a, b}",
    "{a: !!set {a, b}}",
    "[!!set {a, 1}, a]",
    "{a: !!set {&x a, b}, b: *x}",
    "{a: !!set {}}",
    "{s: &s !!set {a}, t: *s}",
    # mixtures
    "{a: &x a, b: [&y {k: *x}, *y], c: {<<: *y}}",
    "{a: [&x a, {k: *x, j: &z [*x]}], b: *z}",
    "{a: &x 1, b: {k: &y [*x, a]}, c: {<<: {j: *y}}}",
    # anchors first defined in a part the search does not enter: beneath a matched key, beneath the value of
    # an excluded aliased key (record_anchors); lone-scalar documents, plain and anchored
    "{a: {k: &w b}, z: *w}",
    "{a: {k: &w b, l: [&y a]}, z: *w, q: [*y, *w]}",
    "{k: [&w a, {a: &v {a: a}}], b: *w, j: *v}",
    "{&k a: 1, b: {*k : {x: &n a}}, c: *n}",
    "{x: {&k a: 1}, y: {*k : [&n a, {j: &m {a: a}}]}, z: [*n, *m]}",
    "{x: {&k a: 1}, y: {*k : !!set {&s a}}, z: *s}",
    "[{a: &w {a: &v a}}, *w, *v]",
    # ... and inside a merged-in entry hidden by the options: the merge source is an INLINE mapping that first
    # defines the anchor (plain, beside an own alias of it, overridden by an own key, itself anchored, nested,
    # one of several sources, an anchored key, inside a sequence, beneath a matched key with --expand)
    "{a: {<<: {k: &v a}}, b: *v}",
    "{a: {<<: {k: &v a}, j: *v}, b: *v}",
    "{a: {<<: {k: &v a}, k: 1}, b: *v}",
    "{a: {<<: &m {k: &v a}}, b: *m, c: *v}",
    "{t: {a: {<<: {k: {q: &v a}}}, z: *v}, w: *v}",
    "{x: &x {j: a}, a: {<<: [*x, {k: &v a}, {l: &w [a, 1]}]}, b: *v, c: *w}",
    "{a: {<<: {&k a: 1}}, b: {*k : a}}",
    "[{<<: {k: &v a}}, *v, {k: *v}]",
    "&x a",
    "&x 1",
    "a",
]


# anchored YAML booleans load as ruamel's ScalarBoolean (an int subclass whose str() is "1" / "0");
# Searches.search_matches compares them as Booleans (C12).  Values, elements, keys, set members.
SBOOL_DOCS = [
    "{a: &x true, b: *x, c: true, d: 1}",
    "{a: &x false, b: *x, c: false, d: 0}",
    "[&t true, &f false, *t, *f, true, 1, 'true']",
    "{&k true: a, b: *k}",
    "{x: {&k false: 1}, y: {*k : true}}",
    "{a: !!set {&m false, a}, b: *m}",
    "{a: &x {k: &y true}, b: *x, c: {<<: *x}, d: *y}",
    "[&t True, &f FALSE, *t]",
]
SBOOL_TERMS = ["true", "false", "1", "0", "True", "T", "r", "e$", "^[01]$"]


def rand_scalar(rng):
    return rng.choice(SCALARS + ["a", "1", "b"])


def rand_doc(rng, depth, anchors, budget):
    """Flow-style YAML text with anchors / aliases / merge keys; `anchors` maps
    name -> kind of every anchor defined so far (text order = definition order)."""
    def node(d):
        r = rng.random()
        if anchors and r < 0.18:
            n = rng.choice(list(anchors))
            return "*" + n
        pre = ""
        newname = None
        if rng.random() < 0.22 and len(anchors) < 5:
            newname = rng.choice(["x", "y", "z", "a", "w"]) + str(len(anchors))
            pre = "&%s " % newname
        r = rng.random()
        if d <= 0 or r < 0.4:
            body = rand_scalar(rng)
            kind = "s"
        elif r < 0.7:
            n = rng.randint(0, 3)
            ents = []
            used = set()
            mapanchors = [a for a, k in anchors.items() if k == "m"]
            if d > 0 and rng.random() < 0.12:
                # an INLINE merge source (now and then itself anchored): the anchors it defines stand in
                # merged-in entries, which the default alias options hide
                mpre = ""
                mname = None
                if rng.random() < 0.25 and len(anchors) < 5:
                    mname = "m" + str(len(anchors))
                    mpre = "&%s " % mname
                inner = []
                for k in _take(rng, ["k", "j", "m", "a"], rng.randint(1, 2)):
                    inner.append("%s: %s" % (k, node(d - 1)))
                if mname:
                    anchors[mname] = "m"
                ents.append("<<: %s{%s}" % (mpre, ", ".join(inner)))
            elif mapanchors and rng.random() < 0.3:
                ents.append("<<: *%s" % rng.choice(mapanchors))
            for _ in range(n):
                k = rng.choice(PLAIN_KEYS + ["j", "m", "a.b", "c d"])
                if k in used:
                    continue
                used.add(k)
                ents.append("%s: %s" % (q(k) if not k.isalnum() else k, node(d - 1)))
            body = "{%s}" % ", ".join(ents)
            kind = "m"
        else:
            n = rng.randint(0, 3)
            body = "[%s]" % ", ".join(node(d - 1) for _ in range(n))
            kind = "l"
        if newname:
            anchors[newname] = kind
        return pre + body
    return node(depth)


def _take(rng, seq, n):
    seq = list(seq)
    if len(seq) <= n:
        return seq
    return rng.sample(seq, n)


def chunks(tier, seed):
    rng = random.Random(seed)
    thorough = tier == "thorough"
    size = 400
    buf = []

    def emit(case):
        buf.append(case)

    def flush(force=False):
        nonlocal buf
        while len(buf) >= size or (force and buf):
            yield buf[:size]
            buf = buf[size:]

    terms_small = ["a", "1", "k", "x"]
    allo = list(all_opts())
    allo_ref = list(all_opts(refnames=(False, True)))
    # (C) anchors / aliases / merge keys / sets: full cross product
    for doc in ANCHOR_DOCS:
        es = list(exprs(["a", "1", "k"])) + list(exprs(["x", "b"], ops=["=", "^", "=~"]))
        for e in es:
            oo = allo_ref if thorough else allo
            for o in (oo if thorough else _take(rng, oo, 8)):
                emit((doc, e, "dot" if rng.random() < 0.5 else "slash", o))
        for e in exprs(["a", "x"], ops=["=", "%"], inversions=(False,)):
            for o in allo_ref:
                for sp in ("dot", "slash"):
                    emit((doc, e, sp, o))
        yield from flush()
    # (C') anchored booleans (ScalarBoolean) as values, elements, keys, set members
    for doc in SBOOL_DOCS:
        for e in exprs(SBOOL_TERMS):
            for o in (allo if thorough else _take(rng, allo, 6)):
                emit((doc, e, "dot" if rng.random() < 0.5 else "slash", o))
        yield from flush()
    # (P) process_yaml_file + print_results: expression lists (duplicates across expressions, rejected
    # expressions), the five output switches, both notations
    pdocs = ANCHOR_DOCS[:12] + ANCHOR_DOCS[16:20] + ANCHOR_DOCS[36:40] + SBOOL_DOCS[:3] + \
        ["{a: a, b: [a, 1], 'a b': {a: 'a]'}}", "[a, {a: 1}]", "{a: {b: a}, 'a.b': a, 'x/y': [a]}", "a"]
    elists = [("=a",), ("=a", "=a"), ("=a", "^a", "=1"), ("%a", "x", "=~/a/"), ("=", "=1"), ("!=a", "=a"), ("=~/(/",)]
    flagsets = [(True, False, False, False, False), (False, False, False, False, False),
                (True, True, False, False, False), (True, False, False, True, False),
                (True, False, True, True, False), (False, False, False, True, True),
                (True, False, False, False, True), (False, True, True, True, False)]
    for doc in pdocs:
        for el in elists:
            for fl in (flagsets if thorough else _take(rng, flagsets, 4)):
                for o in _take(rng, allo, 3 if thorough else 2):
                    emit((doc, el, "dot" if rng.random() < 0.5 else "slash", o, fl))
        yield from flush()
    # (B) special keys
    for doc in special_key_docs():
        for e in ["=a", "!=a", "=~/./", "%a"]:
            for (v, k) in KEYMODES:
                for x in (False, True):
                    for sp in ("dot", "slash"):
                        emit((doc, e, sp, (v, k, False, True, False, x)))
        yield from flush()
    # (A) anchor-free documents
    pd = plain_docs()
    es = list(exprs(["a", "1", "k", "1.5", "true"]))
    for doc in pd:
        for e in (es if thorough else _take(rng, es, 12)):
            for (v, k) in KEYMODES:
                x = rng.random() < 0.5
                ka, va = rng.choice(ALIASMODES)
                emit((doc, e, "dot" if rng.random() < 0.5 else "slash", (v, k, False, ka, va, x)))
        yield from flush()
    # malformed / odd expressions
    odd = ["", "=", "!", "a", "==a", "=~", "=~/a", "=~/(/", "!!a", "!=a", "= a", "=a b", "='a'", "=\"a\"", "=a]", "=a][b",
           "=[a", "<a", ">=1", "<=1.5", "=~|a|", "^", "$a$", "%%", "=*", "=a*", "!<1", "=a\\]", "=\\"]
    for doc in ["{a: a, b: [a, 1], 'a b': {a: 'a]'}}", "[a, {a: 1}]", "{a: &x 1, b: *x}"]:
        for e in odd:
            for o in _take(rng, allo_ref, 4):
                emit((doc, e, rng.choice(["dot", "slash"]), o))
    yield from flush()
    # (D) seeded random documents
    nrand = 8000 if thorough else 2500
    for i in range(nrand):
        anchors = {}
        body = rand_doc(rng, rng.randint(1, 4), anchors, 12)        # (a lone scalar now and then)
        es = _take(rng, list(exprs(["a", "1", "k", "b", "x0", "2"])), 6)
        for e in es:
            for o in _take(rng, allo_ref if i % 5 == 0 else allo, 4):
                emit((body, e, rng.choice(["dot", "slash"]), o))
        yield from flush()
    yield from flush(force=True)


def corpus_chunks():
    """Finding witnesses and the inputs of the repaired defects (run first)."""
    d = (True, False, False, True, False, False)        # values only, default alias mode
    k = (True, True, False, True, False, False)
    a = (True, False, False, False, False, False)       # --anchorsonly
    cases = [
        ("{a: {b: a}}", "=a", "dot", k),                                  # F-C07-1
        ('{"&q": a}', "=a", "dot", d), ('{"a\\\\.b": a}', "=a", "dot", d), ('{"": a}', "=a", "slash", d),   # F-C07-2
        ("a", "=a", "dot", d), ("a", "=a", "slash", d), ("a", "=a", "dot", (False, True, False, True, False, False)),
        ("null", "!=a", "dot", d), ("''", "!=a", "slash", d), ("&x a", "=a", "dot", a),     # fixed F-C07-3
        ("[&x a, &x b, *x]", "=b", "dot", a),                              # F-C07-4
        ("{a: {k: &w b}, z: *w}", "<c", "dot", (True, True, False, False, False, False)),   # fixed (was C07_alias_excluded_refuted)
        ("{&k a: 1, b: {*k : {x: &n v}}, c: *n}", "=v", "dot", a),          # fixed: anchor beneath an excluded aliased key
        ("{&k a: 1, b: {*k : {x: &n v}}, c: *n}", "=a", "slash", (True, True, False, False, False, True)),
        ("[!!set {x, y}, x]", "=x", "dot", d),                             # fixed d9ff2cf
        ("{a: &x {k: v}, b: *x}", "=v", "dot", d), ("{a: &x {k: v}, b: *x}", "=v", "slash", a),   # fixed da0a3a5
        ("{x: {&k a: 1}, y: {*k : 2}}", "=a", "dot", (True, True, False, False, False, False)),   # fixed 0862173
        ("{x: {&k a: 1}, y: {*k : 2}}", "=2", "dot", a),
        ("{a: !!set {x, y}}", "=a", "dot", (True, True, False, True, False, True)),               # fixed 0cb31d9
        ("{a: &x {k: v}, b: {<<: *x}}", "=x", "dot", (True, False, False, False, True, False)),   # fixed 47fc504
        ("{a: &x {k: v}, b: {<<: *x}}", "=x", "dot", (True, False, True, False, True, False)),
        ('[{1: [&w0 {"c d": b, "a.b": &w0 1.5}, *w0]}, [true, \'a b\'], 2]', "$1", "slash",
         (True, True, False, True, True, True)),                          # thorough-tier find
        # fixed (was C07_inline_merge_refuted): the merge source is an inline mapping that first defines &v; the
        # hidden merged-in entry is walked by record_anchors, the alias b is no longer reported; beneath a matched
        # key with --expand (yield_children); and the same merge through an alias
        ("a: {<<: {k: &v hit}}\nb: *v\n", "=hit", "dot", a), ("a: {<<: {k: &v hit}}\nb: *v\n", "=hit", "slash", a),
        ("a: {<<: {k: &v hit}}\nb: *v\n", "=hit", "dot", d),
        ("top: {a: {<<: {k: &v hit}}, z: *v}\nw: *v\n", "=top", "dot", (True, True, False, False, False, True)),
        ("a: {<<: {k: &v hit}, j: *v}\nb: *v\n", "=hit", "dot", a),
        ("x: &m {k: &v hit}\na: {<<: *m}\nb: *v\n", "=hit", "dot", a),
    ]
    return [cases]
