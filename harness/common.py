"""Shared machinery of the correspondence harness.

A property module (harness/cNN.py) provides:
  chunks(tier, seed)         -> iterable of lists of cases (picklable)
  requests(case)             -> list[str]   model requests (driver line protocol)
  observe(case)              -> list[str]   the implementation's observations,
                                            one canonical line per request
  judge(case, obs)           -> None | str  the property evaluated on the
                                            implementation's own observations
  describe(case)             -> JSON-able description of the case (for replay)
  classify(case, obs)        -> str         bucket for the input distribution
  FINDING_PREDS              -> {name: fn(case, obs) -> bool}
Each worker process handles whole chunks: runs the implementation in-process
from /repo, pipes the requests to build/model, compares line by line.
"""
import importlib
import json
import multiprocessing as mp
import os
import subprocess
import sys
import time

VERIF = os.path.normpath(os.path.join(os.path.dirname(os.path.abspath(__file__)), ".."))
REPO = os.environ.get("YP_REPO", "/repo")
MODEL_BIN = os.path.join(VERIF, "build", "model")
JOBS = int(os.environ.get("YP_JOBS", "16"))


def hexs(s):
    """Wire form of a Python str: 's' + hex of its UTF-8 bytes."""
    if isinstance(s, bytes):
        return "s" + s.hex()
    return "s" + s.encode("utf-8", "surrogatepass").hex()


def unhex(a):
    assert a[0] == "s", a
    return bytes.fromhex(a[1:]).decode("utf-8", "surrogatepass")


def sexp_parse(line):
    """Parse one S-expression line into nested lists of atom strings."""
    pos = 0
    n = len(line)
    stack = [[]]
    while pos < n:
        c = line[pos]
        if c == "(":
            stack.append([])
            pos += 1
        elif c == ")":
            done = stack.pop()
            stack[-1].append(done)
            pos += 1
        elif c in " \t\n":
            pos += 1
        else:
            st = pos
            while pos < n and line[pos] not in " ()\t\n":
                pos += 1
            stack[-1].append(line[st:pos])
    assert len(stack) == 1 and len(stack[0]) == 1, line
    return stack[0][0]


def sexp_str(x):
    if isinstance(x, (list, tuple)):
        return "(" + " ".join(sexp_str(e) for e in x) + ")"
    return x


def run_model(lines):
    """Feed request lines to the extracted model; one output line per input."""
    if not lines:
        return []
    p = subprocess.run([MODEL_BIN], input=("\n".join(lines) + "\n").encode(),
                       stdout=subprocess.PIPE, stderr=subprocess.PIPE, timeout=1800)
    if p.returncode != 0:
        raise RuntimeError("model driver exited %d: %s" % (p.returncode, p.stderr.decode()[-500:]))
    out = p.stdout.decode().split("\n")
    if out and out[-1] == "":
        out.pop()
    if len(out) != len(lines):
        raise RuntimeError("model driver returned %d lines for %d requests" % (len(out), len(lines)))
    return out


def exc_line(e):
    """Canonical observation of an exception, at family granularity."""
    from yamlpath.exceptions import YAMLPathException
    try:
        from yamlpath.merger.exceptions import MergeException
    except Exception:  # pragma: no cover
        MergeException = ()
    if isinstance(e, YAMLPathException):
        return "(raise ype)"
    if MergeException and isinstance(e, MergeException):
        return "(raise mergeexc)"
    import re as _re
    if isinstance(e, _re.error):
        return "(raise (crash ReError))"
    return "(raise (crash %s))" % type(e).__name__


def canon_model_line(line):
    """Model output at the granularity the correspondence compares."""
    if line.startswith("(raise (ype"):
        return "(raise ype)"
    if line.startswith("(raise (mergeexc"):
        return "(raise mergeexc)"
    return line


_MOD = None
_LISTED = frozenset()


def _init_worker(modname, listed=()):
    global _MOD, _LISTED
    _LISTED = frozenset(listed)
    sys.path.insert(0, REPO)
    sys.path.insert(0, os.path.join(VERIF, "harness"))
    sys.setrecursionlimit(10000)
    _MOD = importlib.import_module(modname)
    if hasattr(_MOD, "init_worker"):
        _MOD.init_worker()


MAX_KEEP = 25


def _process_chunk(chunk):
    mod = _MOD
    reqs = []
    spans = []
    obs_all = []
    t_impl = 0.0
    for case in chunk:
        r = mod.requests(case)
        t0 = time.perf_counter()
        o = mod.observe(case)
        t_impl += time.perf_counter() - t0
        assert len(r) == len(o), (case, r, o)
        x = mod.extra_requests(case) if hasattr(mod, "extra_requests") else []
        spans.append((len(reqs), len(r), len(x)))
        reqs.extend(r)
        reqs.extend(x)
        obs_all.append(o)
    outs = [canon_model_line(x) for x in run_model(reqs)]
    res = {"cases": len(chunk), "observations": sum(ln for (_, ln, _) in spans), "disagreements": [], "n_disagree": 0,
           "violations": [], "n_viol": 0, "hist": {}, "model_errors": 0, "samples": [], "t_impl": t_impl,
           "nontrivial": 0, "keys": [], "n_unlisted": 0, "by_finding": {}, "listed_samples": {}, "model_hist": {}}
    for case, (st, ln, nx), o in zip(chunk, spans, obs_all):
        m = outs[st:st + ln]
        if nx:
            # model-only requests (coverage of the model's own case structure); never compared
            for k, n in mod.model_stats(case, outs[st + ln:st + ln + nx]).items():
                res["model_hist"][k] = res["model_hist"].get(k, 0) + n
        if any(x.startswith("(error") for x in m):
            res["model_errors"] += 1
        if m != o:
            res["n_disagree"] += 1
            if len(res["disagreements"]) < MAX_KEEP:
                bad = [i for i in range(ln) if m[i] != o[i]]
                res["disagreements"].append({"case": mod.describe(case), "request": reqs[st + bad[0]],
                                             "model": m[bad[0]], "impl": o[bad[0]]})
        v = mod.judge(case, o)
        if v is not None:
            res["n_viol"] += 1
            finding = None
            for name, pred in getattr(mod, "FINDING_PREDS", {}).items():
                if name in _LISTED and pred(case, o):
                    finding = name
                    break
            rec = {"case": mod.describe(case), "what": v, "finding": finding, "obs": o}
            if finding is None:
                # a violation no listed finding accounts for is never dropped
                if len(res["violations"]) < 4 * MAX_KEEP:
                    res["violations"].append(rec)
                res["n_unlisted"] += 1
            else:
                res["by_finding"][finding] = res["by_finding"].get(finding, 0) + 1
                if finding not in res["listed_samples"]:
                    res["listed_samples"][finding] = rec
        b = mod.classify(case, o)
        res["hist"][b] = res["hist"].get(b, 0) + 1
        if getattr(mod, "nontrivial", None) and mod.nontrivial(case, o):
            res["nontrivial"] += 1
            res["keys"].append(hash(mod.key(case)) if hasattr(mod, "key") else hash(repr(mod.describe(case))))
    if chunk:
        res["samples"].append({"case": mod.describe(chunk[len(chunk) // 2]), "impl": obs_all[len(chunk) // 2]})
    return res


def run_correspondence(modname, tier, seed, extra_chunks=None, listed=()):
    """Run the whole correspondence + property evaluation for one property."""
    sys.path.insert(0, REPO)
    sys.path.insert(0, os.path.join(VERIF, "harness"))
    mod = importlib.import_module(modname)
    total = {"cases": 0, "observations": 0, "disagreements": [], "n_disagree": 0, "violations": [],
             "n_viol": 0, "hist": {}, "model_errors": 0, "samples": [], "t_impl": 0.0, "nontrivial": 0,
             "n_unlisted": 0, "by_finding": {}, "listed_samples": {}, "model_hist": {}}
    t0 = time.time()
    seen = set()

    def gen():
        if extra_chunks:
            for c in extra_chunks:
                yield c
        for c in mod.chunks(tier, seed):
            yield c

    ctx = mp.get_context("fork")
    with ctx.Pool(JOBS, initializer=_init_worker, initargs=(modname, tuple(listed))) as pool:
        for res in pool.imap_unordered(_process_chunk, gen(), chunksize=1):
            for k in ("cases", "observations", "n_disagree", "n_viol", "model_errors", "t_impl", "nontrivial",
                      "n_unlisted"):
                total[k] += res[k]
            for f, n in res["model_hist"].items():
                total["model_hist"][f] = total["model_hist"].get(f, 0) + n
            for f, n in res["by_finding"].items():
                total["by_finding"][f] = total["by_finding"].get(f, 0) + n
            for f, rec in res["listed_samples"].items():
                total["listed_samples"].setdefault(f, rec)
            for k in ("disagreements", "violations"):
                room = 200 - len(total[k])
                if room > 0:
                    total[k].extend(res[k][:room])
            for b, n in res["hist"].items():
                total["hist"][b] = total["hist"].get(b, 0) + n
            seen.update(res["keys"])
            if len(total["samples"]) < 8:
                total["samples"].extend(res["samples"])
    total["wall_s"] = time.time() - t0
    total["distinct_nontrivial"] = len(seen)
    return total


def load_known_findings(prop):
    """known_findings.txt: `known: property=Cxx id=.. pred=.. what=...` and
    `fixed: property=Cxx <commit> <what>` lines."""
    known = []
    fixed = []
    path = os.path.join(VERIF, "known_findings.txt")
    if not os.path.exists(path):
        return known, fixed
    for line in open(path):
        line = line.strip()
        if not line or line.startswith("#"):
            continue
        if line.startswith("known:"):
            fields = {}
            rest = line[len("known:"):].strip()
            what = ""
            if " what=" in rest:
                rest, what = rest.split(" what=", 1)
            for tok in rest.split():
                if "=" in tok:
                    k, v = tok.split("=", 1)
                    fields[k] = v
            fields["what"] = what
            if fields.get("property") == prop:
                known.append(fields)
        elif line.startswith("fixed:"):
            if ("property=%s " % prop) in line:
                fixed.append(line)
    return known, fixed
