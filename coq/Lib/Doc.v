(* Loaded YAML documents as rose trees.  [oid] is the CPython object identity
   class of the node as observed by the harness (id() of the loaded object):
   two nodes with the same oid are ONE Python object reachable at two places
   (aliases of an anchor, interned small ints / one-character strings / bools /
   None).  The identity-driven code of yamlpath depends on it. *)
From Coq Require Import List Ascii String ZArith NArith Bool.
From YP Require Import Outcome PyStr PyVal.
Import ListNotations.

Record info := mkinfo {
  oid : N;
  anchor : option string;       (* node.anchor.value when it has the attribute and it is set *)
  has_anchor_attr : bool;       (* hasattr(node, "anchor") *)
  tag : option string           (* YAML tag text when a non-default tag is set *)
}.

Inductive node :=
  | NLeaf (i : info) (v : pyval)
  | NMap (i : info) (kvs : list (node * node))   (* keys are leaves *)
  | NSeq (i : info) (els : list node)
  | NSet (i : info) (els : list node).           (* members are leaves *)

Definition node_info (n : node) : info :=
  match n with NLeaf i _ | NMap i _ | NSeq i _ | NSet i _ => i end.
Definition node_oid (n : node) : N := oid (node_info n).
Definition node_anchor (n : node) : option string := anchor (node_info n).

Definition is_leaf (n : node) : bool := match n with NLeaf _ _ => true | _ => false end.
Definition is_map (n : node) : bool := match n with NMap _ _ => true | _ => false end.
Definition is_seq (n : node) : bool := match n with NSeq _ _ => true | _ => false end.
Definition is_set (n : node) : bool := match n with NSet _ _ => true | _ => false end.

Definition leaf_val (n : node) : option pyval :=
  match n with NLeaf _ v => Some v | _ => None end.

(* ruamel's ScalarBoolean (an anchored YAML boolean such as `&x true`) is an
   int subclass: Python sees the integer 1/0 (str() = "1"), but code may test
   isinstance(x, ScalarBoolean).  Convention: such a leaf is encoded as
   NLeaf i (PInt 1|0) whose [tag i] is the YAML boolean tag below (the encoder
   harness/docenc.py sets it; a ScalarBoolean carries no other tag). *)
Definition sbool_tag : string := "tag:yaml.org,2002:bool"%string.
Definition is_sbool (n : node) : bool :=
  match n with
  | NLeaf i (PInt _) => match tag i with Some t => String.eqb t sbool_tag | None => false end
  | _ => false
  end.

(* `a is b` *)
Definition same_obj (a b : node) : bool := N.eqb (node_oid a) (node_oid b).

(* A strong induction principle for the nested type. *)
Section NodeInd.
  Variable P : node -> Prop.
  Hypothesis Hleaf : forall i v, P (NLeaf i v).
  Hypothesis Hmap : forall i kvs, Forall (fun kv => P (fst kv) /\ P (snd kv)) kvs -> P (NMap i kvs).
  Hypothesis Hseq : forall i els, Forall P els -> P (NSeq i els).
  Hypothesis Hset : forall i els, Forall P els -> P (NSet i els).

  Fixpoint node_ind' (n : node) : P n :=
    match n with
    | NLeaf i v => Hleaf i v
    | NMap i kvs =>
        Hmap i kvs ((fix go (l : list (node * node)) : Forall (fun kv => P (fst kv) /\ P (snd kv)) l :=
                       match l with
                       | [] => Forall_nil _
                       | kv :: r => Forall_cons kv (conj (node_ind' (fst kv)) (node_ind' (snd kv))) (go r)
                       end) kvs)
    | NSeq i els =>
        Hseq i els ((fix go (l : list node) : Forall P l :=
                       match l with
                       | [] => Forall_nil _
                       | x :: r => Forall_cons _ (node_ind' x) (go r)
                       end) els)
    | NSet i els =>
        Hset i els ((fix go (l : list node) : Forall P l :=
                       match l with
                       | [] => Forall_nil _
                       | x :: r => Forall_cons _ (node_ind' x) (go r)
                       end) els)
    end.
End NodeInd.

(* number of nodes (keys included); a convenient fuel / measure *)
Fixpoint node_size (n : node) : nat :=
  match n with
  | NLeaf _ _ => 1
  | NMap _ kvs => S (fold_right (fun kv acc => node_size (fst kv) + node_size (snd kv) + acc) 0 kvs)
  | NSeq _ els => S (fold_right (fun x acc => node_size x + acc) 0 els)
  | NSet _ els => S (fold_right (fun x acc => node_size x + acc) 0 els)
  end.

(* child references and locations *)
Inductive ref :=
  | RKey (k : pyval)      (* mapping key, compared with Python == / hash *)
  | RIdx (n : nat)        (* sequence position (already normalised, >= 0) *)
  | RMember (v : pyval).  (* set member *)
Definition loc := list ref.

Fixpoint assoc_key (k : pyval) (kvs : list (node * node)) : option node :=
  match kvs with
  | [] => None
  | (kn, v) :: r =>
      match kn with
      | NLeaf _ kv => if py_eq kv k then Some v else assoc_key k r
      | _ => assoc_key k r
      end
  end.

Fixpoint find_member (k : pyval) (els : list node) : option node :=
  match els with
  | [] => None
  | (NLeaf i v as n) :: r => if py_eq v k then Some n else find_member k r
  | _ :: r => find_member k r
  end.

Definition child (n : node) (r : ref) : option node :=
  match n, r with
  | NMap _ kvs, RKey k => assoc_key k kvs
  | NSeq _ els, RIdx i => nth_error els i
  | NSet _ els, RMember v => find_member v els
  | _, _ => None
  end.

Fixpoint lookup (n : node) (l : loc) : option node :=
  match l with
  | [] => Some n
  | r :: rest => match child n r with Some c => lookup c rest | None => None end
  end.

(* plain data: the document with identity, anchors and tags erased *)
Inductive data :=
  | DLeaf (v : pyval)
  | DMap (kvs : list (pyval * data))
  | DSeq (els : list data)
  | DSet (els : list pyval).

Fixpoint erase (n : node) : data :=
  match n with
  | NLeaf _ v => DLeaf v
  | NMap _ kvs =>
      DMap (map (fun kv => (match fst kv with NLeaf _ k => k | _ => PNone end, erase (snd kv))) kvs)
  | NSeq _ els => DSeq (map erase els)
  | NSet _ els => DSet (map (fun m => match m with NLeaf _ v => v | _ => PNone end) els)
  end.
