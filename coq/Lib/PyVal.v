(* Python scalar values as yamlpath sees them after ruamel.yaml has loaded a
   document, with the Python operations the modelled code applies to them. *)
From Coq Require Import List Ascii String ZArith QArith Bool.
From YP Require Import Outcome PyStr.
Import ListNotations.
Open Scope string_scope.

Inductive pyval :=
  | PNone
  | PBool (b : bool)                 (* a real Python bool *)
  | PInt (z : Z)                     (* int and its non-bool subclasses (ScalarInt, ScalarBoolean) *)
  | PFloat (q : Q) (repr : string)   (* float / ScalarFloat: exact value + repr() *)
  | PStr (s : string)                (* str and its subclasses *)
  | POther (repr : string).          (* date, datetime, tuple, bytes, ...: str() text only *)

Definition Z_of_bool (b : bool) : Z := if b then 1%Z else 0%Z.

(* the numeric value of a bool / int / float *)
Definition num_of (v : pyval) : option Q :=
  match v with
  | PBool b => Some (inject_Z (Z_of_bool b))
  | PInt z => Some (inject_Z z)
  | PFloat q _ => Some q
  | _ => None
  end.

(* str(v) *)
Definition py_str (v : pyval) : string :=
  match v with
  | PNone => "None"
  | PBool true => "True"
  | PBool false => "False"
  | PInt z => str_of_Z z
  | PFloat _ r => r
  | PStr s => s
  | POther r => r
  end.

(* v == w *)
Definition py_eq (v w : pyval) : bool :=
  match num_of v, num_of w with
  | Some a, Some b => Qeq_bool a b
  | _, _ =>
      match v, w with
      | PNone, PNone => true
      | PStr a, PStr b => String.eqb a b
      | POther a, POther b => String.eqb a b
      | _, _ => false
      end
  end.

(* byte-wise lexicographic order = code-point order on UTF-8 *)
Fixpoint str_ltb (a b : string) : bool :=
  match a, b with
  | EmptyString, EmptyString => false
  | EmptyString, String _ _ => true
  | String _ _, EmptyString => false
  | String x a', String y b' =>
      let nx := nat_of_ascii x in
      let ny := nat_of_ascii y in
      if Nat.ltb nx ny then true else if Nat.ltb ny nx then false else str_ltb a' b'
  end.
Definition str_leb (a b : string) : bool := negb (str_ltb b a).

Definition Qlt_bool (a b : Q) : bool := negb (Qle_bool b a).

(* v < w: numbers among themselves, text with text; TypeError otherwise *)
Definition py_lt (v w : pyval) : outcome bool :=
  match num_of v, num_of w with
  | Some a, Some b => Ok (Qlt_bool a b)
  | _, _ =>
      match v, w with
      | PStr a, PStr b => Ok (str_ltb a b)
      | _, _ => Raise (PyCrash TypeError)
      end
  end.

Definition py_le (v w : pyval) : outcome bool :=
  match num_of v, num_of w with
  | Some a, Some b => Ok (Qle_bool a b)
  | _, _ =>
      match v, w with
      | PStr a, PStr b => Ok (str_leb a b)
      | _, _ => Raise (PyCrash TypeError)
      end
  end.

(* isinstance(v, int): bool is a subclass of int *)
Definition is_int_inst (v : pyval) : bool :=
  match v with PBool _ | PInt _ => true | _ => false end.
(* isinstance(v, bool) *)
Definition is_bool_inst (v : pyval) : bool :=
  match v with PBool _ => true | _ => false end.
(* isinstance(v, float) *)
Definition is_float_inst (v : pyval) : bool :=
  match v with PFloat _ _ => true | _ => false end.
(* type(v) is int / bool / float / str -- exact classes of literal_eval results *)
Definition type_is_int (v : pyval) : bool := match v with PInt _ => true | _ => false end.
Definition type_is_bool (v : pyval) : bool := match v with PBool _ => true | _ => false end.
Definition type_is_float (v : pyval) : bool := match v with PFloat _ _ => true | _ => false end.
Definition is_str_inst (v : pyval) : bool := match v with PStr _ => true | _ => false end.

(* Python truthiness of a scalar *)
Definition py_truthy (v : pyval) : bool :=
  match v with
  | PNone => false
  | PBool b => b
  | PInt z => negb (Z.eqb z 0)
  | PFloat q _ => negb (Qeq_bool q 0)
  | PStr s => nonempty s
  | POther _ => true
  end.
