(* Outcome of a modelled Python computation: a value, a raised exception,
   or exhausted fuel (never a normal-looking value). *)
From Coq Require Import List.
Import ListNotations.

Inductive ype_kind := Generic | Unmatched | TypeMismatch | Recursion | NoDocument
                    | DuplicateKey | BadAlias.
Inductive pycrash := IndexError | TypeError | KeyError | ValueError | AttributeError
                   | ReError | RecursionError | NotImplemented.
(* OracleMiss: the finite oracle table shipped with a request lacks an entry
   (a harness error; the correspondence check fails closed on it). *)
Inductive exn := YPE (k : ype_kind) | MergeExc | EyamlExc | PyCrash (c : pycrash) | OracleMiss.

Inductive outcome (A : Type) := Ok (a : A) | Raise (e : exn) | OutOfFuel.
Arguments Ok {A} a.
Arguments Raise {A} e.
Arguments OutOfFuel {A}.

Definition bind {A B} (o : outcome A) (f : A -> outcome B) : outcome B :=
  match o with
  | Ok a => f a
  | Raise e => Raise e
  | OutOfFuel => OutOfFuel
  end.

Definition omap {A B} (f : A -> B) (o : outcome A) : outcome B :=
  bind o (fun a => Ok (f a)).

Notation "'do' x <- o ; k" := (bind o (fun x => k))
  (at level 200, x pattern, o at level 100, k at level 200, right associativity).

(* An outcome is "clean" when it is a value or a YAML Path exception. *)
Definition is_ype {A} (o : outcome A) : bool :=
  match o with Raise (YPE _) => true | _ => false end.
Definition is_ok {A} (o : outcome A) : bool :=
  match o with Ok _ => true | _ => false end.
Definition is_crash {A} (o : outcome A) : bool :=
  match o with Raise (PyCrash _) => true | _ => false end.

Definition ok_or_ype {A} (o : outcome A) : Prop :=
  (exists a, o = Ok a) \/ (exists k, o = Raise (YPE k)).

Lemma bind_ok_or_ype {A B} (o : outcome A) (f : A -> outcome B) :
  ok_or_ype o -> (forall a, o = Ok a -> ok_or_ype (f a)) -> ok_or_ype (bind o f).
Proof.
  intros [[a Ha]|[k Hk]] Hf; subst; simpl.
  - apply Hf; reflexivity.
  - right; exists k; reflexivity.
Qed.

(* Sequencing over lists *)
Fixpoint mapM {A B} (f : A -> outcome B) (l : list A) : outcome (list B) :=
  match l with
  | [] => Ok []
  | x :: xs => do y <- f x; do ys <- mapM f xs; Ok (y :: ys)
  end.

Fixpoint foldM {A S} (f : S -> A -> outcome S) (l : list A) (s : S) : outcome S :=
  match l with
  | [] => Ok s
  | x :: xs => do s' <- f s x; foldM f xs s'
  end.
